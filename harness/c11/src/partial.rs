//! C11 part `Partial` — the Java/Kotlin partial-path lookup of `rewrite_paths`
//! (`map_partial_path`, path_rewriting.rs 233-356) tied to `Rewrite.rewritePathsJ`
//! (lean/GrcovModel/Rewrite/Partial.lean, driver ops `c11.partial.*` of gm_c11).
//!
//! The real walk order is `readdir` order: the harness reads the generated tree itself
//! (`std::fs::read_dir`, which is what `walkdir` uses when no sorting is configured) and hands
//! that order to the model, so every case is compared, ambiguous ones included.
use crate::pathgen::*;
use corrlib::*;
use grcov::CovResult;
use serde_json::{json, Value};
use std::collections::{BTreeMap, BTreeSet};
use std::path::Path;

pub const FINDING: &str = "C11-partial-path-ignore-prunes-candidates";

const TOPS: &[&str] = &["a", "b", "gen", ".hid", "com", "名", "Dir.java"];
const TAILS: &[&[&str]] = &[&[], &["x"], &["y"], &["x", "app"], &["com", "app"], &[".git"], &["x", "y", "z"]];
const JNAMES: &[&str] = &["Foo.java", "Bar.kt", "Main.java", "Foo.kt", "A.b.java", "名.java"];
const ODD: &[&str] = &["foo.c", ".Hidden.java", "Foo.java.bak", "noext", ".java", "Foo.java~", "x.KT", "Baz.java"];
const JGLOBS: &[&str] = &[
    "a/**", "b/**", "gen/**", "a/*", "**/x/*", "*.kt", "**/*.java", "**/Foo.java", "a/x/Foo.java", "*",
    "com/**", "**/app/*", "b/x/**", "**/y/**", "*/Foo.java", "x/*", "Foo.java", "**/Bar.kt", "名/**", "*.c",
];

// ---------------------------------------------------------------------------------------------
// trees

fn add(top: &str, ds: &[&str], f: &str, dirs: &mut BTreeSet<String>, files: &mut BTreeSet<String>) {
    let mut p = top.to_string();
    for d in ds {
        p = format!("{}/{}", p, d);
        dirs.insert(p.clone());
    }
    files.insert(format!("{}/{}", p, f));
}

fn build_jtree(rng: &mut Rng, base: &Path, idx: u64) -> Tree {
    let mut dirs: BTreeSet<String> = BTreeSet::new();
    let mut files: BTreeSet<String> = BTreeSet::new();
    for top in ["src", "other", "cw"] {
        dirs.insert(top.to_string());
    }
    // the same file name below several top directories, with the same or a different tail
    for _ in 0..rng.range(2, 4) {
        let name = *rng.pick(JNAMES);
        let tail: Vec<&str> = rng.pick(TAILS).to_vec();
        for _ in 0..rng.range(1, 4) {
            let top = *rng.pick(TOPS);
            let tl: Vec<&str> = if rng.chance(3, 4) { tail.clone() } else { rng.pick(TAILS).to_vec() };
            let mut ds = vec![top];
            ds.extend(tl);
            add("src", &ds, name, &mut dirs, &mut files);
        }
        if rng.chance(1, 3) {
            add("src", &tail, name, &mut dirs, &mut files);
        }
        if rng.chance(1, 3) {
            add("other", &tail, name, &mut dirs, &mut files);
        }
    }
    for _ in 0..rng.range(1, 4) {
        let mut ds: Vec<&str> = vec![];
        if rng.chance(2, 3) {
            ds.push(*rng.pick(TOPS));
        }
        ds.extend(rng.pick(TAILS).iter());
        add("src", &ds, *rng.pick(ODD), &mut dirs, &mut files);
    }
    if rng.chance(1, 2) {
        add("src", &[], *rng.pick(&["Top.java", "foo.c", "Foo.java"]), &mut dirs, &mut files);
    }
    // a directory named like a Java file is not a candidate
    if rng.chance(1, 3) {
        dirs.insert("src/a/Foo.java.d".to_string());
        dirs.insert("src/a".to_string());
        dirs.insert("src/b".to_string());
        dirs.insert("src/b/Main.java".to_string());
    }
    // a file and a directory cannot share a path
    let files: BTreeSet<String> = files.into_iter().filter(|f| !dirs.contains(f)).collect();
    let rel_dirs: Vec<String> = dirs.into_iter().collect();
    let rel_files: Vec<String> = files.into_iter().collect();
    let mut t = materialise(base, idx, &rel_dirs, &rel_files);
    // symbolic links: `filter_entry(!is_symbolic_link)` prunes them, link directories are not
    // descended; a link to a Java file is not a candidate, but a key may name it
    if idx % 2 == 1 {
        let jf: Vec<String> = t.real_files_under("src").into_iter().filter(|f| f.ends_with(".java") || f.ends_with(".kt")).collect();
        let jd = t.dirs_under("src");
        let mut links: Vec<(String, String)> = vec![("srclink".into(), "src".into()), ("src/loop".into(), "loop".into())];
        if !jf.is_empty() {
            links.push(("src/Link.java".into(), rng.pick(&jf).clone()));
            links.push(("src/Foo.java".into(), format!("{{root}}/src/{}", rng.pick(&jf))));
        }
        if !jd.is_empty() {
            links.push(("src/ldir".into(), rng.pick(&jd).clone()));
            links.push(("src/gen2".into(), format!("{{root}}/src/{}", rng.pick(&jd))));
        }
        add_links(&mut t, &links);
    }
    t
}

/// the tree's entries in the order an unsorted walk yields them (pre-order, children in
/// `readdir` order), as canonical absolute paths
pub fn walk_order(root: &Path, out: &mut Vec<String>) {
    out.push(root.to_str().unwrap().to_string());
    let is_dir = std::fs::symlink_metadata(root).map(|m| m.is_dir()).unwrap_or(false);
    if is_dir {
        if let Ok(rd) = std::fs::read_dir(root) {
            for e in rd.flatten() {
                walk_order(&e.path(), out);
            }
        }
    }
}

// ---------------------------------------------------------------------------------------------
// cases

fn gen_jcfg(rng: &mut Rng, t: &Tree) -> Cfg {
    let sd = match rng.below(24) {
        0..=15 => Some(t.src.clone()),
        16 => Some(format!("{}/", t.src)),
        17 => Some(format!("{}/.hid", t.src)), // hidden root: the walk yields nothing
        18 => Some(format!("{}/a", t.src)),
        19 => Some("/nonexistent/srcdir".to_string()), // the walk panics when it is needed
        20 => Some(t.root.clone()),
        21 => t.real_files_under("src").first().map(|f| format!("{}/{}", t.src, f)), // a regular file
        22 if t.rel_links.iter().any(|(p, _)| p == "srclink") => Some(format!("{}/srclink", t.root)), // a link to the source dir
        _ => None,
    };
    let pd = match rng.below(10) {
        0 | 1 => sd.clone(),
        2 => Some("/builds/worker/ws".to_string()),
        3 => Some(t.other.clone()),
        4 => Some("ws".to_string()),
        _ => None,
    };
    let mut c = Cfg { sd, pd, mapping: None, ignore: vec![], keep: vec![], ine: false, filter: None };
    for _ in 0..*rng.pick(&[0u64, 0, 1, 1, 2]) {
        c.ignore.push(rng.pick(JGLOBS).to_string());
    }
    for _ in 0..*rng.pick(&[0u64, 0, 0, 1, 2]) {
        c.keep.push(rng.pick(JGLOBS).to_string());
    }
    c.ine = rng.chance(1, 4);
    c.filter = *rng.pick(&[None, None, None, Some(true), Some(false)]);
    c
}

fn gen_jkey(rng: &mut Rng, t: &Tree, pd: Option<&str>, stats: &mut BTreeMap<String, u64>) -> String {
    let mut count = |k: &str| *stats.entry(format!("partial.key.{}", k)).or_insert(0) += 1;
    let src_files = t.files_under("src");
    let jfiles: Vec<&String> = src_files
        .iter()
        .filter(|f| f.ends_with(".java") || f.ends_with(".kt"))
        .collect();
    let base: String = match rng.below(16) {
        0..=8 if !jfiles.is_empty() => {
            // the last 1..=4 components of an existing Java/Kotlin file: partial depth 0-3
            let f = *rng.pick(&jfiles);
            let cs: Vec<&str> = f.split('/').collect();
            let depth = rng.below(4) as usize;
            let k = cs.len().saturating_sub(depth + 1);
            count(&format!("partial_depth_{}", cs.len() - k - 1));
            if k == 0 {
                count("full_path");
            }
            cs[k..].join("/")
        }
        9 if !jfiles.is_empty() => {
            // right name, wrong directory: no candidate ends with it
            count("wrong_dir");
            let f = *rng.pick(&jfiles);
            format!("zz/{}", f.rsplit('/').next().unwrap())
        }
        10 => {
            count("missing_java");
            format!("{}{}", rng.pick(&["", "x/", "a/b/"]), rng.pick(&["Nope.java", "Nope.kt"]))
        }
        11 | 12 => {
            // a non-Java key: existing (does not trigger the lookup) or missing (does)
            let cfiles: Vec<&String> = src_files.iter().filter(|f| f.ends_with(".c")).collect();
            if !cfiles.is_empty() && rng.chance(1, 2) {
                count("nonjava_existing");
                (*rng.pick(&cfiles)).clone()
            } else {
                count("nonjava_missing");
                rng.pick(&["gone.c", "x/gone.rs", "lib/gone.cpp"]).to_string()
            }
        }
        13 => {
            count("odd_name");
            format!("{}{}", rng.pick(&["", "x/"]), rng.pick(ODD))
        }
        _ if !src_files.is_empty() => {
            count("any_existing");
            rng.pick(&src_files).clone()
        }
        _ => "Foo.java".to_string(),
    };
    let mut k = match rng.below(14) {
        0..=6 => base,
        7 if pd.is_some() => {
            count("form.prefixed");
            format!("{}/{}", pd.unwrap().trim_end_matches('/'), base)
        }
        8 => {
            count("form.dot_slash");
            format!("./{}", base)
        }
        9 => {
            count("form.absolute");
            format!("{}/{}", t.src, base)
        }
        10 => {
            count("form.trailing");
            format!("{}{}", base, rng.pick(&["/", "/.", "//"]))
        }
        11 => {
            count("form.dotdot");
            format!("q/../{}", base)
        }
        _ => base,
    };
    if rng.chance(1, 6) && k.contains('/') {
        count("form.backslash");
        if rng.chance(1, 2) {
            k = k.replace('/', "\\");
        } else {
            k = k.replacen('/', "\\", 1);
        }
    }
    if rng.chance(1, 12) && k.contains('/') {
        count("form.double_slash");
        k = k.replacen('/', "//", 1);
    }
    k
}

fn gen_jcase(rng: &mut Rng, t: &Tree, stats: &mut BTreeMap<String, u64>) -> Case {
    let mut cfg = gen_jcfg(rng, t);
    let n = rng.range(1, 6);
    let mut keys: Vec<String> = vec![];
    for _ in 0..n {
        let k = gen_jkey(rng, t, cfg.pd.as_deref(), stats);
        if !keys.contains(&k) && !k.is_empty() {
            keys.push(k);
        }
    }
    if rng.chance(1, 6) {
        // map some key (case-toggled first letter) to another partial path
        let mut m: Vec<(String, String)> = vec![];
        for _ in 0..rng.range(1, 2) {
            let k = rng.pick(&keys).replace('\\', "/");
            let mut v = gen_jkey(rng, t, cfg.pd.as_deref(), &mut BTreeMap::new()).replace('\\', "/");
            if rng.chance(1, 4) {
                // a Windows-style mapping value: the lookup sees the backslashes as part of a name
                *stats.entry("partial.mapping.value_with_backslash".to_string()).or_insert(0) += 1;
                v = if rng.chance(1, 2) { v.replace('/', "\\") } else { v.replacen('/', "\\", 1) };
            }
            if !m.iter().any(|(k2, _)| *k2 == k) && !v.is_empty() {
                m.push((k, v));
            }
        }
        cfg.mapping = Some(m);
    }
    let entries = keys.into_iter().enumerate().map(|(i, k)| (k, gen_cov(rng, i as u32))).collect();
    Case { cfg, entries }
}

// ---------------------------------------------------------------------------------------------
// requests

fn jrequest(op: &str, t: &Tree, ord: &[String], cfg: &Cfg, entries: &[(String, CovResult)]) -> String {
    let o: Vec<String> = ord.iter().map(|p| format!("p{}", hex(p.as_bytes()))).collect();
    let r = request("R", t, cfg, entries);
    format!("{} O{} {}", op, o.join(","), &r[2..])
}

// ---------------------------------------------------------------------------------------------
// independent re-statement of the lookup (std::path, std::fs, globset; never calls grcov)

fn is_partial(p: &Path) -> bool {
    matches!(p.extension().and_then(|e| e.to_str()), Some("java") | Some("kt"))
}

#[derive(Clone, Debug, PartialEq)]
pub enum Lookup {
    /// the lookup is not attempted (not needed, or the path has no java/kt extension)
    NotTried,
    NoEntry,
    Single(String),
    /// the candidates that end with the path, in walk order (non-empty), of `n` candidates
    Matches(Vec<String>, usize),
    NoMatch(usize),
}

impl Lookup {
    fn tag(&self) -> String {
        match self {
            Lookup::NotTried => "nottried".into(),
            Lookup::NoEntry => "noentry".into(),
            Lookup::Single(_) => "single".into(),
            Lookup::Matches(m, _) => format!("match{}", m.len()),
            Lookup::NoMatch(n) => format!("nomatch{}", n),
        }
    }
    /// the candidate the key is mapped to, if any
    fn chosen(&self) -> Option<&String> {
        match self {
            Lookup::Single(c) => Some(c),
            Lookup::Matches(m, _) => m.first(),
            _ => None,
        }
    }
}

pub struct Spec {
    pub needed: bool,
    pub walk_panic: bool,
    pub root_is_dir: bool,
    pub lookups: Vec<Lookup>,
    /// the path handed to `get_abs_path`, per key
    pub mapped: Vec<String>,
    /// per key: the lookup would run but the path names a file below the source dir
    pub is_file: Vec<bool>,
}

fn lower_first(s: &str) -> String {
    let mut c = s.chars();
    match c.next() {
        Some(f) => f.to_lowercase().collect::<String>() + c.as_str(),
        None => String::new(),
    }
}
fn upper_first(s: &str) -> String {
    let mut c = s.chars();
    match c.next() {
        Some(f) => f.to_uppercase().collect::<String>() + c.as_str(),
        None => String::new(),
    }
}

pub fn spec(ord: &[String], cfg: &Cfg, keys: &[String], ignore: &[String]) -> Spec {
    let mut sp = Spec { needed: false, walk_panic: false, root_is_dir: false, lookups: vec![], mapped: vec![], is_file: vec![] };
    let mut cands: BTreeMap<String, Vec<String>> = BTreeMap::new();
    if let Some(sd) = &cfg.sd {
        let sdp = Path::new(sd);
        let has_java = keys.iter().any(|k| is_partial(Path::new(k)));
        sp.needed = has_java
            && keys.iter().any(|k| {
                let mut p = Path::new(k);
                if let Some(pd) = &cfg.pd {
                    p = p.strip_prefix(pd).unwrap_or(p);
                }
                !sdp.join(p).exists()
            });
        if sp.needed {
            // walkdir follows a root that is a symbolic link (the entry itself is rejected by
            // `filter_entry`, its directory is still read); a dangling root link is an error
            let lmd = std::fs::symlink_metadata(sdp);
            let is_link = lmd.as_ref().map(|m| m.file_type().is_symlink()).unwrap_or(false);
            let md = if is_link { std::fs::metadata(sdp) } else { lmd };
            match md {
                Err(_) => sp.walk_panic = true,
                Ok(md) => {
                    sp.root_is_dir = md.is_dir();
                    let root_name = sdp.file_name().unwrap_or(sdp.as_os_str()).to_str().unwrap();
                    let covered: BTreeSet<&str> = keys
                        .iter()
                        .map(|k| k.rsplit(|c| c == '/' || c == '\\').next().unwrap())
                        .collect();
                    let ig = glob_set(ignore);
                    if md.is_dir() && (is_link || !root_name.starts_with('.')) {
                        let croot = std::fs::canonicalize(sdp).unwrap();
                        let croot = croot.to_str().unwrap().trim_end_matches('/').to_string();
                        for p in ord {
                            let Some(rel) = p.strip_prefix(&format!("{}/", croot)) else { continue };
                            if rel.split('/').any(|c| c.starts_with('.')) {
                                continue; // a hidden directory prunes its subtree; hidden files are skipped
                            }
                            let name = rel.rsplit('/').next().unwrap();
                            // a regular file itself (a symbolic link to one is pruned by the walk)
                            let regular = std::fs::symlink_metadata(p).map(|m| m.is_file()).unwrap_or(false);
                            if !is_partial(Path::new(name)) || !regular {
                                continue;
                            }
                            if !covered.contains(name) || ig.is_match(rel) {
                                continue;
                            }
                            cands.entry(name.to_string()).or_default().push(rel.to_string());
                        }
                    }
                }
            }
        }
    }
    for k in keys {
        let path = k.replace('\\', "/");
        let mut rel = path.clone();
        if let Some(m) = &cfg.mapping {
            let get = |x: &str| m.iter().find(|(k2, _)| k2 == x).map(|(_, v)| v.clone());
            if let Some(v) = get(&lower_first(&path)).or_else(|| get(&upper_first(&path))) {
                rel = v;
            }
        }
        if let Some(pd) = &cfg.pd {
            if let Ok(r) = Path::new(&rel).strip_prefix(pd) {
                rel = r.to_str().unwrap().to_string();
            }
        }
        // fix fdef150: a path that names a file below the source dir is not looked up
        let names_file = cfg.sd.as_ref().map_or(false, |sd| Path::new(sd).join(&rel).is_file());
        sp.is_file.push(sp.needed && is_partial(Path::new(&rel)) && names_file);
        let lk = if sp.needed && is_partial(Path::new(&rel)) && !names_file {
            let name = Path::new(&rel).file_name().unwrap().to_str().unwrap();
            match cands.get(name) {
                None => Lookup::NoEntry,
                Some(o) if o.len() == 1 => Lookup::Single(o[0].clone()),
                Some(o) => {
                    let ms: Vec<String> = o.iter().filter(|c| Path::new(c).ends_with(&rel)).cloned().collect();
                    if ms.is_empty() { Lookup::NoMatch(o.len()) } else { Lookup::Matches(ms, o.len()) }
                }
            }
        } else {
            Lookup::NotTried
        };
        sp.mapped.push(lk.chosen().cloned().unwrap_or(rel));
        sp.lookups.push(lk);
    }
    sp
}

/// the named matcher of the finding: with the glob set `ignore` in force as `--ignore`, some key's
/// lookup resolves differently than without it (a glob matched one of the walk candidates)
fn ignore_prunes(ord: &[String], cfg: &Cfg, keys: &[String], ignore: &[String]) -> bool {
    if ignore.is_empty() {
        return false;
    }
    let a = spec(ord, cfg, keys, ignore);
    let b = spec(ord, cfg, keys, &[]);
    a.lookups != b.lookups
}

/// the clauses about the lookup itself, on the implementation's own output
fn lookup_oracle(ord: &[String], case: &Case) -> Option<String> {
    let cfg = &case.cfg;
    let keys: Vec<String> = case.entries.iter().map(|e| e.0.clone()).collect();
    let sp = spec(ord, cfg, &keys, &cfg.ignore);
    // the report with the configured --ignore globs but no other selection
    let mut c2 = cfg.neutral();
    c2.ignore = cfg.ignore.clone();
    let got = run_impl(&c2, &case.entries);
    if sp.walk_panic {
        return if got.is_ok() { Some("the walk of a non-existing source dir did not panic".into()) } else { None };
    }
    let Ok(recs) = got else { return None };
    if !sp.root_is_dir && sp.needed {
        return None;
    }
    let sd = cfg.sd.as_ref()?;
    let csd = std::fs::canonicalize(sd).ok()?;
    let csd = csd.to_str().unwrap().trim_end_matches('/').to_string();
    let ig = glob_set(&cfg.ignore);
    for (i, lk) in sp.lookups.iter().enumerate() {
        let rec = recs.iter().find(|r| marker(&r.2) == MARK + i as u32);
        match lk {
            Lookup::Single(_) | Lookup::Matches(_, _) => {
                let c = lk.chosen().unwrap();
                if ig.is_match(c) {
                    continue; // cannot happen: ignored candidates are pruned
                }
                match rec {
                    None => return Some(format!("key {:?}: the lookup finds {:?} but the key is not reported", keys[i], c)),
                    Some((abs, rel, _)) => {
                        if rel != c || *abs != format!("{}/{}", csd, c) {
                            let any = if let Lookup::Matches(m, _) = lk { m.contains(rel) } else { false };
                            return Some(format!(
                                "key {:?}: lookup {} expects ({:?}) but the report has ({:?}, {:?}){}",
                                keys[i], lk.tag(), c, abs, rel,
                                if any { " [another candidate that ends with the path]" } else { "" }));
                        }
                    }
                }
            }
            _ => {}
        }
    }
    None
}

// ---------------------------------------------------------------------------------------------
// one case: impl, model, oracles

struct Ctx<'a> {
    t: &'a Tree,
    ord: &'a [String],
}

fn case_json(ctx: &Ctx, case: &Case) -> Value {
    let mut v = case.to_json("c11.partial.rewrite", ctx.t);
    v["ord"] = json!(ctx.ord.iter().map(|p| p.strip_prefix(&ctx.t.root).unwrap_or(p).to_string()).collect::<Vec<_>>());
    v
}

/// first failing clause of the property on the implementation, with the finding it belongs to
fn joracle(ctx: &Ctx, case: &Case) -> Option<(String, Option<&'static str>)> {
    if let Some(w) = lookup_oracle(ctx.ord, case) {
        return Some((w, None));
    }
    let keys: Vec<String> = case.entries.iter().map(|e| e.0.clone()).collect();
    let all = c11_oracle_all(case);
    let mut named: Option<(String, Option<&'static str>)> = None;
    for (what, f) in all {
        let mine = if what.starts_with("selection:") {
            ignore_prunes(ctx.ord, &case.cfg, &keys, &case.cfg.ignore)
        } else if what.starts_with("--ignore G and --keep-only G") {
            ignore_prunes(ctx.ord, &case.cfg, &keys, &case.cfg.ignore)
                || ignore_prunes(ctx.ord, &case.cfg, &keys, &case.cfg.keep)
        } else {
            false
        };
        let f = if f.is_some() { f } else if mine { Some(FINDING) } else { None };
        if f.is_none() {
            return Some((what, None));
        }
        if named.is_none() {
            named = Some((what, f));
        }
    }
    named
}

fn shrink_j(ctx: &Ctx, case: &Case, bad: &dyn Fn(&Case) -> bool) -> Case {
    let mut cur = case.clone();
    let mut progress = true;
    let mut steps = 0;
    while progress && steps < 40 {
        progress = false;
        let mut cands: Vec<Case> = vec![];
        for i in 0..cur.entries.len() {
            if cur.entries.len() > 1 {
                let mut c = cur.clone();
                c.entries.remove(i);
                cands.push(c);
            }
        }
        for which in 0..7 {
            let mut c = cur.clone();
            match which {
                0 => { c.cfg.ignore.pop(); }
                1 => { c.cfg.keep.pop(); }
                2 => c.cfg.ine = false,
                3 => c.cfg.filter = None,
                4 => c.cfg.mapping = None,
                5 => c.cfg.pd = None,
                _ => { if !c.cfg.ignore.is_empty() { c.cfg.ignore.remove(0); } }
            }
            if format!("{:?}", c.cfg) != format!("{:?}", cur.cfg) {
                cands.push(c);
            }
        }
        for c in cands {
            steps += 1;
            if bad(&c) {
                cur = c;
                progress = true;
                break;
            }
        }
    }
    let _ = ctx;
    cur
}

fn check_jcase(rep: &mut Report, ctx: &Ctx, case: &Case, impl_out: &str, model_out: &str) {
    match joracle(ctx, case) {
        Some((what, finding)) => {
            let seen = rep.failures.iter().filter(|f| f.finding.as_deref() == finding && f.kind == "oracle").count();
            if seen >= 6 {
                rep.fail("oracle", finding, what, case_json(ctx, case));
                return;
            }
            let small = shrink_j(ctx, case, &|c| matches!(joracle(ctx, c), Some((_, f)) if f == finding));
            let what = joracle(ctx, &small).map(|x| x.0).unwrap_or(what);
            rep.fail("oracle", finding, what, case_json(ctx, &small));
        }
        None => {}
    }
    // the model is compared on every case, whatever the oracle says: the finding is a property of
    // the code that the model reproduces
    if impl_out != model_out {
        rep.disagreements_checked += 1;
        let few = rep.failures.iter().filter(|f| f.kind == "disagreement").count() < 6;
        let wd = rep.workdir.clone();
        let small = if !few { case.clone() } else {
            shrink_j(ctx, case, &|c| {
                let req = jrequest("c11.partial.rewrite", ctx.t, ctx.ord, &c.cfg, &c.entries);
                run_model_named("gm_c11", &[req], &wd, "pshrink")[0] != show_recs(&run_impl(&c.cfg, &c.entries))
            })
        };
        let mut cj = case_json(ctx, &small);
        cj["impl"] = json!(show_recs(&run_impl(&small.cfg, &small.entries)));
        cj["model"] = json!(run_model_named("gm_c11",
            &[jrequest("c11.partial.rewrite", ctx.t, ctx.ord, &small.cfg, &small.entries)], &rep.workdir, "pshrink")[0].clone());
        rep.fail("disagreement", None,
            "rewrite_paths differs from Rewrite.rewritePathsJ (theorems C11_partial_* no longer transfer)".into(), cj);
    }
}

/// run one batch of cases on one tree
fn run_batch(rep: &mut Report, ctx: &Ctx, cases: &[Case], tag: &str) {
    std::env::set_current_dir(&ctx.t.cw).unwrap();
    let mut reqs = vec![];
    let mut ireqs = vec![];
    let mut outs = vec![];
    for case in cases {
        let r = run_impl(&case.cfg, &case.entries);
        outs.push(show_recs(&r));
        reqs.push(jrequest("c11.partial.rewrite", ctx.t, ctx.ord, &case.cfg, &case.entries));
        ireqs.push(jrequest("c11.partial.info", ctx.t, ctx.ord, &case.cfg, &case.entries));
        if r.is_err() {
            rep.count("partial.out.panic");
        }
    }
    let model = run_model_named("gm_c11", &reqs, &rep.workdir, &format!("partial{}", tag));
    let info = run_model_named("gm_c11", &ireqs, &rep.workdir, &format!("partialinfo{}", tag));
    for (i, case) in cases.iter().enumerate() {
        let keys: Vec<String> = case.entries.iter().map(|e| e.0.clone()).collect();
        let sp = spec(ctx.ord, &case.cfg, &keys, &case.cfg.ignore);
        // the model's own classification of every key, against the harness's re-statement
        let mut want = vec![format!("needed={}", sp.needed as u8), format!("walkpanic={}", sp.walk_panic as u8)];
        let parts: Vec<&str> = info[i].split(' ').collect();
        let mut interesting = false;
        for (j, lk) in sp.lookups.iter().enumerate() {
            let tag = match lk {
                Lookup::NotTried if !sp.needed => "notneeded".to_string(),
                Lookup::NotTried if sp.is_file[j] => "isfile".to_string(),
                Lookup::NotTried => "noext".to_string(),
                l => l.tag(),
            };
            rep.count(&format!("partial.model.{}", parts.get(j + 2).map(|p| p.split(':').next().unwrap()).unwrap_or("?")));
            interesting |= !matches!(lk, Lookup::NotTried);
            want.push(format!("{}:p{}", tag, hex(sp.mapped[j].as_bytes())));
        }
        rep.count(if sp.needed { "partial.needed" } else { "partial.not_needed" });
        if sp.needed && !keys.iter().any(|k| is_partial(Path::new(k)) && {
            let mut p = Path::new(k);
            if let Some(pd) = &case.cfg.pd { p = p.strip_prefix(pd).unwrap_or(p); }
            !Path::new(case.cfg.sd.as_ref().unwrap()).join(p).exists() }) {
            rep.count("partial.needed_by_nonjava_key_only");
        }
        rep.case(&reqs[i], interesting);
        if i == 0 {
            rep.sample(json!({"case": case_json(ctx, case), "impl": outs[i], "model": model[i], "model_info": info[i]}));
        }
        // a root that is a regular file is modelled but not re-stated in the harness
        if (sp.root_is_dir || !sp.needed) && want.join(" ") != info[i] {
            rep.disagreements_checked += 1;
            let mut cj = case_json(ctx, case);
            cj["model"] = json!(info[i]);
            cj["impl"] = json!(want.join(" "));
            rep.fail("disagreement", None,
                "the model's lookup (needed / candidates / chosen path) differs from the harness's re-statement of lines 256-356".into(), cj);
        }
        check_jcase(rep, ctx, case, &outs[i], &model[i]);
    }
    std::env::set_current_dir("/verif").unwrap();
}

// ---------------------------------------------------------------------------------------------
// std::path::{file_name, extension} against the model

fn ext_ops(rep: &mut Report, rng: &mut Rng) {
    const P: &[&str] = &["a", ".", "..", "/", "java", "kt", "Foo", "x", "名", ".java", "a.", "\\", " "];
    let n = rep.budget(1_500, 10);
    let mut reqs = vec![];
    let mut outs = vec![];
    for _ in 0..n {
        let s: String = (0..rng.below(7)).map(|_| *rng.pick(P)).collect();
        let p = Path::new(&s);
        let so = |o: Option<&std::ffi::OsStr>| match o {
            None => "none".to_string(),
            Some(x) => format!("some:{}", hex(x.to_str().unwrap().as_bytes())),
        };
        let req = if rng.chance(1, 4) {
            let want = s.rsplit(|c| c == '/' || c == '\\').next().unwrap().to_string();
            outs.push(format!("n{}", hex(want.as_bytes())));
            format!("c11.partial.lastseg k{}", hex(s.as_bytes()))
        } else {
            outs.push(format!("{} {} {}", so(p.file_name()), so(p.extension()), is_partial(p) as u8));
            format!("c11.partial.ext p{}", hex(s.as_bytes()))
        };
        rep.case(&req, s.contains('.'));
        rep.count(if is_partial(p) { "partial.ext.java_kt" } else { "partial.ext.other" });
        reqs.push(req);
    }
    let model = run_model_named("gm_c11", &reqs, &rep.workdir, "partialext");
    for i in 0..reqs.len() {
        if outs[i] != model[i] {
            rep.disagreements_checked += 1;
            rep.fail("disagreement", None, "std Path::file_name / extension / rsplit_once differs from the model".into(),
                json!({"op": "c11.partial.extop", "request": reqs[i], "impl": outs[i], "model": model[i]}));
        }
    }
}

// ---------------------------------------------------------------------------------------------
// closed witnesses of Props/C11Partial.lean on the real code

fn plain(sd: &str) -> Cfg {
    Cfg { sd: Some(sd.to_string()), pd: None, mapping: None, ignore: vec![], keep: vec![], ine: false, filter: None }
}

fn rels(r: &Result<Recs, String>) -> Vec<String> {
    match r {
        Ok(v) => {
            let mut x: Vec<String> = v.iter().map(|r| r.1.clone()).collect();
            x.sort();
            x
        }
        Err(_) => vec!["panic".into()],
    }
}

fn witnesses(rep: &mut Report) {
    let base = rep.workdir.join("fs");
    let cov = gen_cov(&mut Rng::new(7), 0);
    let s = |x: &[&str]| -> Vec<String> { x.iter().map(|y| y.to_string()).collect() };
    // (1) C11_partial_ignore_keep_partition_false: a/x/Foo.java, b/y/Foo.java, key x/Foo.java, G = a/**
    {
        let t = materialise(&base, 2900, &s(&["src", "other", "cw", "src/a", "src/a/x", "src/b", "src/b/y"]),
            &s(&["src/a/x/Foo.java", "src/b/y/Foo.java"]));
        let mut ord = vec![];
        walk_order(Path::new(&t.root), &mut ord);
        let ctx = Ctx { t: &t, ord: &ord };
        std::env::set_current_dir(&t.cw).unwrap();
        let entries = vec![("x/Foo.java".to_string(), cov.clone())];
        let c0 = plain(&t.src);
        let mut ci = plain(&t.src);
        ci.ignore = s(&["a/**"]);
        let mut ck = plain(&t.src);
        ck.keep = s(&["a/**"]);
        let (r0, ri, rk) = (run_impl(&c0, &entries), run_impl(&ci, &entries), run_impl(&ck, &entries));
        rep.count("partial.witness.ignore_prunes");
        let shape = (rels(&r0), rels(&ri), rels(&rk));
        let expect = (s(&["a/x/Foo.java"]), s(&["b/y/Foo.java"]), s(&["a/x/Foo.java"]));
        if shape == expect {
            rep.count("partial.witness.ignore_prunes.reproduced_on_real_code");
        } else {
            // the code changed: the model's witness theorem is stale
            rep.fail("disagreement", None,
                format!("witness of C11_partial_ignore_keep_partition_false no longer behaves as proved: {:?}", shape),
                case_json(&ctx, &Case { cfg: ci.clone(), entries: entries.clone() }));
        }
        let cases = vec![Case { cfg: c0, entries: entries.clone() }, Case { cfg: ci, entries: entries.clone() },
            Case { cfg: ck, entries: entries.clone() }];
        run_batch(rep, &ctx, &cases, "w1");
        // (1b) one candidate only: key Foo.java, a/Foo.java, --ignore a/* reports the unresolved path
        let t = materialise(&base, 2901, &s(&["src", "other", "cw", "src/a"]), &s(&["src/a/Foo.java"]));
        let mut ord = vec![];
        walk_order(Path::new(&t.root), &mut ord);
        let ctx = Ctx { t: &t, ord: &ord };
        let entries = vec![("Foo.java".to_string(), cov.clone())];
        let mut ci = plain(&t.src);
        ci.ignore = s(&["a/*"]);
        let shape = (rels(&run_impl(&plain(&t.src), &entries)), rels(&run_impl(&ci, &entries)));
        if shape == (s(&["a/Foo.java"]), s(&["Foo.java"])) {
            rep.count("partial.witness.ignored_file_reported_unresolved");
        }
        run_batch(rep, &ctx, &[Case { cfg: ci, entries }], "w1b");
    }
    // (2) order dependence: a/x/Foo.java and b/x/Foo.java both end with x/Foo.java
    {
        let pairs = [("a", "b"), ("c", "d"), ("m", "n"), ("p1", "p2"), ("lib", "app"), ("u", "v"), ("k", "j"), ("main", "test")];
        let mut firsts = BTreeSet::new();
        for (i, (d1, d2)) in pairs.iter().enumerate() {
            let dirs = s(&["src", "other", "cw", &format!("src/{}", d1), &format!("src/{}/x", d1),
                &format!("src/{}", d2), &format!("src/{}/x", d2)]);
            let files = s(&[&format!("src/{}/x/Foo.java", d1), &format!("src/{}/x/Foo.java", d2)]);
            let t = materialise(&base, 2910 + i as u64, &dirs, &files);
            let mut ord = vec![];
            walk_order(Path::new(&t.root), &mut ord);
            let ctx = Ctx { t: &t, ord: &ord };
            std::env::set_current_dir(&t.cw).unwrap();
            let entries = vec![("x/Foo.java".to_string(), cov.clone())];
            let r = rels(&run_impl(&plain(&t.src), &entries));
            let lex_first = if d1 < d2 { d1 } else { d2 };
            let got_first = r.first().map(|p| p.split('/').next().unwrap().to_string()).unwrap_or_default();
            firsts.insert(got_first == *lex_first);
            rep.count(if got_first == *lex_first { "partial.witness.order.lexicographically_first_wins" }
                else { "partial.witness.order.lexicographically_second_wins" });
            run_batch(rep, &ctx, &[Case { cfg: plain(&t.src), entries }], &format!("w2{}", i));
        }
        if firsts.len() == 2 {
            rep.count("partial.witness.order.both_orders_seen_on_real_directories");
        }
    }
    // (3) a hidden source-dir name disables the lookup altogether
    {
        let t = materialise(&base, 2930, &s(&["src", "other", "cw", "src/.hid", "src/.hid/x", "src/vis", "src/vis/x"]),
            &s(&["src/.hid/x/Foo.java", "src/vis/x/Foo.java"]));
        let mut ord = vec![];
        walk_order(Path::new(&t.root), &mut ord);
        let ctx = Ctx { t: &t, ord: &ord };
        std::env::set_current_dir(&t.cw).unwrap();
        let entries = vec![("Foo.java".to_string(), cov.clone())];
        let rv = rels(&run_impl(&plain(&format!("{}/vis", t.src)), &entries));
        let rh = rels(&run_impl(&plain(&format!("{}/.hid", t.src)), &entries));
        if rv == s(&["x/Foo.java"]) && rh == s(&["Foo.java"]) {
            rep.count("partial.witness.hidden_root_disables_lookup");
        }
        let cases = vec![Case { cfg: plain(&format!("{}/vis", t.src)), entries: entries.clone() },
            Case { cfg: plain(&format!("{}/.hid", t.src)), entries }];
        run_batch(rep, &ctx, &cases, "w3");
    }
    std::env::set_current_dir("/verif").unwrap();
}

// ---------------------------------------------------------------------------------------------

pub fn run(rep: &mut Report) {
    let mut rng = Rng::new(fnv64(&(rep.seed ^ 0xC11_7A).to_le_bytes()));
    witnesses(rep);
    ext_ops(rep, &mut rng);
    let base = rep.workdir.join("fs");
    let n_trees = rep.budget(8, 4);
    let per_tree = rep.budget(110, 3);
    for ti in 0..n_trees {
        let t = build_jtree(&mut rng, &base, 2000 + ti);
        let mut ord = vec![];
        walk_order(Path::new(&t.root), &mut ord);
        let ctx = Ctx { t: &t, ord: &ord };
        let mut stats: BTreeMap<String, u64> = BTreeMap::new();
        let cases: Vec<Case> = (0..per_tree).map(|_| gen_jcase(&mut rng, &t, &mut stats)).collect();
        for (k, v) in stats {
            rep.count_n(&k, v);
        }
        run_batch(rep, &ctx, &cases, &format!("{}", ti));
    }
    rep.rule.push_str("; part Partial: trees with the same Java/Kotlin file name below several top directories \
        (hidden ones, a directory named *.java, hidden files, odd extensions), keys = the last 1-4 components of such \
        a file / a wrong directory / a missing name / non-Java keys existing or missing, spelled plain, prefixed, ./, \
        absolute, trailing separator, backslash, optionally mapped; source dir = tree, tree/, hidden, sub-directory, \
        non-existing, parent, a regular file, none; the real readdir order is read by the harness and handed to the \
        model; non-trivial = some key goes through map_partial_path");
    rep.notes.push("part Partial: symlinks, unreadable directories and non-UTF-8 names are outside the generated domain; \
        a source dir that is a regular file is compared with the model but not re-stated in the harness oracle".into());
}

pub fn replay(rep: &mut Report, case: &Value) {
    match case["op"].as_str().unwrap_or("") {
        "c11.partial.extop" => {
            let req = case["request"].as_str().unwrap().to_string();
            let model = run_model_named("gm_c11", &[req.clone()], &rep.workdir, "replay");
            rep.case(&req, true);
            if model[0] != case["impl"].as_str().unwrap_or("") {
                rep.fail("disagreement", None, "model differs from the recorded std answer".into(), case.clone());
            }
        }
        _ => {
            let base = rep.workdir.join("fs");
            let t = tree_from_json(&base, &case["tree"]);
            let mut ord = vec![];
            walk_order(Path::new(&t.root), &mut ord);
            let ctx = Ctx { t: &t, ord: &ord };
            let c = Case::from_json(case);
            run_batch(rep, &ctx, &[c], "replay");
        }
    }
}
