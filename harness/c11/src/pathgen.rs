//! Shared by the C11 and C12 harnesses (c12 includes this file with `#[path]`): generated source
//! trees, key spellings, configurations, the request encoding of the Lean driver `gm_c11`/`gm_c12`,
//! the call of the real `grcov::rewrite_paths`, and independent oracles.
#![allow(dead_code)]
use corrlib::*;
use grcov::{CovResult, Function};
use serde_json::{json, Value};
use std::collections::{BTreeMap, BTreeSet};
use std::path::{Path, PathBuf};

pub const DIRS: &[&str] = &["foo", "libs", "src", "baz", "d.x", "sp ace", "名", "Inc"];
pub const FILES: &[&str] = &[
    "bar.c", "qux.cpp", "Main.rs", "a.c", "名.c", "top.c", "x y.c", "noext", ".hid.c", "B.h",
];

/// A generated tree `root/{src,other,cw}/…`; every path is canonical.
#[derive(Clone)]
pub struct Tree {
    pub idx: u64,
    pub root: String,
    pub src: String,
    pub other: String,
    pub cw: String,
    /// paths relative to `root`
    pub rel_dirs: Vec<String>,
    pub rel_files: Vec<String>,
    /// symbolic links: (path relative to `root`, target text with `{root}` standing for the root)
    pub rel_links: Vec<(String, String)>,
    /// paths (relative to `root`) that go through a link: `<link>/<file below its target>`,
    /// `<link>/../<entry of the target's physical parent>`, the link itself (file links, dangling
    /// links, loops)
    pub via_links: Vec<String>,
}

impl Tree {
    pub fn files_under(&self, top: &str) -> Vec<String> {
        let p = format!("{}/", top);
        self.rel_files
            .iter()
            .chain(self.via_links.iter())
            .filter_map(|f| f.strip_prefix(&p).map(|s| s.to_string()))
            .collect()
    }
    /// the real regular files only (no path through a link)
    pub fn real_files_under(&self, top: &str) -> Vec<String> {
        let p = format!("{}/", top);
        self.rel_files.iter().filter_map(|f| f.strip_prefix(&p).map(|s| s.to_string())).collect()
    }
    /// the link table as the model wants it: (absolute path of the link, target text)
    pub fn model_links(&self) -> Vec<(String, String)> {
        self.rel_links
            .iter()
            .map(|(p, t)| (format!("{}/{}", self.root, p), t.replace("{root}", &self.root)))
            .collect()
    }
    pub fn dirs_under(&self, top: &str) -> Vec<String> {
        let p = format!("{}/", top);
        self.rel_dirs
            .iter()
            .filter_map(|f| f.strip_prefix(&p).map(|s| s.to_string()))
            .collect()
    }
    /// all directories the model has to know: the ancestors of root, root, and the tree
    pub fn model_dirs(&self) -> Vec<String> {
        let mut v = vec![];
        let mut p = PathBuf::from(&self.root);
        loop {
            let s = p.to_str().unwrap().to_string();
            if s != "/" {
                v.push(s);
            }
            if !p.pop() {
                break;
            }
        }
        for d in &self.rel_dirs {
            v.push(format!("{}/{}", self.root, d));
        }
        v
    }
    pub fn model_files(&self) -> Vec<String> {
        self.rel_files
            .iter()
            .map(|f| format!("{}/{}", self.root, f))
            .collect()
    }
    pub fn to_json(&self) -> Value {
        json!({"idx": self.idx, "dirs": self.rel_dirs, "files": self.rel_files,
               "links": self.rel_links.iter().map(|(p, t)| json!([p, t])).collect::<Vec<_>>()})
    }
}

fn gen_rel_path(rng: &mut Rng, max_depth: u64) -> (Vec<String>, String) {
    let depth = rng.below(max_depth + 1);
    let dirs: Vec<String> = (0..depth).map(|_| rng.pick(DIRS).to_string()).collect();
    (dirs, rng.pick(FILES).to_string())
}

pub fn materialise(base: &Path, idx: u64, rel_dirs: &[String], rel_files: &[String]) -> Tree {
    let root = base.join(format!("t{}", idx));
    let _ = std::fs::remove_dir_all(&root);
    std::fs::create_dir_all(&root).unwrap();
    for d in rel_dirs {
        std::fs::create_dir_all(root.join(d)).unwrap();
    }
    for f in rel_files {
        std::fs::write(root.join(f), "int x;\n").unwrap();
    }
    let root = std::fs::canonicalize(&root).unwrap();
    let root = root.to_str().unwrap().to_string();
    Tree {
        idx,
        src: format!("{}/src", root),
        other: format!("{}/other", root),
        cw: format!("{}/cw", root),
        root,
        rel_dirs: rel_dirs.to_vec(),
        rel_files: rel_files.to_vec(),
        rel_links: vec![],
        via_links: vec![],
    }
}

/// create symbolic links in a materialised tree and record the paths that go through them
pub fn add_links(t: &mut Tree, links: &[(String, String)]) {
    for (p, target) in links {
        let full = Path::new(&t.root).join(p);
        if std::fs::symlink_metadata(&full).is_ok() {
            continue; // the name is taken
        }
        if let Some(parent) = full.parent() {
            if !parent.is_dir() {
                continue;
            }
        }
        let text = target.replace("{root}", &t.root);
        if std::os::unix::fs::symlink(&text, &full).is_err() {
            continue;
        }
        t.rel_links.push((p.clone(), target.clone()));
    }
    fn below(dir: &Path, rel: &str, depth: u32, out: &mut Vec<String>) {
        if depth > 3 {
            return;
        }
        if let Ok(rd) = std::fs::read_dir(dir) {
            let mut names: Vec<String> = rd.flatten().map(|e| e.file_name().to_str().unwrap().to_string()).collect();
            names.sort();
            for n in names {
                let p = dir.join(&n);
                let r = format!("{}/{}", rel, n);
                match std::fs::metadata(&p) {
                    Ok(m) if m.is_dir() => below(&p, &r, depth + 1, out),
                    _ => out.push(r),
                }
            }
        }
    }
    let mut via = vec![];
    for (p, _) in &t.rel_links {
        let full = Path::new(&t.root).join(p);
        match std::fs::metadata(&full) {
            Ok(m) if m.is_dir() => {
                below(&full, p, 0, &mut via);
                // ".." after the link is the physical parent of the TARGET
                if let Ok(rd) = std::fs::read_dir(full.join("..")) {
                    let mut names: Vec<String> = rd.flatten().map(|e| e.file_name().to_str().unwrap().to_string()).collect();
                    names.sort();
                    for n in names.into_iter().take(3) {
                        // only what stays inside the tree (the model knows nothing else)
                        let inside = std::fs::canonicalize(full.join("..").join(&n))
                            .map(|c| c.starts_with(&t.root) && c != Path::new(&t.root))
                            .unwrap_or(false);
                        if inside {
                            via.push(format!("{}/../{}", p, n));
                        }
                    }
                }
            }
            _ => via.push(p.clone()),
        }
    }
    t.via_links = via;
}

/// a link set over the generated tree: directory and file links with relative and absolute
/// targets, a chain, a dangling link, links out of and into the source dir, a loop, and the source
/// dir itself reached through a link
pub fn gen_links(rng: &mut Rng, t: &Tree) -> Vec<(String, String)> {
    let src_dirs = t.dirs_under("src");
    let src_files = t.real_files_under("src");
    let other_dirs = t.dirs_under("other");
    let other_files = t.real_files_under("other");
    let mut l: Vec<(String, String)> = vec![];
    let up = |p: &str| "../".repeat(p.matches('/').count());
    if !src_dirs.is_empty() {
        let d = rng.pick(&src_dirs).clone();
        l.push(("src/inc".into(), d.clone())); // relative, inside the source dir
        l.push(("src/inc2".into(), "inc".into())); // chain
        if rng.chance(1, 2) {
            let d2 = rng.pick(&src_dirs).clone();
            l.push((format!("src/{}/back", d2), format!("{}{}", up(&format!("{}/x", d2)), d))); // relative with ".."
        }
        l.push(("other/in".into(), format!("../src/{}", d))); // from outside into the source dir
        l.push(("cw/lnk".into(), format!("{{root}}/src/{}", d)));
    }
    if !src_files.is_empty() {
        let f = rng.pick(&src_files).clone();
        l.push(("src/compat.c".into(), f.clone())); // file link, relative
        l.push(("src/abs.c".into(), format!("{{root}}/src/{}", f))); // file link, absolute
        l.push(("other/peek.c".into(), format!("../src/{}", f)));
    }
    if !other_dirs.is_empty() {
        l.push(("src/out".into(), format!("../other/{}", rng.pick(&other_dirs)))); // out of the source dir
    } else {
        l.push(("src/out".into(), "../other".into()));
    }
    if !other_files.is_empty() {
        l.push(("src/outf.c".into(), format!("{{root}}/other/{}", rng.pick(&other_files))));
    }
    l.push(("src/dangling".into(), "nowhere/x.c".into()));
    l.push(("src/loop".into(), "loop".into()));
    l.push(("src/ping".into(), "pong".into()));
    l.push(("src/pong".into(), "ping".into()));
    l.push(("srclink".into(), "src".into())); // the source dir through a link
    l.push(("cw/up".into(), "..".into()));
    l
}

pub fn build_tree(rng: &mut Rng, base: &Path, idx: u64) -> Tree {
    let mut dirs: BTreeSet<String> = BTreeSet::new();
    let mut files: BTreeSet<String> = BTreeSet::new();
    for top in ["src", "other", "cw"] {
        dirs.insert(top.to_string());
    }
    let add = |top: &str, ds: &[String], f: &str, dirs: &mut BTreeSet<String>, files: &mut BTreeSet<String>| {
        let mut p = top.to_string();
        for d in ds {
            p = format!("{}/{}", p, d);
            dirs.insert(p.clone());
        }
        files.insert(format!("{}/{}", p, f));
    };
    let n = rng.range(4, 9);
    let mut src_rel: Vec<(Vec<String>, String)> = vec![];
    for _ in 0..n {
        let (ds, f) = gen_rel_path(rng, 3);
        add("src", &ds, &f, &mut dirs, &mut files);
        src_rel.push((ds, f));
    }
    // a few of the same relative paths also exist under the cwd and outside the source dir
    for (ds, f) in &src_rel {
        if rng.chance(1, 3) {
            add("cw", ds, f, &mut dirs, &mut files);
        }
        if rng.chance(1, 4) {
            add("other", ds, f, &mut dirs, &mut files);
        }
    }
    for _ in 0..rng.range(1, 3) {
        let (ds, f) = gen_rel_path(rng, 2);
        add("other", &ds, &f, &mut dirs, &mut files);
        let (ds, f) = gen_rel_path(rng, 2);
        add("cw", &ds, &f, &mut dirs, &mut files);
    }
    // one empty directory
    dirs.insert(format!("src/{}", rng.pick(DIRS)));
    let rel_dirs: Vec<String> = dirs.into_iter().collect();
    let rel_files: Vec<String> = files.into_iter().collect();
    let mut t = materialise(base, idx, &rel_dirs, &rel_files);
    // every second tree has symbolic links
    if idx % 2 == 1 {
        let links = gen_links(rng, &t);
        add_links(&mut t, &links);
    }
    t
}

// ---------------------------------------------------------------------------------------------
// configurations and cases

#[derive(Clone, Debug)]
pub struct Cfg {
    pub sd: Option<String>,
    pub pd: Option<String>,
    pub mapping: Option<Vec<(String, String)>>,
    pub ignore: Vec<String>,
    pub keep: Vec<String>,
    pub ine: bool,
    pub filter: Option<bool>,
}

impl Cfg {
    pub fn neutral(&self) -> Cfg {
        Cfg {
            ignore: vec![],
            keep: vec![],
            ine: false,
            filter: None,
            ..self.clone()
        }
    }
    pub fn to_json(&self) -> Value {
        json!({"sd": self.sd, "pd": self.pd,
               "mapping": self.mapping.as_ref().map(|m| m.iter().map(|(k, v)| json!([k, v])).collect::<Vec<_>>()),
               "ignore": self.ignore, "keep": self.keep, "ine": self.ine, "filter": self.filter})
    }
    pub fn from_json(v: &Value) -> Cfg {
        let strs = |x: &Value| -> Vec<String> {
            x.as_array()
                .map(|a| a.iter().map(|s| s.as_str().unwrap().to_string()).collect())
                .unwrap_or_default()
        };
        Cfg {
            sd: v["sd"].as_str().map(|s| s.to_string()),
            pd: v["pd"].as_str().map(|s| s.to_string()),
            mapping: v["mapping"].as_array().map(|a| {
                a.iter()
                    .map(|kv| {
                        (
                            kv[0].as_str().unwrap().to_string(),
                            kv[1].as_str().unwrap().to_string(),
                        )
                    })
                    .collect()
            }),
            ignore: strs(&v["ignore"]),
            keep: strs(&v["keep"]),
            ine: v["ine"].as_bool().unwrap_or(false),
            filter: v["filter"].as_bool(),
        }
    }
}

#[derive(Clone)]
pub struct Case {
    pub cfg: Cfg,
    pub entries: Vec<(String, CovResult)>,
}

impl Case {
    pub fn to_json(&self, op: &str, t: &Tree) -> Value {
        json!({"op": op, "tree": t.to_json(), "cfg": self.cfg.to_json(),
               "entries": self.entries.iter().map(|(k, c)| json!([k, show_cov(c)])).collect::<Vec<_>>()})
    }
    pub fn from_json(v: &Value) -> Case {
        Case {
            cfg: Cfg::from_json(&v["cfg"]),
            entries: v["entries"]
                .as_array()
                .unwrap()
                .iter()
                .map(|e| {
                    (
                        e[0].as_str().unwrap().to_string(),
                        parse_cov(e[1].as_str().unwrap()),
                    )
                })
                .collect(),
        }
    }
}

pub fn tree_from_json(base: &Path, v: &Value) -> Tree {
    let strs = |x: &Value| -> Vec<String> {
        x.as_array()
            .unwrap()
            .iter()
            .map(|s| s.as_str().unwrap().to_string())
            .collect()
    };
    let mut t = materialise(base, v["idx"].as_u64().unwrap_or(0), &strs(&v["dirs"]), &strs(&v["files"]));
    if let Some(ls) = v["links"].as_array() {
        let links: Vec<(String, String)> = ls
            .iter()
            .map(|l| (l[0].as_str().unwrap().to_string(), l[1].as_str().unwrap().to_string()))
            .collect();
        add_links(&mut t, &links);
    }
    t
}

/// the marker line of entry `i`: count 0, so that it changes neither `is_covered` nor the
/// number of covered lines, and identifies the record in the output
pub const MARK: u32 = 100_000;

pub fn gen_cov(rng: &mut Rng, mark: u32) -> CovResult {
    let mut c = CovResult::default();
    for _ in 0..rng.below(4) {
        c.lines
            .insert(rng.range(1, 6) as u32, *rng.pick(&[0u64, 0, 0, 1, 5, u64::MAX]));
    }
    if rng.chance(1, 4) {
        c.branches
            .insert(rng.range(1, 6) as u32, vec![rng.chance(1, 2), rng.chance(1, 2)]);
    }
    for _ in 0..rng.below(4) {
        let n = *rng.pick(&["top-level", "f", "g", "top-level2"]);
        c.functions.insert(
            n.to_string(),
            Function {
                start: rng.range(1, 6) as u32,
                executed: rng.chance(1, 2),
            },
        );
    }
    c.lines.insert(MARK + mark, 0);
    c
}

fn sep_positions(s: &str) -> Vec<usize> {
    s.bytes()
        .enumerate()
        .filter(|(_, b)| *b == b'/')
        .map(|(i, _)| i)
        .collect()
}

fn toggle_first(s: &str) -> String {
    let mut cs = s.chars();
    match cs.next() {
        Some(c) if c.is_ascii_lowercase() => c.to_ascii_uppercase().to_string() + cs.as_str(),
        Some(c) if c.is_ascii_uppercase() => c.to_ascii_lowercase().to_string() + cs.as_str(),
        _ => s.to_string(),
    }
}

/// a relative path that does not exist anywhere in the tree (names from the pools, so that it
/// cannot meet anything outside the tree either)
fn gen_missing(rng: &mut Rng, t: &Tree) -> String {
    loop {
        let (ds, f) = gen_rel_path(rng, 2);
        let mut p = ds.join("/");
        if !p.is_empty() {
            p.push('/');
        }
        p.push_str(&f);
        if rng.chance(1, 3) {
            p = format!("nx/{}", p);
        }
        if !["src", "other", "cw"]
            .iter()
            .any(|top| t.rel_files.contains(&format!("{}/{}", top, p)))
        {
            return p;
        }
    }
}

pub struct KeyInfo {
    pub key: String,
    pub what: &'static str,
}

/// one key: a target (existing under src / outside / under the cwd / missing / a directory) in a
/// random spelling
pub fn gen_key(rng: &mut Rng, t: &Tree, pd: Option<&str>, stats: &mut BTreeMap<String, u64>) -> String {
    let mut count = |k: &str| *stats.entry(format!("key.{}", k)).or_insert(0) += 1;
    let src_files = t.files_under("src");
    let other_files = t.files_under("other");
    let cw_files = t.files_under("cw");
    let src_dirs = t.dirs_under("src");
    let (base, home): (String, &str) = match rng.below(12) {
        0..=4 => (rng.pick(&src_files).clone(), "src"),
        5 => (rng.pick(&other_files).clone(), "other"),
        6 => (rng.pick(&cw_files).clone(), "cw"),
        7 | 8 => (gen_missing(rng, t), "missing"),
        9 if !src_dirs.is_empty() => (rng.pick(&src_dirs).clone(), "src"),
        _ => (rng.pick(&src_files).clone(), "src"),
    };
    count(&format!("target.{}", home));
    let home_dir = match home {
        "src" => t.src.clone(),
        "other" => t.other.clone(),
        "cw" => t.cw.clone(),
        _ => t.src.clone(),
    };
    let mut k = match rng.below(12) {
        0..=3 => {
            count("form.relative");
            base.clone()
        }
        4 | 5 => {
            count("form.absolute");
            format!("{}/{}", home_dir, base)
        }
        6 if pd.is_some() => {
            count("form.prefixed");
            let p = pd.unwrap();
            if p.ends_with('/') || p.is_empty() {
                format!("{}{}", p, base)
            } else {
                format!("{}/{}", p, base)
            }
        }
        7 => {
            count("form.dot_slash");
            format!("./{}", base)
        }
        8 => {
            count("form.source_tail");
            format!("src/{}", base)
        }
        9 => {
            count("form.outside_relative");
            format!("../{}/{}", if home == "missing" { "other" } else { home }, base)
        }
        10 => {
            count("form.absolute_nonexistent");
            format!("/nonexistent/zz/{}", base)
        }
        _ => {
            count("form.relative");
            base.clone()
        }
    };
    for _ in 0..rng.below(3) {
        let seps = sep_positions(&k);
        match rng.below(9) {
            0 if !seps.is_empty() => {
                count("mut.double_slash");
                let i = *rng.pick(&seps);
                k.insert(i, '/');
            }
            1 | 2 if !seps.is_empty() => {
                count("mut.backslash");
                let i = *rng.pick(&seps);
                k.replace_range(i..i + 1, "\\");
            }
            3 if !seps.is_empty() => {
                count("mut.dot_segment");
                let i = *rng.pick(&seps);
                k.insert_str(i, "/.");
            }
            4 => {
                count("mut.dotdot_segment");
                // `name/../` at a component boundary; the name may or may not exist there
                let name = rng.pick(DIRS);
                let at = if seps.is_empty() || rng.chance(1, 2) {
                    if k.starts_with('/') { 1 } else { 0 }
                } else {
                    *rng.pick(&seps) + 1
                };
                k.insert_str(at.min(k.len()), &format!("{}/../", name));
            }
            5 if rng.chance(1, 3) => {
                count("mut.trailing");
                k.push_str(*rng.pick(&["/", "/.", "//"]));
            }
            6 if rng.chance(1, 2) => {
                count("mut.leading_dotdot");
                let n = rng.range(1, 9);
                k = format!("{}{}", "../".repeat(n as usize), k.trim_start_matches('/'));
            }
            7 if rng.chance(1, 2) => {
                count("mut.case_first");
                k = toggle_first(&k);
            }
            _ => {}
        }
    }
    k
}

pub const GLOBS: &[&str] = &[
    "*", "**", "*.c", "**/*.c", "foo/*", "foo/**", "**/foo/**", "**/bar.c", "libs/?.c", "*/bar.c",
    "**/baz/**", "foo/**/qux.cpp", "f?o/*", "src/*", "**/*.rs", "*.cpp", "", "/**", "**/src/**",
    "foo/bar.c", "*y.c", "**/名.c", "名/**", "*名*", "sp ace/*", "**/.hid.c", "*/*/*", "?*", "libs/**/*",
    "/*", "*/", "**/", "foo**", "**bar.c", "foo/***/bar.c", "a.c", "**/a.c", "Inc/**", "d.x/*", "*.h",
];

pub fn gen_cfg(rng: &mut Rng, t: &Tree, full: bool) -> Cfg {
    let sd = match rng.below(10) {
        0..=5 => Some(t.src.clone()),
        6 => Some("/nonexistent/srcdir".to_string()),
        7 if rng.chance(1, 10) => Some("rel/src".to_string()), // `assert!(p.is_absolute())`
        8 if t.rel_links.iter().any(|(p, _)| p == "srclink") => Some(format!("{}/srclink", t.root)),
        _ => None,
    };
    let pd = match rng.below(12) {
        0 | 1 => sd.clone(), // what main does when --prefix-dir is absent
        2 => Some("/builds/worker/ws".to_string()),
        3 => Some("/builds/worker/ws/".to_string()),
        4 => Some("ws".to_string()),
        5 => Some(t.other.clone()),
        6 if rng.chance(1, 4) => Some("".to_string()),
        7 => Some(t.root.clone()),
        _ => None,
    };
    let mut c = Cfg {
        sd,
        pd,
        mapping: None,
        ignore: vec![],
        keep: vec![],
        ine: false,
        filter: None,
    };
    if full {
        for _ in 0..*rng.pick(&[0u64, 0, 1, 1, 2]) {
            c.ignore.push(rng.pick(GLOBS).to_string());
        }
        for _ in 0..*rng.pick(&[0u64, 0, 0, 1, 2]) {
            c.keep.push(rng.pick(GLOBS).to_string());
        }
        c.ine = rng.chance(1, 3);
        c.filter = *rng.pick(&[None, None, Some(true), Some(false)]);
    }
    c
}

fn lower_first(s: &str) -> String {
    let mut c = s.chars();
    match c.next() {
        Some(f) => f.to_ascii_lowercase().to_string() + c.as_str(),
        None => String::new(),
    }
}
fn upper_first(s: &str) -> String {
    let mut c = s.chars();
    match c.next() {
        Some(f) => f.to_ascii_uppercase().to_string() + c.as_str(),
        None => String::new(),
    }
}

/// keys with distinct strings, each with its own marker line; optionally a path mapping whose
/// keys hit some of them
pub fn gen_case(rng: &mut Rng, t: &Tree, full: bool, stats: &mut BTreeMap<String, u64>) -> Case {
    let mut cfg = gen_cfg(rng, t, full);
    let n = rng.range(1, 6);
    let mut keys: Vec<String> = vec![];
    for _ in 0..n {
        let k = gen_key(rng, t, cfg.pd.as_deref(), stats);
        if !keys.contains(&k) {
            keys.push(k);
        }
    }
    if rng.chance(1, 40) {
        keys.push(String::new());
        keys.dedup();
    }
    if rng.chance(1, 4) {
        let mut m: Vec<(String, String)> = vec![];
        for _ in 0..rng.range(0, 3) {
            let k = if rng.chance(3, 4) {
                rng.pick(&keys).replace('\\', "/")
            } else {
                gen_key(rng, t, None, &mut BTreeMap::new()).replace('\\', "/")
            };
            let k = if rng.chance(1, 2) { lower_first(&k) } else { upper_first(&k) };
            let mut v = gen_key(rng, t, cfg.pd.as_deref(), &mut BTreeMap::new()).replace('\\', "/");
            // Windows-style mapping values: all, some or one separator as a backslash, hidden
            // "." and ".." segments, mixed separators
            match rng.below(8) {
                0 => v = v.replace('/', "\\"),
                1 => {
                    let seps = sep_positions(&v);
                    if !seps.is_empty() {
                        let i = *rng.pick(&seps);
                        v.replace_range(i..i + 1, "\\");
                    }
                }
                2 => v = rng.pick(&["x\\..\\y.c", "x\\..\\..\\y.c", "a\\.\\b.c", "foo\\..\\foo/bar.c", "foo/x\\..\\..\\..\\up.c",
                    "..\\a/../b.c", "a\\\\b.c", "foo\\bar.c\\", "\\abs\\a.c", "libs/..\\foo\\.\\bar.c"]).to_string(),
                3 => {
                    let name = rng.pick(DIRS);
                    v = format!("{}\\..\\{}", name, v.trim_start_matches('/'));
                }
                _ => {}
            }
            if v.contains('\\') {
                *stats.entry("mapping.value_with_backslash".to_string()).or_insert(0) += 1;
            }
            if !m.iter().any(|(k2, _)| *k2 == k) {
                m.push((k, v));
            }
        }
        cfg.mapping = Some(m);
    }
    let entries = keys
        .into_iter()
        .enumerate()
        .map(|(i, k)| (k, gen_cov(rng, i as u32)))
        .collect();
    Case { cfg, entries }
}

// ---------------------------------------------------------------------------------------------
// the real code

pub type Recs = Vec<(String, String, CovResult)>;

pub fn mapping_value(m: &Option<Vec<(String, String)>>) -> Option<Value> {
    m.as_ref().map(|m| {
        let mut o = serde_json::Map::new();
        for (k, v) in m {
            o.insert(k.clone(), Value::String(v.clone()));
        }
        Value::Object(o)
    })
}

/// `grcov::rewrite_paths` on a result map; Err = it panicked
pub fn call_rewrite(cfg: &Cfg, map: grcov::CovResultMap) -> Result<Recs, String> {
    let cfg = cfg.clone();
    guarded(move || {
        let out = grcov::rewrite_paths(
            map,
            mapping_value(&cfg.mapping),
            cfg.sd.as_deref().map(Path::new),
            cfg.pd.as_deref().map(Path::new),
            cfg.ine,
            &cfg.ignore[..],
            &cfg.keep[..],
            cfg.filter,
            grcov::FileFilter::default(),
        );
        out.into_iter()
            .map(|(a, r, c)| {
                (
                    a.to_str().unwrap().to_string(),
                    r.to_str().unwrap().to_string(),
                    c,
                )
            })
            .collect()
    })
}

pub fn run_impl(cfg: &Cfg, entries: &[(String, CovResult)]) -> Result<Recs, String> {
    let mut map = grcov::CovResultMap::default();
    for (k, c) in entries {
        map.insert(k.clone(), c.clone());
    }
    call_rewrite(cfg, map)
}

pub fn show_recs(r: &Result<Recs, String>) -> String {
    match r {
        Err(_) => "panic".to_string(),
        Ok(recs) => {
            let mut v: Vec<String> = recs
                .iter()
                .map(|(a, r, c)| format!("A{}:R{}={}", hex(a.as_bytes()), hex(r.as_bytes()), show_cov(c)))
                .collect();
            v.sort();
            let mut s = String::from("ok");
            for l in v {
                s.push(' ');
                s.push_str(&l);
            }
            s
        }
    }
}

// ---------------------------------------------------------------------------------------------
// requests of the Lean driver

fn opt_arg(tag: char, o: &Option<String>) -> String {
    match o {
        None => format!("{}-", tag),
        Some(s) => format!("{}+{}", tag, hex(s.as_bytes())),
    }
}
fn list_arg(tag: char, elt: char, xs: &[String]) -> String {
    format!(
        "{}{}",
        tag,
        xs.iter()
            .map(|x| format!("{}{}", elt, hex(x.as_bytes())))
            .collect::<Vec<_>>()
            .join(",")
    )
}

pub fn request(op: &str, t: &Tree, cfg: &Cfg, entries: &[(String, CovResult)]) -> String {
    let m = match &cfg.mapping {
        None => "M-".to_string(),
        Some(m) => format!(
            "M+{}",
            m.iter()
                .map(|(k, v)| format!("{}:{}", hex(k.as_bytes()), hex(v.as_bytes())))
                .collect::<Vec<_>>()
                .join(",")
        ),
    };
    let y = format!(
        "Y{}",
        t.model_links()
            .iter()
            .map(|(p, tg)| format!("l{}:{}", hex(p.as_bytes()), hex(tg.as_bytes())))
            .collect::<Vec<_>>()
            .join(",")
    );
    let mut s = format!(
        "{} {} {} {} {} {} E{} F{} W{} {} {} {} |",
        op,
        opt_arg('S', &cfg.sd),
        opt_arg('P', &cfg.pd),
        m,
        list_arg('I', 'g', &cfg.ignore),
        list_arg('K', 'g', &cfg.keep),
        if cfg.ine { 1 } else { 0 },
        match cfg.filter {
            None => "n",
            Some(true) => "t",
            Some(false) => "f",
        },
        hex(t.cw.as_bytes()),
        list_arg('D', 'p', &t.model_dirs()),
        list_arg('X', 'p', &t.model_files()),
        y,
    );
    for (k, c) in entries {
        s.push_str(&format!(" K{}={}", hex(k.as_bytes()), show_cov(c)));
    }
    s
}

// ---------------------------------------------------------------------------------------------
// independent oracles (none of them calls grcov)

/// a reported relative path: '/'-separated, no empty / "." / ".." piece, no backslash; an absolute
/// one is "/" followed by such a path. The empty path and "/" are what a key that denotes the
/// source directory or the root itself is turned into.
pub fn normal_form(rel: &str) -> bool {
    if rel.contains('\\') {
        return false;
    }
    let body = rel.strip_prefix('/').unwrap_or(rel);
    if body.is_empty() {
        return true;
    }
    body.split('/').all(|p| !p.is_empty() && p != "." && p != "..")
}

/// lexical normalisation, written independently: None when a ".." pops past the start
pub fn spec_normalize(p: &str) -> Option<String> {
    let abs = p.starts_with('/');
    let mut st: Vec<&str> = vec![];
    for seg in p.split('/') {
        match seg {
            "" | "." => {}
            ".." => {
                st.pop()?;
            }
            s => st.push(s),
        }
    }
    Some(format!("{}{}", if abs { "/" } else { "" }, st.join("/")))
}

/// the path `rewrite_paths` works on after the separator replacement of the key and the path
/// mapping (keys `to_lowercase_first` / `to_uppercase_first`, ASCII in the generated domain)
pub fn spec_mapped(cfg: &Cfg, key: &str) -> String {
    let path = key.replace('\\', "/");
    if let Some(m) = &cfg.mapping {
        let get = |x: &str| m.iter().find(|(k2, _)| k2 == x).map(|(_, v)| v.clone());
        if let Some(v) = get(&lower_first(&path)).or_else(|| get(&upper_first(&path))) {
            return v;
        }
    }
    path
}

/// normalise, turn backslashes into '/', normalise again (fix 568afd2); None = dropped
pub fn spec_final(p: &str) -> Option<String> {
    spec_normalize(&spec_normalize(p)?.replace('\\', "/"))
}

/// escapes iff at some prefix of the segment list there are more ".." than names
pub fn spec_escapes(p: &str) -> bool {
    let mut depth: i64 = 0;
    for seg in p.split('/') {
        match seg {
            "" | "." => {}
            ".." => {
                depth -= 1;
                if depth < 0 {
                    return true;
                }
            }
            _ => depth += 1,
        }
    }
    false
}

/// filter.rs, restated: some line hit, and (at most one function, or a non-top-level one executed)
pub fn spec_covered(c: &CovResult) -> bool {
    let hit = c.lines.values().any(|&n| n > 0);
    let named = c
        .functions
        .iter()
        .filter(|(n, f)| f.executed && n.as_str() != "top-level")
        .count();
    hit && (c.functions.len() < 2 || named > 0)
}

pub fn glob_set(gs: &[String]) -> globset::GlobSet {
    let mut b = globset::GlobSetBuilder::new();
    for g in gs {
        b.add(globset::Glob::new(g).unwrap());
    }
    b.build().unwrap()
}

pub fn marker(c: &CovResult) -> u32 {
    c.lines.keys().filter(|&&l| l >= MARK).next().copied().unwrap_or(0)
}

fn multiset(r: &Recs) -> Vec<String> {
    let mut v: Vec<String> = r
        .iter()
        .map(|(a, r, c)| format!("{} {} {}", hex(a.as_bytes()), hex(r.as_bytes()), show_cov(c)))
        .collect();
    v.sort();
    v
}

/// The C11 property, evaluated on the implementation alone for one case. Returns the first
/// failing clause and the name of the finding it belongs to (none is named here any more: the
/// former C11-mapping-backslash is fixed by 568afd2 and its witnesses are corpus cases).
/// finding: a path component that contains a backslash (a Windows-style mapping value on Unix)
/// keeps it in the absolute path and loses it in the relative one
pub const BACKSLASH_NAME: &str = "C11-backslash-name-abs-rel-differ";

/// finding: `nx/../link` — canonicalisation fails on the spelled path, the lexical normal form is a
/// symbolic link, and the file is reported under the link's name instead of its physical path
pub const LINK_NOT_CANONICAL: &str = "C11-link-behind-missing-dir-not-canonical";

pub fn c11_oracle(case: &Case) -> Option<(String, Option<&'static str>)> {
    let all = c11_oracle_all(case);
    all.iter()
        .find(|(_, f)| f.is_none())
        .or_else(|| all.first())
        .cloned()
}

pub fn c11_oracle_all(case: &Case) -> Vec<(String, Option<&'static str>)> {
    let mut fails: Vec<(String, Option<&'static str>)> = vec![];
    c11_oracle_inner(case, &mut fails);
    fails
}

fn c11_oracle_inner(case: &Case, fails: &mut Vec<(String, Option<&'static str>)>) {
    let cfg = &case.cfg;
    let reported = match run_impl(cfg, &case.entries) {
        Ok(r) => r,
        Err(_) => return, // panics are compared with the model, not judged here
    };
    let neutral = match run_impl(&cfg.neutral(), &case.entries) {
        Ok(r) => r,
        Err(p) => { fails.push((format!("the unfiltered run panics but the filtered one does not: {}", p), None)); return; }
    };
    // normal form: '/'-separated, no empty / "." / ".." piece and no backslash, whatever the
    // spelling of the key and of the mapping values
    for (_, rel, _) in &neutral {
        if !normal_form(rel) {
            fails.push((format!("reported path {:?} is not in normal form", rel), None));
        }
    }
    // backslashed inputs: without source and prefix dir the reported path is the key (or its
    // mapping value) normalised, its backslashes turned into '/', and normalised again; a path
    // that escapes through ".." at either stage is dropped
    if cfg.sd.is_none() && cfg.pd.is_none() {
        for (i, (k, _)) in case.entries.iter().enumerate() {
            if k.is_empty() {
                continue;
            }
            let want = spec_final(&spec_mapped(cfg, k));
            let _ = i;
            let got = neutral
                .iter()
                .find(|r| marker(&r.2) == marker(&case.entries[i].1))
                .map(|r| r.1.clone());
            if want != got {
                fails.push((format!("key {:?}: reported as {:?}, the two-stage normal form is {:?}", k, got, want), None));
            }
        }
    }
    // data pass-through: every record carries exactly the data of the entry with its marker
    // (entries are identified by their marker line, not by position: shrinking removes entries)
    for (_, _, c) in &neutral {
        if !case.entries.iter().any(|e| marker(&e.1) == marker(c) && e.1 == *c) {
            fails.push(("coverage data of a retained file was changed".into(), None));
        }
    }
    let mut seen = BTreeSet::new();
    for (_, _, c) in &neutral {
        if !seen.insert(marker(c)) {
            fails.push(("one input record reported twice".into(), None));
        }
    }
    // selection iff
    let ig = glob_set(&cfg.ignore);
    let kp = glob_set(&cfg.keep);
    let want: Recs = neutral
        .iter()
        .filter(|(abs, rel, c)| {
            !ig.is_match(rel)
                && (cfg.keep.is_empty() || kp.is_match(rel))
                && (!cfg.ine || Path::new(abs).exists())
                && match cfg.filter {
                    None => true,
                    Some(true) => spec_covered(c),
                    Some(false) => !spec_covered(c),
                }
        })
        .cloned()
        .collect();
    if multiset(&want) != multiset(&reported) {
        fails.push((
            "selection: reported set differs from {unfiltered records : no ignore glob, some keep glob, exists, filter}".into(),
            None,
        ));
    }
    // partitions of the unfiltered report
    for g in [&cfg.ignore, &cfg.keep] {
        if g.is_empty() {
            continue;
        }
        let mut ci = cfg.neutral();
        ci.ignore = g.clone();
        let mut ck = cfg.neutral();
        ck.keep = g.clone();
        if let (Ok(a), Ok(b)) = (run_impl(&ci, &case.entries), run_impl(&ck, &case.entries)) {
            let mut u = a.clone();
            u.extend(b.iter().cloned());
            let disjoint = a.iter().all(|x| !b.iter().any(|y| marker(&x.2) == marker(&y.2)));
            if multiset(&u) != multiset(&neutral) || !disjoint {
                fails.push(("--ignore G and --keep-only G do not partition the unfiltered report".into(), None));
            }
        }
    }
    {
        let mut ct = cfg.neutral();
        ct.filter = Some(true);
        let mut cf = cfg.neutral();
        cf.filter = Some(false);
        if let (Ok(a), Ok(b)) = (run_impl(&ct, &case.entries), run_impl(&cf, &case.entries)) {
            let mut u = a.clone();
            u.extend(b.iter().cloned());
            let disjoint = a.iter().all(|x| !b.iter().any(|y| marker(&x.2) == marker(&y.2)));
            if multiset(&u) != multiset(&neutral) || !disjoint {
                fails.push(("--filter covered and --filter uncovered do not partition the unfiltered report".into(), None));
            }
            if a.iter().any(|x| !spec_covered(&x.2)) || b.iter().any(|x| spec_covered(&x.2)) {
                fails.push(("--filter covered/uncovered disagrees with the is_covered rule".into(), None));
            }
        }
    }
    // relative to the source directory whenever the (existing) file lies under it
    if let Some(sd) = &cfg.sd {
        if let Ok(csd) = std::fs::canonicalize(sd) {
            let csd = csd.to_str().unwrap().to_string();
            // "lies under" is read physically (the canonical file below the canonical source dir);
            // `main` always passes a canonical source dir — a source dir reached through a symbolic
            // link is library-only and is reported differently (C11_symlink_source_dir_link_witness)
            let sd_canonical = spec_normalize(sd).as_deref() == Some(csd.as_str());
            for (abs, rel, _) in &neutral {
                let p = Path::new(abs);
                if let Ok(c) = std::fs::canonicalize(p) {
                    let c = c.to_str().unwrap();
                    if let Some(tail) = c.strip_prefix(&format!("{}/", csd)) {
                        if rel != tail && sd_canonical {
                            // named matcher: the reported absolute path is not canonical — it goes
                            // through a symbolic link, which happens when `canonicalize` failed on
                            // the path as spelled (a missing directory before a "..") and the
                            // lexically normalised path exists
                            let finding = if c != abs { Some(LINK_NOT_CANONICAL) } else { None };
                            fails.push((format!("file {:?} lies under the source dir but is reported as {:?}", c, rel), finding));
                        }
                    }
                }
                if abs.starts_with(&format!("{}/", sd)) && spec_normalize(sd).as_deref() == Some(sd.as_str()) && *abs != format!("{}/{}", sd, rel) {
                    // named matcher: the absolute path has a component that contains a backslash
                    // (it keeps it, the relative path turns it into a separator)
                    let finding = if abs.contains('\\') { Some(BACKSLASH_NAME) } else { None };
                    fails.push((format!("abs {:?} is under the source dir but is not source_dir/rel ({:?})", abs, rel), finding));
                }
            }
        }
    }
    // prefix removed (no source dir, no mapping: rel is the normalised key without the prefix)
    if cfg.sd.is_none() && cfg.mapping.is_none() {
        if let Some(pd) = &cfg.pd {
            let pn = spec_normalize(pd);
            for (_, rel, c) in &neutral {
                let Some(entry) = case.entries.iter().find(|e| marker(&e.1) == marker(c)) else {
                    continue; // already reported: the record carries no input's data
                };
                let key = entry.0.replace('\\', "/");
                if let (Some(pn), false) = (&pn, pd.contains("..")) {
                    // the key lies lexically under the prefix when its leading segments (empty and
                    // "." ones skipped) are those of the prefix
                    if let Some(tail) = lexical_strip(&key, pd) {
                        let want = spec_normalize(&tail);
                        if !pn.is_empty() && want.as_deref() != Some(rel.as_str()) {
                            fails.push((format!("key {:?} under prefix {:?} is reported as {:?}", key, pd, rel), None));
                        }
                    }
                }
            }
        }
    }
}

/// independent "strip the prefix's components from the front" on segment lists; None when the key
/// is not under the prefix
pub fn lexical_strip(key: &str, pre: &str) -> Option<String> {
    fn comps(p: &str) -> Vec<String> {
        let mut v: Vec<String> = vec![];
        if p.starts_with('/') {
            v.push("/".into());
        }
        for (i, s) in p.split('/').enumerate() {
            if s.is_empty() || (s == "." && !(i == 0 && !p.starts_with('/'))) {
                continue;
            }
            v.push(s.to_string());
        }
        v
    }
    let k = comps(key);
    let p = comps(pre);
    if p.is_empty() || k.len() < p.len() || k[..p.len()] != p[..] {
        return None;
    }
    Some(k[p.len()..].join("/"))
}
