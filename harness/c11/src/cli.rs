//! C11, part Cli — the path options AS `main` WIRES THEM, on the hooked binary (mutation miss M03:
//! `main.rs` "the prefix directory defaults to the source directory" was only simulated in-process
//! by `gen_cfg`). Every case is one real run
//!
//!     grcov in.info -t lcov --branch --no-demangle -s <src> [--ignore G] [--keep-only G]
//!           [--ignore-not-existing] [--filter covered|uncovered]          — and NO `-p`
//!
//! over a tracefile with one section per key, the keys drawn from pathgen's key classes (relative,
//! absolute, prefixed with the source dir – which is what the default prefix strips –, `./`,
//! source-dir tail, `../`, missing, absolute elsewhere; `//`, backslash, `/./`, `name/../`, trailing
//! separators, leading `../`), on link-free generated trees, cwd = `<tree>/cw`.
//!
//! * model: the options go through `MainGlue.plan` (driver op `main.plan`: source dir
//!   canonicalised, prefix := that canonical source dir because `-p` is absent) and the plan's
//!   rewrite arguments into `Cli.runJ` (`cli.runj`): the reports are compared section by section;
//! * oracle: the report of the binary must be, record for record, what the LIBRARY gives for the
//!   documented wiring – `rewrite_paths` on the keys as `add_results` files them, with
//!   `prefix_dir = Some(canonical source dir)` – and that library case is judged by the C11 oracle
//!   (`c11_oracle`: normal form, selection, partitions, relative to the source dir, …).
use crate::partial::walk_order;
use crate::pathgen::*;
use corrlib::pipe::{run_grcov, RunCfg};
use corrlib::*;
use grcov::CovResult;
use serde_json::json;
use std::collections::BTreeMap;
use std::path::Path;
use std::time::Duration;

fn list_arg(tag: char, elt: char, xs: &[String]) -> String {
    format!("{}{}", tag, xs.iter().map(|x| format!("{}{}", elt, hex(x.as_bytes()))).collect::<Vec<_>>().join(","))
}

/// the sections of an lcov report as (path, section text), in order
fn sections(text: &str) -> Vec<(String, String)> {
    let mut out = vec![];
    let mut cur: Option<(String, Vec<String>)> = None;
    for line in text.lines() {
        if let Some(sf) = line.strip_prefix("SF:") {
            cur = Some((sf.to_string(), vec![line.to_string()]));
        } else if line == "end_of_record" {
            if let Some((k, v)) = cur.take() {
                out.push((k, v.join("\n")));
            }
        } else if let Some(c) = cur.as_mut() {
            c.1.push(line.to_string());
        }
    }
    out
}

fn sorted_sections(text: &str) -> Vec<String> {
    let mut v: Vec<String> = sections(text).into_iter().map(|x| x.1).collect();
    v.sort();
    v
}

/// (path, DA lines) of every section: what identifies a record (its marker line) and its data
fn rel_lines(text: &str) -> Vec<(String, Vec<String>)> {
    let mut v: Vec<(String, Vec<String>)> = sections(text)
        .into_iter()
        .map(|(k, s)| (k, s.lines().filter(|l| l.starts_with("DA:")).map(|l| l.to_string()).collect()))
        .collect();
    v.sort();
    v
}

pub fn run(rep: &mut Report) {
    rep.rule.push_str(" | cli: the hooked binary with -s and NO -p on pathgen's key classes (one tracefile section per key), \
        link-free trees, optional globs / --ignore-not-existing / --filter; compared with Cli.runJ under the rewrite \
        arguments MainGlue.plan derives (prefix := canonical source dir) and with the library under that wiring; \
        non-trivial = some key is absolute, prefixed, or contains a `..` / `//` / backslash");
    let mut rng = Rng::new(fnv64(&(rep.seed ^ 0xC11_C11).to_le_bytes()));
    let base = rep.workdir.join("fs");
    let n_trees = rep.budget(3, 3);
    let per_tree = rep.budget(60, 4);
    let mut plan_reqs: Vec<String> = vec![];
    struct Pending {
        t: Tree,
        sd_arg: String,
        cfg: Cfg,
        keys: Vec<String>,
        tracefile: Vec<u8>,
        stdout: String,
        opts: Vec<String>,
    }
    let mut pend: Vec<Pending> = vec![];
    for ti in 0..n_trees {
        let t = build_tree(&mut rng, &base, 5000 + 2 * ti); // even index: no symbolic links
        let mut stats: BTreeMap<String, u64> = BTreeMap::new();
        for ci in 0..per_tree {
            let dir = Path::new(&t.cw).to_path_buf();
            // the source dir as typed: canonical, with a trailing slash, through `..`, or relative to the cwd
            let sd_arg = match rng.below(6) {
                0 => format!("{}/", t.src),
                1 => format!("{}/../src", t.src),
                2 => "../src".to_string(),
                _ => t.src.clone(),
            };
            let mut cfg = gen_cfg(&mut rng, &t, true);
            cfg.sd = Some(t.src.clone());
            cfg.pd = Some(t.src.clone()); // what `main` must pass when -p is absent
            cfg.mapping = None;
            let mut keys: Vec<String> = vec![];
            for _ in 0..rng.range(1, 6) {
                let k = gen_key(&mut rng, &t, Some(&t.src), &mut stats);
                if !k.is_empty() && !k.contains('\n') && !k.contains('\r') && !keys.contains(&k) {
                    keys.push(k);
                }
            }
            // the two shapes of the mutation report: SRC/../gone.c and SRC/src/gen.c
            if rng.chance(1, 4) {
                keys.push(format!("{}/../gone{}.c", t.src, ci));
                keys.push(format!("{}/src/gen{}.c", t.src, ci));
                rep.count("cli.keys.mutation_report_shapes");
            }
            if keys.is_empty() {
                continue;
            }
            let mut tf = String::from("TN:\n");
            for (i, k) in keys.iter().enumerate() {
                tf.push_str(&format!("SF:{}\nDA:1,{}\nDA:{},0\nend_of_record\n", k, rng.pick(&[0u64, 0, 3]), MARK as usize + i));
            }
            let name = format!("cli_in_{}_{}.info", ti, ci);
            std::fs::write(dir.join(&name), &tf).unwrap();
            let mut opts: Vec<String> = vec!["-t".into(), "lcov".into(), "--branch".into(), "--no-demangle".into(), "-s".into(), sd_arg.clone()];
            for g in &cfg.ignore {
                opts.extend(["--ignore".into(), g.clone()]);
            }
            for g in &cfg.keep {
                opts.extend(["--keep-only".into(), g.clone()]);
            }
            if cfg.ine {
                opts.push("--ignore-not-existing".into());
            }
            match cfg.filter {
                Some(true) => opts.extend(["--filter".into(), "covered".into()]),
                Some(false) => opts.extend(["--filter".into(), "uncovered".into()]),
                None => {}
            }
            let out = run_grcov(&RunCfg { dir: &dir, args: vec![name.clone()], threads: 1, perturb: None, fault: None,
                limit: Duration::from_secs(60), extra: opts.clone() });
            let _ = std::fs::remove_file(dir.join(&name));
            let _ = std::fs::remove_file(dir.join("events.log"));
            let nontrivial = keys.iter().any(|k| k.starts_with('/') || k.contains("..") || k.contains("//") || k.contains('\\'));
            rep.case(&format!("cli {} {:?} {:?}", t.idx, opts, keys), nontrivial);
            rep.count(&format!("cli.source_dir_as_typed={}", if sd_arg == t.src { "canonical" } else if sd_arg.starts_with('/') { "absolute_respelled" } else { "relative" }));
            if out.exit != Some(0) {
                rep.fail("oracle", None, format!("cli: the run exited with {:?}: {}", out.exit, out.stderr.lines().last().unwrap_or("")),
                    json!({"op": "c11.cli", "opts": opts, "keys": keys, "tree": t.to_json()}));
                continue;
            }
            // MainGlue.plan: -s as typed, its canonical form from the file system, no -p
            let mut toks = vec![
                "cpus=2".to_string(),
                format!("scanon={}", hex(std::fs::canonicalize(dir.join(&sd_arg)).unwrap().to_str().unwrap().as_bytes())),
                format!("t={}", hex(b"lcov")),
                format!("in={}", hex(name.as_bytes())),
                format!("s={}", hex(sd_arg.as_bytes())),
                "br=1".into(),
                "nodem=1".into(),
                "th=1".into(),
            ];
            if !cfg.ignore.is_empty() {
                toks.push(format!("ign={}", cfg.ignore.iter().map(|g| hex(g.as_bytes())).collect::<Vec<_>>().join(",")));
            }
            if !cfg.keep.is_empty() {
                toks.push(format!("keep={}", cfg.keep.iter().map(|g| hex(g.as_bytes())).collect::<Vec<_>>().join(",")));
            }
            if cfg.ine {
                toks.push("ine=1".into());
            }
            match cfg.filter {
                Some(true) => toks.push(format!("f={}", hex(b"covered"))),
                Some(false) => toks.push(format!("f={}", hex(b"uncovered"))),
                None => {}
            }
            plan_reqs.push(format!("main.plan {}", toks.join(" ")));
            pend.push(Pending { t: t.clone(), sd_arg, cfg, keys, tracefile: tf.into_bytes(), stdout: out.stdout, opts });
        }
        for (k, v) in stats {
            rep.count_n(&format!("cli.{}", k), v);
        }
    }
    // 1. the plans
    let plans = run_model(&plan_reqs, &rep.workdir, "c11cliplan");
    let mut run_reqs = vec![];
    let mut idx = vec![];
    for (i, p) in pend.iter().enumerate() {
        let case = json!({"op": "c11.cli", "opts": p.opts, "keys": p.keys, "tree": p.t.to_json(), "source_dir_as_typed": p.sd_arg});
        let rw = plans[i].split(' ').find_map(|t| t.strip_prefix("rw="));
        let Some(rw) = rw else {
            rep.fail("disagreement", None, format!("cli: MainGlue.plan does not plan a run for these options: {}", &plans[i][..plans[i].len().min(80)]), case);
            continue;
        };
        let f: Vec<&str> = rw.split('|').collect();
        let (sd, pd) = (String::from_utf8_lossy(&unhex(f[0])).to_string(), f.get(1).map(|x| if *x == "-" { None } else { Some(String::from_utf8_lossy(&unhex(x)).to_string()) }).unwrap_or(None));
        if sd != p.t.src || pd.as_deref() != Some(p.t.src.as_str()) {
            rep.fail("disagreement", None, format!("cli: MainGlue.plan gives source dir {:?} and prefix {:?} for -s {:?} without -p (expected the canonical source dir twice)", sd, pd, p.sd_arg), case);
            continue;
        }
        rep.count("cli.plan.prefix_is_canonical_source_dir");
        let mut ord = vec![];
        walk_order(Path::new(&sd), &mut ord);
        let req = format!(
            "cli.runj {} B1 S+{} P+{} M- {} {} E{} F{} W{} {} {} | i{}",
            list_arg('O', 'p', &ord), hex(sd.as_bytes()), hex(pd.as_ref().unwrap().as_bytes()),
            list_arg('I', 'g', &p.cfg.ignore), list_arg('K', 'g', &p.cfg.keep), if p.cfg.ine { 1 } else { 0 },
            match p.cfg.filter { None => "n", Some(true) => "t", Some(false) => "f" },
            hex(p.t.cw.as_bytes()), list_arg('D', 'p', &p.t.model_dirs()), list_arg('X', 'p', &p.t.model_files()), hex(&p.tracefile));
        run_reqs.push(req);
        idx.push(i);
    }
    // 2. the runs
    let answers = run_model(&run_reqs, &rep.workdir, "c11clirun");
    for (j, &i) in idx.iter().enumerate() {
        let p = &pend[i];
        let mut case = json!({"op": "c11.cli", "opts": p.opts, "keys": p.keys, "tree": p.t.to_json(), "source_dir_as_typed": p.sd_arg,
            "real": p.stdout});
        // oracle: the library under the documented wiring, keys as add_results files them
        std::env::set_current_dir(&p.t.cw).unwrap();
        let mut entries: Vec<(String, CovResult)> = vec![];
        let mut collide = false;
        for (n, k) in p.keys.iter().enumerate() {
            let filed = std::fs::canonicalize(Path::new(&p.t.src).join(k)).ok().and_then(|c| c.to_str().map(|s| s.to_string())).unwrap_or_else(|| k.clone());
            let sec = sections(&String::from_utf8_lossy(&p.tracefile)).into_iter().nth(n).unwrap();
            let mut c = CovResult::default();
            for l in sec.1.lines().filter_map(|l| l.strip_prefix("DA:")) {
                let (a, b) = l.split_once(',').unwrap();
                c.lines.insert(a.parse().unwrap(), b.parse().unwrap());
            }
            if entries.iter().any(|e| e.0 == filed) {
                collide = true;
            }
            entries.push((filed, c));
        }
        if collide {
            rep.count("cli.oracle.skipped_two_keys_filed_under_one");
        } else {
            let lib_case = Case { cfg: p.cfg.clone(), entries };
            match run_impl(&lib_case.cfg, &lib_case.entries) {
                Err(_) => rep.count("cli.oracle.library_panics"),
                Ok(recs) => {
                    let mut want: Vec<(String, Vec<String>)> = recs.iter()
                        .map(|(_, rel, c)| (rel.clone(), c.lines.iter().map(|(l, n)| format!("DA:{},{}", l, n)).collect()))
                        .collect();
                    want.sort();
                    rep.count("cli.oracle.binary_vs_library_wiring");
                    if want != rel_lines(&p.stdout) {
                        case["library"] = json!(want);
                        rep.fail("oracle", None,
                            "cli: the report of `grcov -s SRC` (no -p) is not what rewrite_paths gives with prefix_dir = canonical source dir on the keys add_results files (path options as main must wire them)".into(),
                            case.clone());
                        continue;
                    }
                    if let Some((what, finding)) = c11_oracle(&lib_case) {
                        rep.fail("oracle", finding, format!("cli: {}", what), lib_case.to_json("rewrite", &p.t));
                    }
                }
            }
        }
        // model tie
        match answers[j].strip_prefix("ok") {
            Some(h) => {
                let model_text = String::from_utf8_lossy(&unhex(h.trim())).to_string();
                if sorted_sections(&model_text) != sorted_sections(&p.stdout) {
                    rep.disagreements_checked += 1;
                    case["model"] = json!(model_text);
                    rep.fail("disagreement", None,
                        "cli: `grcov -s SRC` (no -p) differs from Cli.runJ under the rewrite arguments of MainGlue.plan (prefix := canonical source dir)".into(), case);
                }
            }
            None => {
                rep.disagreements_checked += 1;
                case["model"] = json!(answers[j]);
                rep.fail("disagreement", None, "cli: the model does not produce a report where the binary does".into(), case);
            }
        }
    }
    std::env::set_current_dir("/verif").unwrap();
}
