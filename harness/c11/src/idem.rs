//! C05 part `Rewrite`, run inside the C11 harness — the rewrite side of the lcov fixed point: the
//! REAL `rewrite_paths` applied twice (the second time to the reported relative paths with their
//! data, same options, no path mapping), tied to `Rewrite.rewriteTwice` (driver op
//! `c11.idem.twice`, Props/C05Rewrite.lean) and judged by the oracle "the second report has the
//! same relative paths with the same data as the first".
use crate::pathgen::*;
use corrlib::*;
use grcov::CovResult;
use serde_json::{json, Value};
use std::collections::{BTreeMap, BTreeSet};
use std::path::Path;

#[path = "../../c05/src/restrip.rs"]
mod restrip;

fn second_entries(r: &Recs) -> Vec<(String, CovResult)> {
    r.iter().map(|(_, rel, c)| (rel.clone(), c.clone())).collect()
}

fn rel_cov(r: &Recs) -> Vec<(String, String)> {
    let mut v: Vec<(String, String)> = r.iter().map(|(_, rel, c)| (rel.clone(), show_cov(c))).collect();
    v.sort();
    v
}

/// the outcome of one case on the implementation
struct Twice {
    first: Result<Recs, String>,
    /// None: not run (the first run panicked, or two records share a path: C12)
    second: Option<Result<Recs, String>>,
}

fn run_twice(case: &Case) -> Twice {
    let first = run_impl(&case.cfg, &case.entries);
    let second = match &first {
        Ok(r) => {
            let paths: BTreeSet<&String> = r.iter().map(|x| &x.1).collect();
            if paths.len() != r.len() { None } else { Some(run_impl(&case.cfg, &second_entries(r))) }
        }
        Err(_) => None,
    };
    Twice { first, second }
}

/// The oracle and the two named matchers. A record is identified by its marker line.
fn idem_oracle(case: &Case) -> Option<(String, Option<&'static str>)> {
    let tw = run_twice(case);
    let (Ok(r1), Some(second)) = (&tw.first, &tw.second) else { return None };
    let r2 = match second {
        Ok(r) => r,
        Err(p) => return Some((format!("re-importing the report panics: {}", p), None)),
    };
    if rel_cov(r1) == rel_cov(r2) {
        return None;
    }
    let cfg = &case.cfg;
    let mut named: Option<&'static str> = None;
    for (_, rel1, c) in r1 {
        let rel2 = r2.iter().find(|x| marker(&x.2) == marker(c)).map(|x| x.1.clone());
        if rel2.as_deref() == Some(rel1.as_str()) && r2.iter().any(|x| x.2 == *c) {
            continue;
        }
        // the exact matchers shared with harness/c05 (restrip.rs): the record reappears under one
        // of the images of its path (prefix re-stripped and/or source-dir tail dropped, composed
        // in the order of the code), or that image is withheld by the second run's own globs /
        // --ignore-not-existing; the data is unchanged
        let rc = restrip::RestripCfg { sd: cfg.sd.as_deref(), pd: cfg.pd.as_deref(), ignore: &cfg.ignore, keep: &cfg.keep,
            ine: cfg.ine, cli: false };
        let data_same = rel2.is_none() || r2.iter().any(|x| marker(&x.2) == marker(c) && x.2 == *c);
        let f: Option<&'static str> = if !data_same { None } else {
            restrip::images(rel1, &rc).into_iter()
                .find(|(_, img)| rel2.as_ref() == Some(img) || (rel2.is_none() && restrip::dropped(img, &rc)))
                .map(|(ids, _)| ids[0])
        };
        match f {
            None => {
                return Some((format!("re-import: {:?} is reported as {:?} the second time", rel1, rel2), None));
            }
            Some(_) if named.is_none() => named = f,
            _ => {}
        }
    }
    Some((format!("re-importing the report changes it: {:?} then {:?}", rel_cov(r1).iter().map(|x| &x.0).collect::<Vec<_>>(),
        rel_cov(r2).iter().map(|x| &x.0).collect::<Vec<_>>()), named))
}

/// The hypotheses of `C05_rewrite_idempotent_sharp` (Props/C05Rewrite.lean), restated on the first
/// report with `std::path` only: no mapping, `--ignore-not-existing` off, the source dir absent or
/// clean and absolute, every reported path non-empty and
/// * `hrel`   the prefix dir is not a component-wise prefix of it,
/// * `hguess` if it is relative and there is a source dir `S`: `S/path` is a regular file, or no
///            non-empty leading part of the path is a tail of `S`,
/// * `habs`   if it is absolute, it is not below `S`.
/// (The tree must be link-free and the cwd clean: the caller's trees are.)
fn sharp_guards(cfg: &Cfg, r1: &Recs) -> bool {
    if cfg.mapping.is_some() || cfg.ine {
        return false;
    }
    if let Some(sd) = &cfg.sd {
        if !sd.starts_with('/') || spec_normalize(sd).as_deref() != Some(sd.as_str()) {
            return false;
        }
    }
    r1.iter().all(|(_, rel, _)| {
        let p = Path::new(rel);
        let hne = !rel.is_empty();
        let hrel = match &cfg.pd {
            None => true,
            Some(pd) => match p.strip_prefix(pd) {
                Ok(t) => t == p,
                Err(_) => true,
            },
        };
        let (hguess, habs) = match &cfg.sd {
            None => (true, true),
            Some(sd) => {
                let s = Path::new(sd);
                if p.is_relative() {
                    (s.join(p).is_file() || !p.ancestors().any(|a| !a.as_os_str().is_empty() && s.ends_with(a)), true)
                } else {
                    (true, !p.starts_with(s))
                }
            }
        };
        hne && hrel && hguess && habs
    })
}

fn shrink_entries(case: &Case, bad: &dyn Fn(&Case) -> bool) -> Case {
    let mut cur = case.clone();
    let mut progress = true;
    while progress {
        progress = false;
        let mut cands: Vec<Case> = vec![];
        for i in 0..cur.entries.len() {
            if cur.entries.len() > 1 {
                let mut c = cur.clone();
                c.entries.remove(i);
                cands.push(c);
            }
        }
        for which in 0..4 {
            let mut c = cur.clone();
            match which {
                0 => c.cfg.ignore.clear(),
                1 => c.cfg.keep.clear(),
                2 => c.cfg.ine = false,
                _ => c.cfg.filter = None,
            }
            if format!("{:?}", c.cfg) != format!("{:?}", cur.cfg) {
                cands.push(c);
            }
        }
        for c in cands {
            if bad(&c) {
                cur = c;
                progress = true;
                break;
            }
        }
    }
    cur
}

fn run_cases(rep: &mut Report, t: &Tree, cases: &[Case], tag: &str) {
    std::env::set_current_dir(&t.cw).unwrap();
    let mut reqs = vec![];
    let mut outs: Vec<Option<String>> = vec![];
    for case in cases {
        let tw = run_twice(case);
        reqs.push(request("c11.idem.twice", t, &case.cfg, &case.entries));
        outs.push(match (&tw.first, &tw.second) {
            (Err(_), _) => Some("panic".to_string()),
            (Ok(_), Some(r2)) => Some(show_recs(r2)),
            (Ok(_), None) => None,
        });
        match (&tw.first, &tw.second) {
            (Err(_), _) => rep.count("idem.first_run_panics"),
            (Ok(_), None) => rep.count("idem.skipped_duplicate_paths"),
            (Ok(r1), Some(Ok(r2))) => {
                rep.count(if rel_cov(r1) == rel_cov(r2) { "idem.same" } else { "idem.changed" });
                // C05_rewrite_idempotent_sharp: on a link-free tree the three guards imply idempotence
                if t.rel_links.is_empty() {
                    let g = sharp_guards(&case.cfg, r1);
                    let same = rel_cov(r1) == rel_cov(r2);
                    rep.count(match (g, same) {
                        (true, true) => "idem.sharp.guards_hold.same",
                        (true, false) => "idem.sharp.guards_hold.CHANGED",
                        (false, true) => "idem.sharp.some_guard_fails.same",
                        (false, false) => "idem.sharp.some_guard_fails.changed",
                    });
                    if g && !same {
                        rep.fail("oracle", None,
                            "re-import: the guards hrel / hguess / habs of C05_rewrite_idempotent_sharp hold of the first report, yet the second report differs".into(),
                            case.to_json("c11.idem.twice", t));
                    }
                }
                let a1: Vec<&String> = r1.iter().map(|x| &x.0).collect();
                let same_abs = r2.iter().all(|x| a1.contains(&&x.0));
                rep.count(if same_abs { "idem.abs_same" } else { "idem.abs_changed" });
            }
            (Ok(_), Some(Err(_))) => rep.count("idem.second_run_panics"),
        }
    }
    let model = run_model_named("gm_c11", &reqs, &rep.workdir, &format!("idem{}", tag));
    for (i, case) in cases.iter().enumerate() {
        let nontrivial = case.cfg.sd.is_some() || case.cfg.pd.is_some()
            || case.entries.iter().any(|(k, _)| k.contains("..") || k.contains("//") || k.contains('\\'));
        rep.case(&reqs[i], nontrivial);
        if i == 0 {
            rep.sample(json!({"case": case.to_json("c11.idem.twice", t), "impl_second_report": outs[i], "model": model[i]}));
        }
        if let Some((what, finding)) = idem_oracle(case) {
            let seen = rep.failures.iter().filter(|f| f.finding.as_deref() == finding && f.what.starts_with("re-import")).count();
            let small = if seen < 6 {
                shrink_entries(case, &|c| matches!(idem_oracle(c), Some((_, f)) if f == finding))
            } else {
                case.clone()
            };
            let what = idem_oracle(&small).map(|x| x.0).unwrap_or(what);
            rep.fail("oracle", finding, what, small.to_json("c11.idem.twice", t));
        }
        if let Some(out) = &outs[i] {
            if *out != model[i] {
                rep.disagreements_checked += 1;
                let mut cj = case.to_json("c11.idem.twice", t);
                cj["impl"] = json!(out);
                cj["model"] = json!(model[i]);
                rep.fail("disagreement", None,
                    "rewrite_paths applied twice differs from Rewrite.rewriteTwice (theorems C05_rewrite_* no longer transfer)".into(), cj);
            }
        }
    }
    std::env::set_current_dir("/verif").unwrap();
}

fn plain() -> Cfg {
    Cfg { sd: None, pd: None, mapping: None, ignore: vec![], keep: vec![], ine: false, filter: None }
}

pub fn run(rep: &mut Report) {
    let mut rng = Rng::new(fnv64(&(rep.seed ^ 0xC05_1DE).to_le_bytes()));
    let base = rep.workdir.join("fs");
    // closed witnesses of Props/C05Rewrite.lean on the real code (names adapted to the tree: the
    // source dir is <root>/src, so the repeated component is `src`)
    {
        let t = materialise(&base, 3900, &["src".into(), "other".into(), "cw".into(), "src/foo".into()],
            &["src/foo/bar.c".into()]);
        let cov = gen_cov(&mut Rng::new(5), 0);
        let w1 = Case { cfg: Cfg { pd: Some("a".into()), ..plain() }, entries: vec![("a/a/x.c".into(), cov.clone())] };
        let w2 = Case { cfg: Cfg { sd: Some(t.src.clone()), ..plain() }, entries: vec![("src/src/bar.c".into(), cov.clone())] };
        // the guarded side: an existing file below the source dir, absolute prefix
        let g1 = Case { cfg: Cfg { sd: Some(t.src.clone()), pd: Some(t.src.clone()), ..plain() },
            entries: vec![("foo//./bar.c".into(), cov.clone())] };
        std::env::set_current_dir(&t.cw).unwrap();
        for (name, c, want) in [("relative_prefix", &w1, vec!["a/x.c", "x.c"]), ("source_name", &w2, vec!["src/bar.c", "bar.c"]),
            ("existing_file", &g1, vec!["foo/bar.c", "foo/bar.c"])] {
            let tw = run_twice(c);
            let got: Vec<String> = vec![
                tw.first.as_ref().ok().and_then(|r| r.first().map(|x| x.1.clone())).unwrap_or_default(),
                tw.second.as_ref().and_then(|r| r.as_ref().ok()).and_then(|r| r.first().map(|x| x.1.clone())).unwrap_or_default(),
            ];
            rep.count(&format!("idem.witness.{}", name));
            if got == want {
                rep.count(&format!("idem.witness.{}.reproduced_on_real_code", name));
            } else {
                rep.fail("disagreement", None,
                    format!("witness {} of Props/C05Rewrite.lean no longer behaves as proved: {:?}", name, got),
                    c.to_json("c11.idem.twice", &t));
            }
        }
        run_cases(rep, &t, &[w1, w2, g1], "w");
    }
    let n_trees = rep.budget(4, 4);
    let per_tree = rep.budget(150, 4);
    for ti in 0..n_trees {
        let t = build_tree(&mut rng, &base, 3000 + 2 * ti); // link-free trees: re-import over symlinked layouts is outside the C05 guards
        let mut stats: BTreeMap<String, u64> = BTreeMap::new();
        let mut cases = vec![];
        for _ in 0..per_tree {
            let mut case = gen_case(&mut rng, &t, true, &mut stats);
            case.cfg.mapping = None; // the property excludes a path-mapping file
            case.entries.retain(|(k, _)| !k.is_empty());
            if case.entries.is_empty() {
                continue;
            }
            // the neighbourhood of the two witnesses: a key that repeats the relative prefix or
            // the source dir's own name
            if rng.chance(1, 8) {
                let comp = match (&case.cfg.pd, &case.cfg.sd) {
                    (Some(p), _) if !p.starts_with('/') && !p.is_empty() && rng.chance(1, 2) => Some(p.clone()),
                    (_, Some(s)) => Path::new(s).file_name().map(|n| n.to_str().unwrap().to_string()),
                    _ => None,
                };
                if let Some(comp) = comp {
                    let k = case.entries[0].0.trim_start_matches('/').to_string();
                    let k = format!("{}/{}/{}", comp, comp, k);
                    if !case.entries.iter().any(|e| e.0 == k) {
                        case.entries[0].0 = k;
                        rep.count("idem.key_repeats_option_component");
                    }
                }
            }
            cases.push(case);
        }
        run_cases(rep, &t, &cases, &format!("{}", ti));
    }
    rep.rule.push_str("; part C05-Rewrite (idem.rs): the C11 configurations without path mapping, rewrite_paths applied \
        to its own report (relative path + data of every record as the new key), skipped when two records share a \
        path; plus keys that repeat the relative prefix dir or the source dir's own name");
}

pub fn replay(rep: &mut Report, case: &Value) {
    let base = rep.workdir.join("fs");
    let t = tree_from_json(&base, &case["tree"]);
    let c = Case::from_json(case);
    run_cases(rep, &t, &[c], "replay");
}
