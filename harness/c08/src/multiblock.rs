//! C08 MultiBlock package: lines that live in several basic blocks (`get_line_count`,
//! `get_cycles_count`, `look_for_circuit`, `unblock`).
//!
//! (1) `mb.synthetic`: generated CFGs in the 408* layout that put a whole region – a DAG of
//!     conditions, ONE simple loop (with or without other blocks of the line around it), or 2–3
//!     circuits (loop with a two-way body, nested loops, loops in sequence, a loop with two
//!     entries) – on one source line, sometimes with the block numbers shuffled, a block that
//!     lists the line twice, the predecessor block on the line as well; random spanning tree,
//!     flows from random walks, 1–2 gcda. `Gcno::compute` and the `{:?}` dump of the real `Gcno`
//!     are taken; an independent Rust evaluation of the statements of Props/C08MultiBlock.lean is
//!     applied to the REAL output:
//!       clause 1  no circuit among the line's blocks  => count = entering part
//!       clause 2a entering part <= count <= entering part + counts of the arcs inside the line
//!                 (<= sum of the block counters when the entry block has no predecessor on the line)
//!       clause 2b exactly one simple loop             => count = entering part + min on the loop
//!       clause 2c k copies of the gcda                => k times every line
//!       clause 2d function not entered                => all its lines 0
//!       clause 3  count > 0  <=>  some block of the line has a positive counter
//!     and the same quantities computed by the Lean model (driver op `c08.mb`: `entryPart`,
//!     `intSum`, block-count sum, `lineClass` with its certificates, the loop, its minimum, the
//!     model's own `getLineCount`) are compared, field by field, with the Rust evaluation on the
//!     real state – this ties the specification functions the theorems talk about to the code.
//! (2) `mb.program`: generated C programs made of one-line multi-block statements (`for (…) x += …;`,
//!     `a && b ? c : d`, nested one-line loops, one-line while/do, conditional inside a loop),
//!     compiled with clang-14 --coverage, run with 1–3 profiles: llvm-cov-14 gcov is the oracle
//!     (through `check_compiled` of main.rs), and the clause oracles and the `c08.mb` comparison are
//!     applied to the real state as well.
use super::gcno::*;
use corrlib::*;
use serde_json::{json, Value};
use std::collections::{BTreeMap, BTreeSet};

// ---------------------------------------------------------------------------------------------
// independent evaluation of the statements on the real state

#[derive(Debug, Clone, Default)]
pub struct LineEval {
    pub line: u32,
    /// block occurrences (`lines_to_block[line]`)
    pub occ: Vec<usize>,
    /// 0 = no circuit, 1 = exactly one simple loop, 2 = anything else
    pub class: u8,
    pub entry: u128,
    pub int: u128,
    pub blk: u128,
    pub enp: bool,
    /// class 1: the loop from its smallest block, as (src, dst) pairs
    pub lp: Vec<(usize, usize)>,
    pub min: Option<u64>,
    /// counters of the blocks are their inflow and their outflow
    pub consistent: bool,
}

/// predecessor arcs per block: (source block, count)
fn preds(f: &FnDump) -> Vec<Vec<(usize, u64)>> {
    let mut p = vec![Vec::new(); f.blocks.len()];
    for (s, b) in f.blocks.iter().enumerate() {
        for &(d, c) in &b.succ {
            if d < p.len() {
                p[d].push((s, c));
            }
        }
    }
    p
}

/// the multi-block lines of one function of the dump (block number = block index: one BLOCKS record)
pub fn eval_lines(f: &FnDump) -> Vec<LineEval> {
    let pred = preds(f);
    let mut occs: BTreeMap<u32, Vec<usize>> = BTreeMap::new();
    for (i, b) in f.blocks.iter().enumerate() {
        for l in &b.lines {
            occs.entry(*l).or_default().push(i);
        }
    }
    let mut out = Vec::new();
    for (line, occ) in occs {
        if occ.len() == 1 {
            continue;
        }
        let set: BTreeSet<usize> = occ.iter().copied().collect();
        let mut ev = LineEval { line, occ: occ.clone(), ..Default::default() };
        ev.enp = true;
        ev.consistent = true;
        for &b in &occ {
            let blk = &f.blocks[b];
            let outflow: u128 = blk.succ.iter().map(|x| x.1 as u128).sum();
            let inflow: u128 = pred[b].iter().map(|x| x.1 as u128).sum();
            if blk.counter as u128 != inflow || blk.counter as u128 != outflow {
                ev.consistent = false;
            }
            let inside: u128 = pred[b].iter().filter(|x| set.contains(&x.0)).map(|x| x.1 as u128).sum();
            if b == 0 {
                ev.entry += outflow;
                if pred[b].iter().any(|x| set.contains(&x.0)) {
                    ev.enp = false;
                }
            } else {
                ev.entry += inflow - inside;
            }
            ev.int += inside;
            ev.blk += blk.counter as u128;
        }
        // the arcs inside the line, once each
        let nodes: Vec<usize> = set.iter().copied().collect();
        let arcs: Vec<(usize, usize, u64)> = nodes
            .iter()
            .flat_map(|&s| f.blocks[s].succ.iter().filter(|x| set.contains(&x.0)).map(move |x| (s, x.0, x.1)))
            .collect();
        // Kahn
        let mut indeg: BTreeMap<usize, usize> = nodes.iter().map(|&n| (n, 0)).collect();
        for a in &arcs {
            *indeg.get_mut(&a.1).unwrap() += 1;
        }
        let mut work: Vec<usize> = nodes.iter().copied().filter(|n| indeg[n] == 0).collect();
        let mut removed = 0;
        while let Some(n) = work.pop() {
            removed += 1;
            for a in arcs.iter().filter(|a| a.0 == n) {
                let d = indeg.get_mut(&a.1).unwrap();
                *d -= 1;
                if *d == 0 {
                    work.push(a.1);
                }
            }
        }
        if removed == nodes.len() {
            ev.class = 0;
        } else {
            let reach = |from: usize| -> BTreeSet<usize> {
                let mut seen = BTreeSet::new();
                let mut st = vec![from];
                while let Some(x) = st.pop() {
                    for a in arcs.iter().filter(|a| a.0 == x) {
                        if seen.insert(a.1) {
                            st.push(a.1);
                        }
                    }
                }
                seen
            };
            let reaches: BTreeMap<usize, BTreeSet<usize>> = nodes.iter().map(|&n| (n, reach(n))).collect();
            let cyc: Vec<usize> = nodes.iter().copied().filter(|n| reaches[n].contains(n)).collect();
            let one_scc = cyc.iter().all(|u| cyc.iter().all(|v| reaches[u].contains(v)));
            let inner: Vec<&(usize, usize, u64)> = arcs.iter().filter(|a| cyc.contains(&a.0) && cyc.contains(&a.1)).collect();
            if one_scc && inner.len() == cyc.len() {
                ev.class = 1;
                let m = *cyc.iter().min().unwrap();
                let mut cur = m;
                let mut mn = u64::MAX;
                loop {
                    let a = inner.iter().find(|a| a.0 == cur).unwrap();
                    ev.lp.push((a.0, a.1));
                    mn = mn.min(a.2);
                    cur = a.1;
                    if cur == m {
                        break;
                    }
                }
                ev.min = Some(mn);
            } else {
                ev.class = 2;
            }
        }
        out.push(ev);
    }
    out
}

/// the answer the driver op `c08.mb` should give for one function, with the REAL count per line
pub fn mb_text(f: &FnDump, lines: &BTreeMap<u32, u64>) -> String {
    let entered = f.blocks.first().and_then(|b| b.succ.first()).map(|x| x.1 > 0).unwrap_or(false);
    if !entered {
        return "-".to_string();
    }
    let evs = eval_lines(f);
    if evs.is_empty() {
        return "+".to_string();
    }
    evs.iter()
        .map(|e| {
            format!(
                "{}:{}:{}:{}:{}:{}:{}:{}:{}:{}",
                e.line,
                e.occ.iter().map(|b| b.to_string()).collect::<Vec<_>>().join("."),
                e.class,
                e.entry,
                e.int,
                e.blk,
                if e.enp { 1 } else { 0 },
                if e.class == 1 { e.lp.iter().map(|a| format!("{}>{}", a.0, a.1)).collect::<Vec<_>>().join(".") } else { "-".into() },
                e.min.map(|m| m.to_string()).unwrap_or("-".into()),
                lines.get(&e.line).map(|n| n.to_string()).unwrap_or("?".into())
            )
        })
        .collect::<Vec<_>>()
        .join("|")
}

pub fn mb_req(n: &Notes, ds: &[&Gcda]) -> String {
    let mut s = format!("c08.mb {}", notes_text(n));
    for d in ds {
        s.push(' ');
        s.push_str(&gcda_text(d));
    }
    s
}

/// Evaluate the clauses on one function of the real state against the real line counts of its
/// file. `by_file[file]` must hold the lines of this function only (one function per file), or
/// `None` for lines shared with other functions. Returns the first violated clause.
pub fn clause_oracle(rep: &mut Report, tag: &str, f: &FnDump, lines: &BTreeMap<u32, u64>, shared: &BTreeSet<u32>, walks_reach: bool) -> Option<String> {
    let entered = f.blocks.first().and_then(|b| b.succ.first()).map(|x| x.1 > 0).unwrap_or(false);
    let evs = eval_lines(f);
    for e in &evs {
        if shared.contains(&e.line) {
            rep.count(&format!("{}.line_shared_between_functions", tag));
            continue;
        }
        let n = match lines.get(&e.line) {
            Some(n) => *n as u128,
            None => return Some(format!("line {} of the notes is missing in the result", e.line)),
        };
        if !entered {
            rep.count(&format!("{}.clause2d.not_entered_line", tag));
            if n != 0 {
                return Some(format!("clause 2d: function not entered but line {} is {}", e.line, n));
            }
            continue;
        }
        rep.count(&format!("{}.class{}", tag, e.class));
        rep.count(&format!("{}.occurrences={}", tag, e.occ.len().min(9)));
        if e.occ.len() != e.occ.iter().collect::<BTreeSet<_>>().len() {
            rep.count(&format!("{}.repeated_block_occurrence", tag));
        }
        match e.class {
            0 => {
                rep.count(&format!("{}.clause1.checked", tag));
                if n != e.entry {
                    return Some(format!("clause 1: line {} has no circuit, entering part {} but count {}", e.line, e.entry, n));
                }
            }
            1 => {
                rep.count(&format!("{}.clause2b.checked", tag));
                rep.count(&format!("{}.clause2b.loop_len={}", tag, e.lp.len().min(6)));
                let want = e.entry + e.min.unwrap_or(0) as u128;
                if n != want {
                    return Some(format!(
                        "clause 2b: line {} carries one loop {:?}: entering part {} + loop minimum {} = {} but count {}",
                        e.line, e.lp, e.entry, e.min.unwrap_or(0), want, n
                    ));
                }
                if e.min.unwrap_or(0) > 0 {
                    rep.count(&format!("{}.clause2b.loop_taken", tag));
                }
            }
            _ => {
                rep.count(&format!("{}.clause2a.only_bounds", tag));
                if n > e.entry {
                    rep.count(&format!("{}.clause2a.cycles_counted", tag));
                }
            }
        }
        if n < e.entry || n > e.entry + e.int {
            return Some(format!("clause 2a: line {}: count {} outside [{}, {}]", e.line, n, e.entry, e.entry + e.int));
        }
        if e.enp && e.consistent {
            rep.count(&format!("{}.clause2a.block_bound_checked", tag));
            if n > e.blk {
                return Some(format!("clause 2a: line {}: count {} above the sum {} of its block counters", e.line, n, e.blk));
            }
            if walks_reach {
                rep.count(&format!("{}.clause3.checked", tag));
                if (n > 0) != (e.blk > 0) {
                    return Some(format!("clause 3: line {}: count {} but block counter sum {}", e.line, n, e.blk));
                }
            } else if n > 0 && e.blk == 0 {
                return Some(format!("clause 3 (first half): line {}: count {} but no executed block", e.line, n));
            }
        } else {
            rep.count(&format!("{}.clause2a.block_bound_skipped", tag));
        }
    }
    None
}

// ---------------------------------------------------------------------------------------------
// generator: a region on one line

/// arcs of a region over local block numbers 0..k (0 = region entry); `EXIT` = leaves the region
const EXIT: u32 = u32::MAX;

fn region(rng: &mut Rng, shape: u64) -> (u32, Vec<(u32, u32)>, &'static str) {
    let mut arcs: Vec<(u32, u32)> = Vec::new();
    match shape {
        // DAG of conditions (`a && b ? c : d`, if/else chains on one line)
        0 => {
            let k = rng.range(2, 6) as u32;
            for i in 0..k {
                let nout = if i + 1 == k { 1 } else { rng.range(1, 2) };
                let mut tg: Vec<u32> = Vec::new();
                for _ in 0..nout {
                    let t = if i + 1 == k || rng.chance(1, 5) { EXIT } else { rng.range(i as u64 + 1, k as u64 - 1) as u32 };
                    if !tg.contains(&t) {
                        tg.push(t);
                    }
                }
                for t in tg {
                    arcs.push((i, t));
                }
            }
            // every block but the first needs a predecessor inside the region
            for i in 1..k {
                if !arcs.iter().any(|a| a.1 == i) {
                    let p = rng.below(i as u64) as u32;
                    arcs.push((p, i));
                }
            }
            (k, arcs, "dag")
        }
        // one simple loop: [init ->] head -> b1 -> … -> latch -> head, exits from head or latch,
        // optionally a block after the loop on the same line
        1 => {
            let init = rng.chance(1, 2);
            let body = rng.below(4) as u32; // blocks between head and latch
            let selfloop = body == 0 && rng.chance(1, 3);
            let after = rng.chance(1, 3);
            let mut next = 0u32;
            let mut fresh = || {
                let x = next;
                next += 1;
                x
            };
            let i0 = if init { Some(fresh()) } else { None };
            let head = fresh();
            let mut chain = vec![head];
            if !selfloop {
                for _ in 0..body {
                    chain.push(fresh());
                }
                chain.push(fresh()); // latch
            }
            let aft = if after { Some(fresh()) } else { None };
            if let Some(i) = i0 {
                arcs.push((i, head));
            }
            for w in chain.windows(2) {
                arcs.push((w[0], w[1]));
            }
            arcs.push((*chain.last().unwrap(), head));
            let out = aft.unwrap_or(EXIT);
            // while-style exit from the head, do-style exit from the latch, a break from the body
            if rng.chance(2, 3) || chain.len() == 1 {
                arcs.push((head, out));
            } else {
                arcs.push((*chain.last().unwrap(), out));
            }
            if chain.len() > 2 && rng.chance(1, 3) {
                let b = chain[rng.range(1, chain.len() as u64 - 2) as usize];
                arcs.push((b, out));
            }
            if let Some(a) = aft {
                arcs.push((a, EXIT));
            }
            (next, arcs, "one_loop")
        }
        // loop whose body has two paths: two circuits through the head
        2 => {
            // 0 head, 1 left, 2 right, 3 latch
            arcs.extend([(0, 1), (0, 2), (1, 3), (2, 3), (3, 0), (0, EXIT)]);
            if rng.chance(1, 3) {
                arcs.push((1, EXIT));
            }
            (4, arcs, "loop_two_paths")
        }
        // nested loops: 0 outer head, 1 inner head, 2 inner body, 3 outer latch
        3 => {
            arcs.extend([(0, 1), (1, 2), (2, 1), (1, 3), (3, 0), (0, EXIT)]);
            (4, arcs, "nested_loops")
        }
        // two loops in sequence on the same line
        4 => {
            arcs.extend([(0, 1), (1, 0), (0, 2), (2, 3), (3, 2), (2, EXIT)]);
            (4, arcs, "two_loops")
        }
        // a loop {1, 2} with two entries (from 0 directly and through 3): irreducible
        _ => {
            arcs.extend([(0, 1), (1, 2), (2, 1), (0, 3), (3, 2), (1, EXIT), (2, EXIT)]);
            (4, arcs, "two_entries")
        }
    }
}

/// One function: entry 0, exit 1, `pre` (function line, sometimes also THE line), the region on
/// THE line, `post` (another line); optionally an outer loop post -> pre through blocks that are
/// not on the line (the region is entered several times per call) and a bypass pre -> post.
pub fn gen_mb_fn(rng: &mut Rng, idx: u32, file: &[u8], rep: &mut Report) -> GenFn {
    let shape = match rng.below(10) {
        0..=2 => 0,
        3..=5 => 1,
        6 => 2,
        7 => 3,
        8 => 4,
        _ => 5,
    };
    let (k, rarcs, name) = region(rng, shape);
    rep.count(&format!("mb.synthetic.shape.{}", name));
    // global numbering: 0 entry, 1 exit, then pre, region…, post; shuffled now and then
    let nblocks = k + 4;
    let mut ids: Vec<u32> = (2..nblocks).collect();
    if rng.chance(1, 2) {
        rng.shuffle(&mut ids);
        rep.count("mb.synthetic.shuffled_block_numbers");
    }
    let pre = ids[0];
    let post = ids[1];
    let reg = |i: u32| ids[2 + i as usize];
    let mut arcs: Vec<(u32, u32, u32)> = vec![(0, pre, 0), (pre, reg(0), 0), (post, 1, 0)];
    for (s, d) in &rarcs {
        let d = if *d == EXIT { post } else { reg(*d) };
        if !arcs.iter().any(|a| a.0 == reg(*s) && a.1 == d) {
            arcs.push((reg(*s), d, 0));
        }
    }
    if rng.chance(1, 3) {
        arcs.push((post, pre, 0)); // outer loop around the line
    }
    if rng.chance(1, 4) {
        arcs.push((pre, post, 0)); // the line is skipped
    }
    // a second way into the region (not for its first block): several entering arcs
    if k > 1 && rng.chance(1, 4) {
        let t = reg(rng.range(1, k as u64 - 1) as u32);
        if !arcs.iter().any(|a| a.0 == pre && a.1 == t) {
            arcs.push((pre, t, 0));
        }
    }
    arcs.sort_by_key(|a| a.0);
    // random spanning tree over arcs + virtual arc
    let mut parent: Vec<u32> = (0..nblocks).collect();
    fn find(p: &mut Vec<u32>, x: u32) -> u32 {
        let mut r = x;
        while p[r as usize] != r {
            r = p[r as usize];
        }
        r
    }
    let (a, b) = (find(&mut parent, 1), find(&mut parent, 0));
    parent[a as usize] = b;
    let mut order: Vec<usize> = (0..arcs.len()).collect();
    rng.shuffle(&mut order);
    for &i in &order {
        let (s, d, _) = arcs[i];
        let (rs, rd) = (find(&mut parent, s), find(&mut parent, d));
        if rs != rd {
            parent[rs as usize] = rd;
            arcs[i].2 |= 1;
        }
    }
    let start = 10 * (idx + 1);
    let the_line = start + 1;
    let mut lines: Vec<(u32, Vec<LineItem>)> = Vec::new();
    let mut pre_items = vec![LineItem::File(file.to_vec()), LineItem::Line(start)];
    if rng.chance(1, 3) {
        pre_items.push(LineItem::Line(the_line));
        rep.count("mb.synthetic.predecessor_on_the_line");
    }
    lines.push((pre, pre_items));
    for i in 0..k {
        let mut items = vec![LineItem::File(file.to_vec()), LineItem::Line(the_line)];
        if rng.chance(1, 8) {
            // the block comes back to the line after another line: listed twice
            items.push(LineItem::Line(start + 3));
            items.push(LineItem::Line(the_line));
        } else if rng.chance(1, 6) {
            items.push(LineItem::Line(start + 3));
        }
        lines.push((reg(i), items));
    }
    lines.push((post, vec![LineItem::File(file.to_vec()), LineItem::Line(start + 2)]));
    if rng.chance(1, 7) {
        // the entry block lists the line as well (no compiler does this): the `block.no == 0` rule
        lines.push((0, vec![LineItem::File(file.to_vec()), LineItem::Line(the_line)]));
        rep.count("mb.synthetic.entry_block_on_the_line");
    }
    lines.sort_by_key(|x| x.0);
    GenFn {
        ident: idx + 1,
        lsum: rng.next() as u32,
        csum: rng.next() as u32,
        name: format!("mb{}", idx).into_bytes(),
        file: file.to_vec(),
        start,
        end: start + 9,
        nblocks,
        block_split: vec![nblocks],
        arcs,
        lines,
        tree_ok: true,
        sink: 1,
    }
}

fn lines_of(rs: &Results, file: &str) -> BTreeMap<u32, u64> {
    rs.iter().find(|(k, _)| k == file).map(|(_, c)| c.lines.iter().map(|(l, n)| (*l, *n)).collect()).unwrap_or_default()
}

/// enough unexplained failures already (from any stream): stop generating; `C08_MB_FORCE=1`
/// keeps this stream going (used to evaluate the stream on its own against a changed /repo)
fn stop_early(rep: &Report) -> bool {
    rep.verdict_clear() && std::env::var("C08_MB_FORCE").is_err()
}

struct Pending {
    req: String,
    want: String,
    case: Value,
    what: &'static str,
}

fn synthetic(rep: &mut Report, rng: &mut Rng, pend: &mut Vec<Pending>) {
    let n = rep.budget(220, 25);
    for i in 0..n {
        if stop_early(rep) {
            break;
        }
        let version = 48;
        let checksum = rng.next() as u32;
        let nf = rng.range(1, 2) as u32;
        let fns: Vec<GenFn> = (0..nf).map(|j| gen_mb_fn(rng, j, format!("mb{}.c", j).as_bytes(), rep)).collect();
        let mut recs = Vec::new();
        for f in &fns {
            recs.extend(f.recs());
        }
        let notes = Notes { version, checksum, recs };
        let gcno = encode_gcno(&notes);
        let nd = rng.range(1, 2) as usize;
        let mut gcdas = Vec::new();
        for _ in 0..nd {
            let mut parts: Vec<(&GenFn, Vec<u64>)> = Vec::new();
            for f in fns.iter() {
                let walks = if rng.chance(1, 10) { 0 } else { rng.range(1, 6) };
                let scale = if rng.chance(1, 15) { rng.range(2, 1 << 30) } else { 1 };
                parts.push((f, gen_flow_n(rng, f, walks, scale, 30)));
            }
            gcdas.push(gcda_for(version, checksum, &parts));
        }
        let mut er = rng.fork();
        let bytes: Vec<Vec<u8>> = gcdas.iter().map(|d| encode_gcda(d, &mut er)).collect();
        let refs: Vec<&Gcda> = gcdas.iter().collect();
        let req = mb_req(&notes, &refs);
        let creq = compute_req(&notes, &refs, true);
        let case = json!({"op": "mb.synthetic", "gcno": hex(&gcno), "gcdas": bytes.iter().map(|b| hex(b)).collect::<Vec<_>>(),
                          "req": req, "compute_req": creq, "index": i});
        let r = run_compute(&gcno, &bytes, true);
        let dump = run_dump(&gcno, &bytes).map(|d| dump_functions(&d));
        let (rs, fd) = match (&r, dump) {
            (Ok(rs), Some(fd)) if fd.len() == fns.len() => (rs, fd),
            _ => {
                rep.count("mb.synthetic.compute_failed");
                rep.fail("oracle", None, format!("Gcno::compute fails on a generated multi-block CFG: {}", show_compute(&r).chars().take(80).collect::<String>()), case);
                continue;
            }
        };
        let mut nontrivial = false;
        let mut want: Vec<String> = Vec::new();
        for (j, f) in fd.iter().enumerate() {
            let lines = lines_of(rs, &format!("mb{}.c", j));
            nontrivial |= lines.values().any(|&n| n > 0);
            if let Some(msg) = clause_oracle(rep, "mb.synthetic", f, &lines, &BTreeSet::new(), true) {
                rep.count("mb.synthetic.oracle_failed");
                rep.fail("oracle", None, format!("function {}: {}", j, msg), case.clone());
            }
            want.push(mb_text(f, &lines));
        }
        // clause 2c: k copies of the first gcda give k times the counts of one copy
        if i % 4 == 0 {
            let k = rng.range(2, 4);
            let one = run_compute(&gcno, &bytes[..1], true);
            let many = run_compute(&gcno, &vec![bytes[0].clone(); k as usize], true);
            rep.count("mb.synthetic.clause2c.checked");
            match (&one, &many) {
                (Ok(a), Ok(b)) => {
                    if scaled(a, k).map(|s| show_results_b(&s)) != Some(show_results_b(b)) {
                        rep.fail("oracle", None, format!("clause 2c: {} copies of a gcda are not {} times one copy", k, k), case.clone());
                    }
                }
                _ => rep.fail("oracle", None, "clause 2c: compute fails on copies of an accepted gcda".into(), case.clone()),
            }
        }
        rep.case(&req, nontrivial);
        if i == 3 {
            // development aid: keep one generated case as a replay file
            if let Ok(p) = std::env::var("C08_MB_DUMP_CASE") {
                let _ = std::fs::write(p, serde_json::to_string(&json!({"case": case})).unwrap_or_default());
            }
        }
        if i % 97 == 0 {
            rep.sample(json!({"request": req.chars().take(400).collect::<String>(), "real_state_evaluation": want.join(";")}));
        }
        pend.push(Pending { req, want: format!("ok {}", want.join(";")), case: case.clone(), what: "c08.mb" });
        pend.push(Pending { req: creq, want: show_compute(&r), case, what: "compute" });
    }
}

// ---------------------------------------------------------------------------------------------
// compiled one-line statements

fn one_liner(rng: &mut Rng, u: u32) -> String {
    let k = rng.below(4);
    match rng.below(11) {
        0 => format!("for (int i{u} = 0; i{u} < (a % 4) + {k}; i{u}++) x += i{u};", u = u, k = k),
        1 => format!("r += (a > {k} && b < 3) ? x : b;", k = k),
        2 => format!("r += (a > {k} || b > 2) ? 1 : 2;", k = k),
        3 => format!("for (int i{u} = 0; i{u} < (a % 3) + 1; i{u}++) for (int j{u} = 0; j{u} < (b % 3) + {k}; j{u}++) x += i{u} ^ j{u};", u = u, k = k),
        4 => format!("{{ int w{u} = (a + {k}) % 5; while (w{u}-- > 0) x += w{u}; }}", u = u, k = k),
        5 => format!("{{ int d{u} = 0; do x += d{u}; while (++d{u} < (b % 4) + {k}); }}", u = u, k = k),
        6 => format!("if (a > b + {k}) r++; else x += (b > 2 ? 3 : 4);", k = k),
        7 => format!("for (int i{u} = 0; i{u} < (a % 4) + {k}; i{u}++) x += (i{u} & 1) ? a : b;", u = u, k = k),
        8 => format!("r += a > 2 ? (b > {k} ? 1 : 2) : (b > 3 ? 3 : 4);", k = k),
        9 => format!("for (int i{u} = 0; i{u} < (b % 3) + {k}; i{u}++) if ((i{u} + a) & 1) x++; else r += 2;", u = u, k = k),
        _ => format!("x += (a & 1) && (b & 1) && (a > {k});", k = k),
    }
}

fn gen_one_line_program(rng: &mut Rng) -> super::Program {
    let mut s = String::from("#include <stdlib.h>\nint g;\n");
    let nf = rng.range(1, 2);
    for f in 0..nf {
        s.push_str(&format!("int f{}(int a, int b) {{\n  int r = 0, x = 0;\n", f));
        let n = rng.range(2, 5);
        for j in 0..n {
            s.push_str("  ");
            s.push_str(&one_liner(rng, (f * 10 + j) as u32));
            // now and then a second statement on the same line
            if rng.chance(1, 4) {
                s.push_str(" g++;");
            }
            s.push('\n');
        }
        s.push_str("  return r + x;\n}\n");
    }
    s.push_str("int main(int argc, char **argv) {\n  int a = argc > 1 ? atoi(argv[1]) : 0; int b = argc > 2 ? atoi(argv[2]) : 0;\n  int r = 0;\n");
    for f in 0..nf {
        if rng.chance(1, 5) {
            s.push_str(&format!("  if (a > 100) r += f{}(a, b);\n", f));
        } else {
            s.push_str(&format!("  for (int i = 0; i < {}; i++) r += f{}(a + i, b);\n", rng.range(1, 3), f));
        }
    }
    s.push_str("  return (r + g) & 1;\n}\n");
    super::Program { main_c: s, inc_h: "/* unused */\n".to_string() }
}

fn program_case(rep: &mut Report, p: &super::Program, profiles: &[Vec<String>], dir: &std::path::Path, pend: &mut Vec<Pending>, sample: bool) {
    let case = json!({"op": "mb.program", "prog_c": p.main_c, "inc_h": p.inc_h, "profiles": profiles});
    let c = match super::build_and_run(dir, p, profiles) {
        Ok(c) => c,
        Err(e) => {
            rep.count("mb.program.skipped");
            rep.notes.push(format!("mb.program skipped: {}", e.lines().next().unwrap_or("")));
            return;
        }
    };
    rep.count("mb.program.compiled");
    // llvm-cov gcov as the oracle, and the existing ties (compute/state) through main.rs
    let mut reqs = Vec::new();
    let mut p2 = Vec::new();
    super::check_compiled(rep, &c, &case, &mut reqs, &mut p2, sample);
    for (rq, (impl_out, cj, what)) in reqs.into_iter().zip(p2.into_iter()) {
        if what == "tree" {
            continue;
        }
        let what: &'static str = if what == "state" { "state" } else { "compute" };
        pend.push(Pending { req: rq, want: impl_out, case: cj, what });
    }
    // the clause oracles and the specification tie on the real state (per-run gcda files)
    let r = run_compute(&c.gcno, &c.singles, true);
    let dump = run_dump(&c.gcno, &c.singles).map(|d| dump_functions(&d));
    if let (Ok(rs), Some(fd)) = (&r, dump) {
        // lines listed by more than one function of a file are added up in the report
        let mut owner: BTreeMap<(String, u32), usize> = BTreeMap::new();
        for f in &fd {
            let ls: BTreeSet<u32> = f.blocks.iter().flat_map(|b| b.lines.iter().copied()).collect();
            for l in ls {
                *owner.entry((f.file.clone(), l)).or_insert(0) += 1;
            }
        }
        let mut want = Vec::new();
        for f in &fd {
            let lines = lines_of(rs, &f.file);
            let shared: BTreeSet<u32> = owner.iter().filter(|(k, n)| k.0 == f.file && **n > 1).map(|(k, _)| k.1).collect();
            if let Some(msg) = clause_oracle(rep, "mb.program", f, &lines, &shared, false) {
                rep.count("mb.program.oracle_failed");
                rep.fail("oracle", None, format!("compiled one-line statements: {}", msg), case.clone());
            }
            // shared lines cannot be compared per function: show the function's own count as `?`
            let own: BTreeMap<u32, u64> = lines.iter().filter(|(l, _)| !shared.contains(l)).map(|(l, n)| (*l, *n)).collect();
            want.push((mb_text(f, &own), !shared.is_empty()));
        }
        if want.iter().all(|w| !w.1) {
            if let (Some(notes), Some(gd)) = (decode_gcno(&c.gcno), c.singles.iter().map(|b| decode_gcda(b)).collect::<Option<Vec<Gcda>>>()) {
                let refs: Vec<&Gcda> = gd.iter().collect();
                let req = mb_req(&notes, &refs);
                rep.case(&req, true);
                pend.push(Pending { req, want: format!("ok {}", want.iter().map(|w| w.0.clone()).collect::<Vec<_>>().join(";")), case: case.clone(), what: "c08.mb" });
            }
        } else {
            rep.count("mb.program.model_tie_skipped_shared_lines");
        }
    }
    if !rep.thorough() {
        let _ = std::fs::remove_file(c.dir.join("prog"));
    } else {
        let _ = std::fs::remove_dir_all(&c.dir);
    }
}

fn programs(rep: &mut Report, rng: &mut Rng, pend: &mut Vec<Pending>) {
    let have_tools = std::process::Command::new("clang-14").arg("--version").output().map(|o| o.status.success()).unwrap_or(false)
        && std::process::Command::new("llvm-cov-14").arg("--version").output().map(|o| o.status.success()).unwrap_or(false);
    if !have_tools {
        rep.count("mb.program.tools_missing");
        return;
    }
    let n = rep.budget(6, 30);
    for i in 0..n {
        if stop_early(rep) {
            break;
        }
        let p = gen_one_line_program(rng);
        let nprof = rng.range(1, 3) as usize;
        let profiles: Vec<Vec<String>> = (0..nprof).map(|_| (0..2).map(|_| format!("{}", rng.below(12))).collect()).collect();
        let dir = rep.workdir.join(format!("mbp{}", i));
        program_case(rep, &p, &profiles, &dir, pend, false);
    }
}

fn settle(rep: &mut Report, pend: Vec<Pending>, tag: &str) {
    let reqs: Vec<String> = pend.iter().map(|p| p.req.clone()).collect();
    let answers = run_model_named("gm_c08", &reqs, &rep.workdir, tag);
    let cut = |s: &str| if s.len() > 600 { format!("{}…", &s[..600]) } else { s.to_string() };
    for (p, a) in pend.iter().zip(answers.iter()) {
        if *a != p.want {
            rep.count(&format!("mb.disagreement.{}", p.what));
            rep.disagreements_checked += 1;
            let mut cj = p.case.clone();
            cj["impl"] = json!(cut(&p.want));
            cj["model"] = json!(cut(a));
            cj["request"] = json!(p.req);
            let msg = if p.what == "c08.mb" {
                "the specification functions of Props/C08MultiBlock.lean evaluated by the model differ from their evaluation on the real Gcno state (or the model's getLineCount from the real count)".to_string()
            } else {
                format!("Gcno::{} differs from the model on a multi-block case", p.what)
            };
            rep.fail("disagreement", None, msg, cj);
        }
    }
}

pub fn run(rep: &mut Report) {
    rep.rule.push_str(
        " | mb.synthetic: 408* CFGs with a whole region on one source line (DAG of conditions; one simple loop with \
         optional initialiser/after block; loop with a two-way body, nested loops, two loops, a loop with two entries), block \
         numbers shuffled in half of the cases, a block listing the line twice now and then, random spanning tree, 1-2 gcda \
         of random-walk flows; mb.program: C functions made of one-line for/while/do loops, &&/||/?: chains, nested \
         one-line loops, compiled by clang-14 and compared with llvm-cov-14 gcov. non-trivial = some line count > 0",
    );
    let mut rng = Rng::new(rep.seed ^ 0xC08_3B);
    let mut pend: Vec<Pending> = Vec::new();
    synthetic(rep, &mut rng, &mut pend);
    let mut prng = Rng::new(rep.seed ^ 0xC08_3C);
    programs(rep, &mut prng, &mut pend);
    settle(rep, pend, "mb");
}

pub fn replay(rep: &mut Report, case: &Value) {
    match case["op"].as_str().unwrap_or("") {
        "mb.synthetic" => {
            let gcno = unhex(case["gcno"].as_str().unwrap_or(""));
            let gcdas: Vec<Vec<u8>> = case["gcdas"].as_array().map(|a| a.iter().map(|v| unhex(v.as_str().unwrap_or(""))).collect()).unwrap_or_default();
            let r = run_compute(&gcno, &gcdas, true);
            let dump = run_dump(&gcno, &gcdas).map(|d| dump_functions(&d));
            let mut pend = Vec::new();
            if let (Ok(rs), Some(fd)) = (&r, dump) {
                let mut want = Vec::new();
                for (j, f) in fd.iter().enumerate() {
                    let lines = lines_of(rs, &format!("mb{}.c", j));
                    if let Some(msg) = clause_oracle(rep, "mb.synthetic", f, &lines, &BTreeSet::new(), true) {
                        rep.fail("oracle", None, format!("function {}: {}", j, msg), case.clone());
                    }
                    want.push(mb_text(f, &lines));
                }
                if let Some(req) = case["req"].as_str() {
                    rep.case(req, true);
                    pend.push(Pending { req: req.to_string(), want: format!("ok {}", want.join(";")), case: case.clone(), what: "c08.mb" });
                }
            } else {
                rep.fail("oracle", None, "Gcno::compute fails on a generated multi-block CFG".into(), case.clone());
            }
            if let Some(req) = case["compute_req"].as_str() {
                pend.push(Pending { req: req.to_string(), want: show_compute(&r), case: case.clone(), what: "compute" });
            }
            settle(rep, pend, "replay");
        }
        "mb.program" => {
            let p = super::Program {
                main_c: case["prog_c"].as_str().unwrap_or("").to_string(),
                inc_h: case["inc_h"].as_str().unwrap_or("").to_string(),
            };
            let profiles: Vec<Vec<String>> = case["profiles"]
                .as_array()
                .map(|a| a.iter().map(|v| v.as_array().map(|x| x.iter().map(|s| s.as_str().unwrap_or("").to_string()).collect()).unwrap_or_default()).collect())
                .unwrap_or_default();
            let mut pend = Vec::new();
            let dir = rep.workdir.join("mbreplay");
            program_case(rep, &p, &profiles, &dir, &mut pend, false);
            settle(rep, pend, "replay");
        }
        _ => {}
    }
}
