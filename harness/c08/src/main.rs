//! C08 — gcno/gcda counts agree with llvm-cov gcov.
//! (1) generated C programs compiled with `clang-14 --coverage`, run with 0–4 argument profiles;
//!     `Gcno::compute` on the notes and the gcda files (one per run, and the merged one) is compared
//!     with an independent reader of `llvm-cov-14 gcov -b` text output: per-line counts, instrumented
//!     line set, function executed flags. CHECKED, not proved: llvm-cov is an external program.
//! (2) the same files, decoded by an independent decoder, go through the Lean model (`gm_c08`).
//! (3) synthetic CFGs whose on-tree arcs form a spanning tree, with flows from random walks: the
//!     arc counters recovered by `count_on_tree` must be the generated flow (oracle for
//!     C08_flow_recovered), block counts the block inflow, single-block lines the block count; tie
//!     of `state`/`compute`/`tree` with the model.
#[path = "../../c15/src/gcno.rs"]
mod gcno;
mod multiblock;
mod records;
use corrlib::*;
use gcno::*;
use serde_json::{json, Value};
use std::collections::BTreeMap;
use std::path::{Path, PathBuf};
use std::process::Command;

// ---------------------------------------------------------------------------------------------
// C program generator

struct PGen<'a> {
    rng: &'a mut Rng,
    lines: Vec<String>,
    cur: String,
    nfun: usize,
    /// loop variable counter (unique names)
    uniq: u32,
    /// calls to `helper` allowed (not inside the header itself)
    calls_helper: bool,
    /// > 0: keep everything on the current source line (whole loops / if-else chains on one line)
    one_line: u32,
}

impl<'a> PGen<'a> {
    fn emit(&mut self, s: &str) {
        // a statement spread over two lines
        if let Some((a, b)) = s.split_once('\n') {
            self.emit(a);
            self.flush();
            self.cur = b.to_string();
            return;
        }
        // several statements per line now and then; whole constructs when `one_line` is set
        let join = if self.one_line > 0 { self.cur.len() < 600 } else { self.rng.chance(1, 3) && self.cur.len() < 90 };
        if !self.cur.is_empty() && join {
            self.cur.push(' ');
            self.cur.push_str(s);
        } else {
            self.flush();
            self.cur = s.to_string();
        }
    }
    fn flush(&mut self) {
        if !self.cur.is_empty() {
            let c = std::mem::take(&mut self.cur);
            self.lines.push(c);
        }
    }
    fn nl(&mut self, s: &str) {
        self.flush();
        self.lines.push(s.to_string());
    }
    fn atom(&mut self, vars: &[String]) -> String {
        if self.rng.chance(1, 4) {
            format!("{}", self.rng.below(5))
        } else {
            self.rng.pick(vars).clone()
        }
    }
    fn cmp(&mut self, vars: &[String]) -> String {
        let a = self.atom(vars);
        let b = if self.rng.chance(1, 2) { format!("{}", self.rng.below(6)) } else { self.atom(vars) };
        let op = *self.rng.pick(&["<", ">", "==", "!=", "<=", ">="]);
        if self.rng.chance(1, 6) {
            format!("({} % 3)", a)
        } else {
            format!("{} {} {}", a, op, b)
        }
    }
    fn cond(&mut self, vars: &[String], depth: u32) -> String {
        match if depth == 0 { 0 } else { self.rng.below(5) } {
            1 => format!("{} && {}", self.cond(vars, depth - 1), self.cond(vars, depth - 1)),
            2 => format!("({} || {})", self.cond(vars, depth - 1), self.cond(vars, depth - 1)),
            3 => format!("!({})", self.cond(vars, depth - 1)),
            _ => self.cmp(vars),
        }
    }
    fn expr(&mut self, vars: &[String], fidx: usize) -> String {
        match self.rng.below(7) {
            0 => {
                let c = self.cond(vars, 1);
                format!("({} ? {} : {})", c, self.atom(vars), self.atom(vars))
            }
            1 if fidx > 0 => {
                let callee = self.rng.below(fidx as u64);
                format!("f{}({}, {})", callee, self.atom(vars), self.atom(vars))
            }
            2 if self.calls_helper => format!("helper({})", self.atom(vars)),
            3 => format!("({} + {})", self.atom(vars), self.atom(vars)),
            _ => self.atom(vars),
        }
    }
    fn simple(&mut self, vars: &[String], fidx: usize) -> String {
        let e = self.expr(vars, fidx);
        match self.rng.below(5) {
            0 => "g++;".to_string(),
            1 => format!("r = (r + {}) % 1000;", e),
            4 if self.one_line == 0 => match self.rng.below(4) {
                // statements spread over several lines whose code comes back to the first line:
                // the block lists that line twice (A, B, A) and llvm-cov counts it once per listing
                0 => format!("r = (r +\n    {}) % 1000;", e),
                1 => format!("r = mix3(r,\n    mix3({}, 2, 0),\n    1) % 1000;", e),
                2 => format!("r = mix3(r,\n    {},\n    g) % 1000;", e),
                _ => format!("r = (r *\n    3 +\n    {}) % 997;", e),
            },
            2 => format!("r = ({} * 3 + r) % 997;", e),
            _ => format!("r += {} > 2;", e),
        }
    }
    fn block(&mut self, vars: &mut Vec<String>, depth: u32, fidx: usize, in_loop: bool) {
        let n = self.rng.range(1, 3);
        for _ in 0..n {
            self.stmt(vars, depth, fidx, in_loop);
        }
    }
    fn stmt(&mut self, vars: &mut Vec<String>, depth: u32, fidx: usize, in_loop: bool) {
        let k = if depth == 0 { self.rng.below(3) } else { self.rng.below(15) };
        // now and then a whole compound statement (with the loops inside it) sits on one line
        let squeeze = k >= 3 && k < 12 && self.rng.chance(1, 5);
        if squeeze {
            self.one_line += 1;
        }
        self.stmt_k(k, vars, depth, fidx, in_loop);
        if squeeze {
            self.one_line -= 1;
        }
    }
    fn stmt_k(&mut self, k: u64, vars: &mut Vec<String>, depth: u32, fidx: usize, in_loop: bool) {
        match k {
            0 | 1 | 2 => {
                let s = self.simple(vars, fidx);
                self.emit(&s);
            }
            3 | 4 => {
                let c = self.cond(vars, 2);
                if self.rng.chance(1, 3) {
                    // one-line if/else
                    let s1 = self.simple(vars, fidx);
                    let s2 = self.simple(vars, fidx);
                    if self.rng.chance(1, 2) {
                        self.emit(&format!("if ({}) {} else {}", c, s1, s2));
                    } else {
                        self.emit(&format!("if ({}) {}", c, s1));
                    }
                } else {
                    self.emit(&format!("if ({}) {{", c));
                    self.block(vars, depth - 1, fidx, in_loop);
                    if self.rng.chance(1, 2) {
                        self.emit("} else {");
                        self.block(vars, depth - 1, fidx, in_loop);
                    } else if self.rng.chance(1, 4) {
                        let c2 = self.cond(vars, 1);
                        self.emit(&format!("}} else if ({}) {{", c2));
                        self.block(vars, depth - 1, fidx, in_loop);
                    }
                    self.emit("}");
                }
            }
            5 => {
                self.uniq += 1;
                let v = format!("i{}", self.uniq);
                let bound = format!("({} % 4) + {}", self.atom(vars), self.rng.below(3));
                self.emit(&format!("for (int {v} = 0; {v} < {bound}; {v}++) {{", v = v, bound = bound));
                vars.push(v.clone());
                self.block(vars, depth - 1, fidx, true);
                vars.pop();
                self.emit("}");
            }
            6 => {
                self.uniq += 1;
                let v = format!("w{}", self.uniq);
                let a0 = self.atom(vars);
                self.emit(&format!("{{ int {} = {} % 4;", v, a0));
                self.emit(&format!("while ({}-- > 0) {{", v));
                vars.push(v.clone());
                self.block(vars, depth - 1, fidx, true);
                vars.pop();
                self.emit("} }");
            }
            7 => {
                self.uniq += 1;
                let v = format!("d{}", self.uniq);
                self.emit(&format!("{{ int {} = 0; do {{", v));
                vars.push(v.clone());
                self.block(vars, depth - 1, fidx, true);
                vars.pop();
                let a0 = self.atom(vars);
                self.emit(&format!("}} while (++{v} < ({a} % 3)); }}", v = v, a = a0));
            }
            8 => {
                let e = self.atom(vars);
                self.emit(&format!("switch (({} + r) % 4) {{", e));
                let ncase = self.rng.range(1, 3);
                for c in 0..ncase {
                    self.emit(&format!("case {}:", c));
                    self.block(vars, depth - 1, fidx, in_loop);
                    if self.rng.chance(2, 3) {
                        self.emit("break;");
                    }
                }
                if self.rng.chance(2, 3) {
                    self.emit("default:");
                    self.block(vars, depth - 1, fidx, in_loop);
                }
                self.emit("}");
            }
            9 => {
                let c = self.cond(vars, 1);
                self.emit(&format!("if ({}) return r;", c));
            }
            10 if in_loop => {
                let c = self.cond(vars, 1);
                let w = if self.rng.chance(1, 2) { "break" } else { "continue" };
                self.emit(&format!("if ({}) {};", c, w));
            }
            12 | 13 | 14 => {
                let l = self.circuit_line(vars);
                self.flush();
                // the next statements may still land on the same line
                self.cur = l;
            }
            _ => {
                let s = self.simple(vars, fidx);
                self.emit(&s);
            }
        }
    }

    /// One source line that holds a complete circuit with two paths through it (loop whose body
    /// has an if/else, nested loops, a switch in a loop, the same through a macro), followed by
    /// one more statement on the same line: the multi-block line rule and the cycle search of
    /// `get_line_count` (`look_for_circuit`/`unblock`) decide its count.
    fn circuit_line(&mut self, vars: &[String]) -> String {
        self.uniq += 1;
        let u = self.uniq;
        let x = self.atom(vars);
        let y = self.atom(vars);
        let k = self.rng.below(5);
        match self.rng.below(12) {
            0 => format!(
                "{{ unsigned v{u} = (unsigned)({x} * 7 + {y} + {k}) & 63u; int p{u} = 0, q{u} = 0; do {{ if (v{u} & 1u) p{u}++; else q{u}++; v{u} >>= 1; }} while (v{u}); r = (r + p{u} * 3 + q{u}) % 1000; }} g++;",
                u = u, x = x, y = y, k = k
            ),
            1 => format!(
                "{{ unsigned v{u} = (unsigned)({x} * 5 + {y} + {k}) & 31u; int p{u} = 0, q{u} = 0; CNT(v{u}, p{u}, q{u}); r = (r + p{u} + 2 * q{u}) % 1000; }} g++;",
                u = u, x = x, y = y, k = k
            ),
            2 => format!(
                "for (int i{u} = 0; i{u} < ({x} % 5) + 2; i{u}++) {{ if ((i{u} + {y}) & 1) r = (r + 2) % 1000; else g++; }} r = (r + 1) % 1000;",
                u = u, x = x, y = y
            ),
            3 => format!(
                "{{ int w{u} = ({x} % 4) + 3; while (w{u}-- > 0) {{ if ((w{u} + {y}) % 3 == 0) continue; if (w{u} & 1) g++; else r = (r + w{u}) % 1000; }} }} g++;",
                u = u, x = x, y = y
            ),
            4 => format!(
                "for (int i{u} = 0; i{u} < ({x} % 3) + 2; i{u}++) for (int j{u} = 0; j{u} < ({y} % 3) + 1; j{u}++) {{ if ((i{u} ^ j{u}) & 1) r = (r + 1) % 1000; else g++; }} g++;",
                u = u, x = x, y = y
            ),
            5 => format!(
                "for (int i{u} = 0; i{u} < ({x} % 4) + 3; i{u}++) {{ switch ((i{u} + {y}) % 3) {{ case 0: r = (r + 1) % 1000; break; case 1: g++; default: r = (r + 2) % 1000; }} }} g++;",
                u = u, x = x, y = y
            ),
            6 => format!(
                "{{ int d{u} = 0; do {{ if ((d{u} + {x}) & 1) {{ g++; if (d{u} > 1) break; }} else r = (r + d{u}) % 1000; }} while (++d{u} < ({y} % 4) + 2); }} r = (r + 1) % 1000;",
                u = u, x = x, y = y
            ),
            7 => format!(
                "for (int i{u} = 0; i{u} < ({x} % 3) + 2; i{u}++) {{ int w{u} = i{u} + 1; while (w{u}-- > 0) {{ if ((w{u} + {y}) & 1) g++; else r = (r + 1) % 1000; }} }} g++;",
                u = u, x = x, y = y
            ),
            // loops with two entries (irreducible): the cycle search needs its block lists
            8 => format!(
                "{{ int n{u} = ({x} % 4) + 2; switch ({y} & 1) {{ case 0: do {{ r = (r + 1) % 1000; case 1: g++; }} while (--n{u} > 0); }} }} g++;",
                u = u, x = x, y = y
            ),
            9 => format!(
                "{{ int n{u} = ({x} % 4) + 2; if ({y} & 1) goto M{u}; T{u}: r = (r + 1) % 1000; M{u}: g++; if (--n{u} > 0) goto T{u}; }} g++;",
                u = u, x = x, y = y
            ),
            10 => format!(
                "{{ int n{u} = ({x} % 3) + 2, m{u} = ({y} % 3) + 2; if ({y} & 2) goto B{u}; A{u}: r = (r + 1) % 1000; if (n{u}-- > 0) goto B{u}; goto E{u}; B{u}: g++; if (m{u}-- > 0) goto A{u}; if (n{u}-- > 0) goto B{u}; E{u}: g++; }} g++;",
                u = u, x = x, y = y
            ),
            _ => format!(
                "{{ int n{u} = ({x} % 3) + 3; switch (({y} + {k}) % 3) {{ case 0: while (n{u}-- > 0) {{ r = (r + 1) % 1000; case 1: if (n{u} & 1) g++; else {{ case 2: r = (r + 2) % 1000; }} }} }} }} g++;",
                u = u, x = x, y = y, k = k
            ),
        }
    }
}

/// a multi-statement macro invoked on one line
const CNT_MACRO: &str = "#define CNT(v, p, q) do { if ((v) & 1u) (p)++; else (q)++; (v) >>= 1; } while (v)";

/// every one-line circuit shape in one fixed program (compiled and compared first on every run)
const CIRCUIT_PROG: &str = "#include <stdlib.h>\nint g;\n#define CNT(v, p, q) do { if ((v) & 1u) (p)++; else (q)++; (v) >>= 1; } while (v)\nint f0(int a, int b) {\n  int r = 0;\n  { unsigned v = (unsigned)(a * 7 + b + 3) & 63u; int p = 0, q = 0; do { if (v & 1u) p++; else q++; v >>= 1; } while (v); r = (r + p * 3 + q) % 1000; } g++;\n  { unsigned v = (unsigned)(a * 5 + b) & 31u; int p = 0, q = 0; CNT(v, p, q); r = (r + p + 2 * q) % 1000; } g++;\n  for (int i = 0; i < (a % 5) + 2; i++) { if ((i + b) & 1) r = (r + 2) % 1000; else g++; } r = (r + 1) % 1000;\n  { int w = (a % 4) + 3; while (w-- > 0) { if ((w + b) % 3 == 0) continue; if (w & 1) g++; else r = (r + w) % 1000; } } g++;\n  return r;\n}\nint f1(int a, int b) {\n  int r = 0;\n  for (int i = 0; i < (a % 3) + 2; i++) for (int j = 0; j < (b % 3) + 1; j++) { if ((i ^ j) & 1) r = (r + 1) % 1000; else g++; } g++;\n  for (int i = 0; i < (a % 4) + 3; i++) { switch ((i + b) % 3) { case 0: r = (r + 1) % 1000; break; case 1: g++; default: r = (r + 2) % 1000; } } g++;\n  { int d = 0; do { if ((d + a) & 1) { g++; if (d > 1) break; } else r = (r + d) % 1000; } while (++d < (b % 4) + 2); } r = (r + 1) % 1000;\n  for (int i = 0; i < (a % 3) + 2; i++) { int w = i + 1; while (w-- > 0) { if ((w + b) & 1) g++; else r = (r + 1) % 1000; } } g++;\n  { int n = (a % 4) + 2; switch (b & 1) { case 0: do { r = (r + 1) % 1000; case 1: g++; } while (--n > 0); } } g++;\n  { int n = (b % 4) + 2; if (a & 1) goto M1; T1: r = (r + 1) % 1000; M1: g++; if (--n > 0) goto T1; } g++;\n  { int n = (a % 3) + 2, m = (b % 3) + 2; if (b & 2) goto B2; A2: r = (r + 1) % 1000; if (n-- > 0) goto B2; goto E2; B2: g++; if (m-- > 0) goto A2; if (n-- > 0) goto B2; E2: g++; } g++;\n  { int n = (a % 3) + 3; switch ((b + 1) % 3) { case 0: while (n-- > 0) { r = (r + 1) % 1000; case 1: if (n & 1) g++; else { case 2: r = (r + 2) % 1000; } } } } g++;\n  return r;\n}\nint main(int argc, char **argv) {\n  int a = argc > 1 ? atoi(argv[1]) : 0; int b = argc > 2 ? atoi(argv[2]) : 0;\n  int r = f0(a, b); if (a != 4) r += f1(b, a); for (int i = 0; i < 3; i++) { if ((i + a) & 1) r += f0(i, b) & 1; else g++; } g++;\n  return (r + g) & 1;\n}\n";


pub struct Program {
    pub main_c: String,
    pub inc_h: String,
}

/// One-line function bodies with labels at random statements and fuel-bounded guarded gotos to
/// random labels (jumps into loop bodies give loops with several entries), after the reference
/// generator in corpus/goto_fuzz_reference.py.
struct GotoGen<'a> {
    rng: &'a mut Rng,
    labels: u32,
}

impl<'a> GotoGen<'a> {
    fn cond(&mut self) -> String {
        format!("(x=x*1103515245u+12345u,(x>>16)&{})", *self.rng.pick(&[1, 1, 3, 2]))
    }
    fn stmts(&mut self, depth: u32, inloop: bool) -> String {
        let n = self.rng.range(1, 3);
        (0..n).map(|_| self.stmt(depth, inloop)).collect()
    }
    fn stmt(&mut self, depth: u32, inloop: bool) -> String {
        let k = self.rng.below(100);
        let mut pre = String::new();
        if self.rng.chance(1, 4) {
            self.labels += 1;
            pre = format!("L{}: ", self.labels);
        }
        if depth == 0 || k < 25 {
            return pre + "s++;";
        }
        let d = depth - 1;
        if k < 40 {
            let c = self.cond();
            return format!("{}if({}){{{}}}else{{{}}}", pre, c, self.stmts(d, inloop), self.stmts(d, inloop));
        }
        if k < 50 {
            let c = self.cond();
            return format!("{}if({}){{{}}}", pre, c, self.stmts(d, inloop));
        }
        if k < 65 {
            let n = self.rng.range(1, 3);
            return format!("{}for(i=0;i<{}&&fuel-->0;i++){{{}}}", pre, n, self.stmts(d, true));
        }
        if k < 78 {
            let c = self.cond();
            return format!("{}while({}&&fuel-->0){{{}}}", pre, c, self.stmts(d, true));
        }
        if k < 86 {
            let b = self.stmts(d, true);
            return format!("{}do{{{}}}while({}&&fuel-->0);", pre, b, self.cond());
        }
        if k < 91 && inloop {
            return format!("{}if({})continue;", pre, self.cond());
        }
        if k < 96 && inloop {
            return format!("{}if({})break;", pre, self.cond());
        }
        format!("{}if({}&&fuel-->0)goto @;", pre, self.cond())
    }
    /// the text of `int NAME(unsigned x) { … }` with the body on one line
    fn function(&mut self, name: &str) -> String {
        let depth = self.rng.range(2, 4) as u32;
        let mut body = self.stmts(depth, false);
        if self.labels == 0 {
            body = body.replace("goto @;", "s+=3;");
        } else {
            while let Some(p) = body.find('@') {
                let l = self.rng.range(1, self.labels as u64);
                body.replace_range(p..p + 1, &format!("L{}", l));
            }
        }
        format!("int {}(unsigned x)\n{{ int s=0,i=0,fuel=40; {} return s+i; }}", name, body)
    }
}

fn gen_program(rng: &mut Rng) -> Program {
    let nfun = rng.range(1, 3) as usize;
    let mut g = PGen { rng, lines: vec![], cur: String::new(), nfun, uniq: 0, calls_helper: true, one_line: 0 };
    g.nl("#include <stdlib.h>");
    g.nl("int g;");
    g.nl(CNT_MACRO);
    g.nl("static int mix3(int a, int b, int c) { return (a + b + c) & 1023; }");
    g.nl("#include \"inc.h\"");
    for f in 0..g.nfun {
        if g.rng.chance(1, 2) {
            g.nl(&format!("int f{}(int a, int b) {{", f));
        } else {
            g.nl(&format!("int f{}(int a, int b)", f));
            g.nl("{");
        }
        g.nl("  int r = 0;");
        let mut vars = vec!["a".to_string(), "b".to_string(), "r".to_string()];
        let depth = g.rng.range(1, 3) as u32;
        let n = g.rng.range(2, 5);
        let whole = g.rng.chance(1, 8);
        if whole {
            g.one_line += 1;
        }
        for _ in 0..n {
            g.stmt(&mut vars, depth, f, false);
        }
        if whole {
            g.one_line -= 1;
        }
        if g.rng.chance(2, 3) {
            g.stmt_k(12, &mut vars, depth, f, false);
        }
        g.flush();
        if g.rng.chance(1, 3) {
            g.nl("  return r; }");
        } else {
            g.nl("  return r;");
            g.nl("}");
        }
        if g.rng.chance(1, 2) {
            g.nl("");
        }
    }
    // a goto-style function (labels, guarded jumps into loop bodies), called a few times
    let goto_calls: Vec<u64> = if g.rng.chance(1, 2) {
        let text = {
            let mut gg = GotoGen { rng: &mut *g.rng, labels: 0 };
            gg.function("fz")
        };
        for l in text.lines() {
            g.nl(l);
        }
        let k = g.rng.range(1, 5);
        (0..k).map(|_| g.rng.below(1 << 30)).collect()
    } else {
        vec![]
    };
    g.nl("int main(int argc, char **argv) {");
    g.nl("  int a = argc > 1 ? atoi(argv[1]) : 0; int b = argc > 2 ? atoi(argv[2]) : 0;");
    g.nl("  int r = 0;");
    for sd in &goto_calls {
        g.nl(&format!("  r += fz((unsigned)a * 2654435761u + (unsigned)b * 40503u + {}u) & 1;", sd));
    }
    let mut vars = vec!["a".to_string(), "b".to_string(), "r".to_string()];
    let nf = g.nfun;
    for f in 0..nf {
        match g.rng.below(4) {
            0 => {} // never called from main
            1 => {
                let c = g.cond(&vars, 1);
                g.emit(&format!("if ({}) r += f{}(a, b);", c, f));
            }
            _ => g.emit(&format!("r += f{}(b, a);", f)),
        }
    }
    let n = g.rng.range(2, 4);
    for _ in 0..n {
        g.stmt(&mut vars, 2, nf, false);
    }
    if g.rng.chance(1, 2) {
        g.stmt_k(12, &mut vars, 2, nf, false);
    }
    g.flush();
    g.nl("  return (r + g) & 1;");
    g.nl("}");
    let main_c = g.lines.join("\n") + "\n";

    // the header: a function defined in an included file
    let mut h = PGen { rng: g.rng, lines: vec![], cur: String::new(), nfun: 0, uniq: 100, calls_helper: false, one_line: 0 };
    h.nl("/* included header */");
    h.nl("static int helper(int a) {");
    h.nl("  int b = a + 1, r = 0;");
    let mut vars = vec!["a".to_string(), "b".to_string(), "r".to_string()];
    h.stmt(&mut vars, 1, 0, false);
    h.stmt(&mut vars, 1, 0, false);
    h.flush();
    h.nl("  return r;");
    h.nl("}");
    if h.rng.chance(1, 2) {
        h.nl("static int helper2(int a) { if (a > 1) return a; return -a; }");
        h.nl("int use_helper2(int a) { return helper2(a); }");
    }
    let inc_h = h.lines.join("\n") + "\n";
    Program { main_c, inc_h }
}

// ---------------------------------------------------------------------------------------------
// independent reader of `llvm-cov gcov` text output

#[derive(Default, Debug, Clone, PartialEq)]
struct GcovFile {
    /// line -> count (instrumented lines only)
    lines: BTreeMap<u32, u64>,
    /// function -> called count
    funcs: BTreeMap<String, u64>,
}

fn parse_gcov_text(text: &str) -> Option<(String, GcovFile)> {
    let mut source = None;
    let mut f = GcovFile::default();
    for line in text.lines() {
        if let Some(rest) = line.strip_prefix("function ") {
            // function NAME called N returned …
            let mut it = rest.split(" called ");
            let name = it.next()?.to_string();
            let n: u64 = it.next()?.split(' ').next()?.parse().ok()?;
            *f.funcs.entry(name).or_insert(0) += n;
            continue;
        }
        if line.starts_with("branch ") || line.starts_with("call ") || line.starts_with("unconditional ") {
            continue;
        }
        let mut parts = line.splitn(3, ':');
        let (c, l) = (parts.next()?, parts.next()?);
        let rest = parts.next().unwrap_or("");
        let lno: u32 = match l.trim().parse() {
            Ok(n) => n,
            Err(_) => continue,
        };
        if lno == 0 {
            if let Some(s) = rest.strip_prefix("Source:") {
                source = Some(s.to_string());
            }
            continue;
        }
        let c = c.trim().trim_end_matches('*');
        if c == "-" {
            continue;
        }
        let n: u64 = if c == "#####" || c == "=====" { 0 } else { c.parse().ok()? };
        // a line listed several times (should not happen in llvm-cov's output): add
        *f.lines.entry(lno).or_insert(0) += n;
    }
    Some((source?, f))
}

fn of_results(rs: &Results) -> BTreeMap<String, GcovFile> {
    let mut m = BTreeMap::new();
    for (k, c) in rs {
        let mut f = GcovFile::default();
        for (l, n) in &c.lines {
            f.lines.insert(*l, *n);
        }
        for (n, fun) in &c.functions {
            f.funcs.insert(n.clone(), fun.executed as u64);
        }
        m.insert(k.clone(), f);
    }
    m
}

/// Named finding matcher `C08-single-block-line-outflow`: every difference is a line count, and for
/// each differing line every function that lists the line does so in exactly one block occurrence
/// (the `blocks.len() == 1` branch of `add_line_count`), grcov's count is the sum of those blocks'
/// outgoing arc counts (the block counter), llvm-cov's is the sum of their incoming arc counts, and
/// the two differ because the reconstructed flow is not conserved at such a block (LLVM 14 drops
/// the arc and the counter of a split critical edge, so the measured counters are inconsistent).
fn matches_inflow_outflow(
    ours: &BTreeMap<String, GcovFile>,
    theirs: &BTreeMap<String, GcovFile>,
    fns: &[FnDump],
) -> bool {
    if ours.keys().ne(theirs.keys()) {
        return false;
    }
    let mut any = false;
    for (k, o) in ours {
        let t = &theirs[k];
        if o.lines.keys().ne(t.lines.keys()) {
            return false;
        }
        let fo: Vec<(&String, bool)> = o.funcs.iter().map(|(n, c)| (n, *c > 0)).collect();
        let ft: Vec<(&String, bool)> = t.funcs.iter().map(|(n, c)| (n, *c > 0)).collect();
        if fo != ft {
            return false;
        }
        for (l, n) in &o.lines {
            if t.lines[l] == *n {
                continue;
            }
            any = true;
            let (mut inflow, mut outflow, mut broken) = (0u64, 0u64, false);
            for f in fns.iter().filter(|f| &f.file == k) {
                let occ: Vec<&BlockDump> = f
                    .blocks
                    .iter()
                    .flat_map(|b| b.lines.iter().filter(|x| *x == l).map(move |_| b))
                    .collect();
                if occ.len() > 1 {
                    return false;
                }
                // an unexecuted function contributes 0 on both sides
                let executed = f.blocks.first().map(|b| b.outflow > 0).unwrap_or(false);
                for b in occ {
                    if executed {
                        inflow += b.inflow;
                        outflow += b.counter;
                    }
                    broken |= b.inflow != b.outflow;
                }
            }
            if !(broken && outflow == *n && inflow == t.lines[l]) {
                return false;
            }
        }
    }
    any
}

/// Named finding matcher `C08-entry-arc-zero-function-zeroed`: every difference is a line count that
/// grcov reports as 0, and every function that lists the line is reported "not executed" by grcov
/// (the count of its first arc is 0, so `add_line_count`/`finalize` zero all its lines) although
/// some block of that function has a non-zero counter – again only possible when the measured
/// counters are not flow-consistent (LLVM 14, split critical edge).
fn matches_entry_zero(
    ours: &BTreeMap<String, GcovFile>,
    theirs: &BTreeMap<String, GcovFile>,
    fns: &[FnDump],
) -> bool {
    if ours.keys().ne(theirs.keys()) {
        return false;
    }
    let mut any = false;
    for (k, o) in ours {
        let t = &theirs[k];
        if o.lines.keys().ne(t.lines.keys()) {
            return false;
        }
        for (l, n) in &o.lines {
            if t.lines[l] == *n {
                continue;
            }
            any = true;
            if *n != 0 {
                return false;
            }
            let owners: Vec<&FnDump> =
                fns.iter().filter(|f| &f.file == k && f.blocks.iter().any(|b| b.lines.contains(l))).collect();
            if owners.is_empty()
                || !owners.iter().all(|f| {
                    f.blocks.first().map(|b| b.outflow == 0).unwrap_or(false)
                        && f.blocks.iter().any(|b| b.counter > 0 || b.inflow > 0)
                })
            {
                return false;
            }
        }
        // executed flags may differ only for such functions: not compared here (llvm-cov's
        // "called" is the same first-arc count)
        let fo: Vec<(&String, bool)> = o.funcs.iter().map(|(n, c)| (n, *c > 0)).collect();
        let ft: Vec<(&String, bool)> = t.funcs.iter().map(|(n, c)| (n, *c > 0)).collect();
        if fo != ft {
            return false;
        }
    }
    any
}

/// distribution of the lines whose counts were compared with llvm-cov: how many needed the
/// multi-block rule, how many of those hold a circuit, an executed circuit, two executed paths
fn count_line_shapes(
    rep: &mut Report,
    stream: &str,
    ours: &BTreeMap<String, GcovFile>,
    theirs: &BTreeMap<String, GcovFile>,
    fns: &[FnDump],
) {
    for (k, o) in ours {
        let Some(t) = theirs.get(k) else { continue };
        for (l, n) in &o.lines {
            let Some(tn) = t.lines.get(l) else { continue };
            rep.count(&format!("{}.lines.compared", stream));
            let mut sh = LineShape::default();
            for f in fns.iter().filter(|f| &f.file == k) {
                let s = f.line_shape(*l);
                if s.blocks >= 2 {
                    sh.blocks = sh.blocks.max(s.blocks);
                    sh.cycle |= s.cycle;
                    sh.executed_cycle |= s.executed_cycle;
                    sh.two_paths |= s.two_paths;
                }
            }
            if sh.blocks >= 2 {
                rep.count(&format!("{}.lines.multi_block", stream));
                if sh.cycle {
                    rep.count(&format!("{}.lines.multi_block_with_cycle", stream));
                }
                if sh.executed_cycle {
                    rep.count(&format!("{}.lines.multi_block_with_executed_cycle", stream));
                }
                if fns.iter().any(|f| &f.file == k && f.line_irreducible(*l)) {
                    rep.count(&format!("{}.lines.multi_block_irreducible", stream));
                    if tn == n {
                        rep.count(&format!("{}.lines.multi_block_irreducible.equal_to_llvm_cov", stream));
                    }
                }
                if sh.two_paths {
                    rep.count(&format!("{}.lines.multi_block_cycle_two_executed_paths", stream));
                    if tn == n {
                        rep.count(&format!("{}.lines.multi_block_cycle_two_executed_paths.equal_to_llvm_cov", stream));
                    }
                }
            }
        }
    }
}

/// Named finding matcher `C08-irreducible-line-cycles`: every difference is the count of a line
/// whose blocks, in some function, contain a loop with two entries (irreducible region), and
/// grcov's count is below llvm-cov's. There
/// the decomposition of the arc counts into circuits is not unique: grcov enumerates elementary
/// circuits (`look_for_circuit`, the algorithm of gcc's gcov), llvm-cov 12+ cancels cycles found
/// by depth-first search, and the two sums can differ. (Structured C gives reducible graphs; a
/// `goto` or a `case` label inside a loop body can produce such a region.)
fn matches_irreducible(
    ours: &BTreeMap<String, GcovFile>,
    theirs: &BTreeMap<String, GcovFile>,
    fns: &[FnDump],
    nets: Option<&[records::FnNet]>,
) -> bool {
    if ours.keys().ne(theirs.keys()) {
        return false;
    }
    let mut any = false;
    for (k, o) in ours {
        let t = &theirs[k];
        if o.lines.keys().ne(t.lines.keys()) {
            return false;
        }
        let fo: Vec<(&String, bool)> = o.funcs.iter().map(|(n, c)| (n, *c > 0)).collect();
        let ft: Vec<(&String, bool)> = t.funcs.iter().map(|(n, c)| (n, *c > 0)).collect();
        if fo != ft {
            return false;
        }
        for (l, n) in &o.lines {
            if t.lines[l] == *n {
                continue;
            }
            any = true;
            if !(*n < t.lines[l] && fns.iter().any(|f| &f.file == k && f.line_irreducible(*l))) {
                return false;
            }
            match nets {
                // llvm-cov's number must be exactly what its cycle cancelling (depth-first search in
                // the successor order of the notes) gives on the arc counts grcov recovered
                Some(ns) => {
                    if records::llvm_count(ns, k.as_bytes(), *l) != Some(t.lines[l]) {
                        return false;
                    }
                }
                // the arcs cannot be identified (parallel arcs with different counts): the
                // difference is at least bounded by the flow inside the line's blocks
                None => {
                    let inside: u128 = fns
                        .iter()
                        .filter(|f| &f.file == k)
                        .map(|f| {
                            let set: Vec<usize> = (0..f.blocks.len()).filter(|&i| f.blocks[i].lines.contains(l)).collect();
                            set.iter().map(|&b| f.blocks[b].succ.iter().filter(|x| set.contains(&x.0)).map(|x| x.1 as u128).sum::<u128>()).sum::<u128>()
                        })
                        .sum();
                    if (t.lines[l] - *n) as u128 > inside {
                        return false;
                    }
                }
            }
        }
    }
    any
}

fn classify(
    ours: &BTreeMap<String, GcovFile>,
    theirs: &BTreeMap<String, GcovFile>,
    fns: &[FnDump],
    nets: Option<&[records::FnNet]>,
) -> Option<&'static str> {
    if matches_irreducible(ours, theirs, fns, nets) {
        Some("C08-irreducible-line-cycles")
    } else if matches_inflow_outflow(ours, theirs, fns) {
        Some("C08-single-block-line-outflow")
    } else if matches_entry_zero(ours, theirs, fns) {
        Some("C08-entry-arc-zero-function-zeroed")
    } else {
        None
    }
}

fn diff_gcov(ours: &BTreeMap<String, GcovFile>, theirs: &BTreeMap<String, GcovFile>) -> Option<String> {
    let ko: Vec<&String> = ours.keys().collect();
    let kt: Vec<&String> = theirs.keys().collect();
    if ko != kt {
        return Some(format!("files differ: grcov {:?} / llvm-cov {:?}", ko, kt));
    }
    for (k, o) in ours {
        let t = &theirs[k];
        let lo: Vec<&u32> = o.lines.keys().collect();
        let lt: Vec<&u32> = t.lines.keys().collect();
        if lo != lt {
            return Some(format!("{}: instrumented lines differ: grcov {:?} / llvm-cov {:?}", k, lo, lt));
        }
        for (l, n) in &o.lines {
            if t.lines[l] != *n {
                return Some(format!("{}:{}: count grcov {} / llvm-cov {}", k, l, n, t.lines[l]));
            }
        }
        let fo: Vec<(&String, bool)> = o.funcs.iter().map(|(n, c)| (n, *c > 0)).collect();
        let ft: Vec<(&String, bool)> = t.funcs.iter().map(|(n, c)| (n, *c > 0)).collect();
        if fo != ft {
            return Some(format!("{}: functions/executed flags differ: grcov {:?} / llvm-cov {:?}", k, fo, ft));
        }
    }
    None
}

// ---------------------------------------------------------------------------------------------

/// run to completion (5 s limit); false when the program was killed by a signal or timed out
fn run_in(dir: &Path, prog: &str, args: &[String]) -> bool {
    let mut child = match Command::new(prog)
        .args(args)
        .current_dir(dir)
        .stdout(std::process::Stdio::null())
        .stderr(std::process::Stdio::null())
        .spawn()
    {
        Ok(c) => c,
        Err(_) => return false,
    };
    let t0 = std::time::Instant::now();
    loop {
        match child.try_wait() {
            Ok(Some(st)) => return st.code().is_some(),
            Ok(None) => {
                if t0.elapsed().as_secs() >= 5 {
                    let _ = child.kill();
                    let _ = child.wait();
                    return false;
                }
                std::thread::sleep(std::time::Duration::from_millis(2));
            }
            Err(_) => return false,
        }
    }
}

pub struct Compiled {
    pub dir: PathBuf,
    /// the `-coverage-version` the program was compiled with (None = clang's default, 408*)
    pub version: Option<String>,
    gcno: Vec<u8>,
    /// one gcda per run
    singles: Vec<Vec<u8>>,
    /// the gcda accumulated over all runs (None when there was no run)
    merged: Option<Vec<u8>>,
    gcov: BTreeMap<String, GcovFile>,
}

fn build_and_run(dir: &Path, p: &Program, profiles: &[Vec<String>]) -> Result<Compiled, String> {
    build_and_run_v(dir, p, profiles, None)
}

/// the gcov format versions grcov accepts as LLVM output, as clang spells them: the usual ones and
/// every threshold the reader tests (47, 48, 80, 90) with its two neighbours – 406*/407*/408*/409*,
/// 709*/800*/801*, A89*/A90*/A91* (and 900*, the digit spelling of 90)
pub const COVERAGE_VERSIONS: &[&str] = &[
    "402*", "407*", "408*", "800*", "A93*", "B01*", "406*", "409*", "709*", "801*", "A89*", "A90*", "A91*", "900*",
];

fn build_and_run_v(dir: &Path, p: &Program, profiles: &[Vec<String>], version: Option<&str>) -> Result<Compiled, String> {
    let _ = std::fs::remove_dir_all(dir);
    std::fs::create_dir_all(dir).map_err(|e| e.to_string())?;
    std::fs::write(dir.join("prog.c"), &p.main_c).map_err(|e| e.to_string())?;
    std::fs::write(dir.join("inc.h"), &p.inc_h).map_err(|e| e.to_string())?;
    let mut args: Vec<String> = ["--coverage", "-O0", "-w", "prog.c", "-o", "prog"].iter().map(|s| s.to_string()).collect();
    if let Some(v) = version {
        args.push("-Xclang".into());
        args.push(format!("-coverage-version={}", v));
    }
    let out = Command::new("clang-14")
        .args(&args)
        .current_dir(dir)
        .output()
        .map_err(|e| format!("clang-14: {}", e))?;
    if !out.status.success() {
        return Err(format!("clang-14 failed: {}", String::from_utf8_lossy(&out.stderr)));
    }
    let gcno = std::fs::read(dir.join("prog.gcno")).map_err(|e| e.to_string())?;
    let exe = dir.join("prog");
    let exe = exe.to_str().unwrap();
    let gcda_path = dir.join("prog.gcda");
    let mut singles = Vec::new();
    for args in profiles {
        let _ = std::fs::remove_file(&gcda_path);
        if !run_in(dir, exe, args) {
            return Err("generated program crashed".into());
        }
        singles.push(std::fs::read(&gcda_path).map_err(|e| format!("no gcda after a run: {}", e))?);
    }
    let _ = std::fs::remove_file(&gcda_path);
    for args in profiles {
        run_in(dir, exe, args);
    }
    let merged = std::fs::read(&gcda_path).ok();
    let target = if merged.is_some() { "prog.gcda" } else { "prog.gcno" };
    let out = Command::new("llvm-cov-14")
        .args(["gcov", "-b", target])
        .current_dir(dir)
        .output()
        .map_err(|e| format!("llvm-cov-14: {}", e))?;
    if !out.status.success() {
        return Err(format!("llvm-cov-14 gcov failed: {}", String::from_utf8_lossy(&out.stderr)));
    }
    let mut gcov = BTreeMap::new();
    let mut names: Vec<PathBuf> = std::fs::read_dir(dir)
        .map_err(|e| e.to_string())?
        .filter_map(|e| e.ok())
        .map(|e| e.path())
        .filter(|p| p.extension().map(|e| e == "gcov").unwrap_or(false))
        .collect();
    names.sort();
    for n in names {
        let text = String::from_utf8_lossy(&std::fs::read(&n).map_err(|e| e.to_string())?).to_string();
        match parse_gcov_text(&text) {
            Some((src, f)) => {
                gcov.insert(src, f);
            }
            None => return Err(format!("cannot read {}", n.display())),
        }
    }
    Ok(Compiled { dir: dir.to_path_buf(), version: version.map(|v| v.to_string()), gcno, singles, merged, gcov })
}

/// minimised witness of finding C08-single-block-line-outflow (replayed first on every run)
const WITNESS_PROG: &str = "#include <stdlib.h>\nint main(int argc, char **argv) {\n  int a = argc > 1 ? atoi(argv[1]) : 0; int r = 0;\n  if ((r == 0 && a > a) || 4 > a) {\n    r++;\n  } r += 2;\n  return r & 1;\n}\n";

fn compiled_stream(rep: &mut Report, rng: &mut Rng, reqs: &mut Vec<String>, pend: &mut Vec<(String, Value, String)>) {
    {
        let p = Program { main_c: WITNESS_PROG.to_string(), inc_h: "/* unused */\n".to_string() };
        let profiles: Vec<Vec<String>> = vec![vec!["1".into()], vec![], vec!["7".into()], vec!["3".into()]];
        let case = json!({"op": "program", "prog_c": p.main_c, "inc_h": p.inc_h, "profiles": profiles, "witness": true});
        if let Ok(c) = build_and_run(&rep.workdir.join("witness"), &p, &profiles) {
            rep.count("program.witness");
            check_compiled(rep, &c, &case, reqs, pend, false);
        }
    }
    // confirmed witnesses of finding C08-irreducible-line-cycles (clang-compiled programs)
    for (name, src) in [
        ("irreducible_14113", include_str!(concat!(env!("CARGO_MANIFEST_DIR"), "/corpus/irreducible_14113.c"))),
        ("irreducible_14150", include_str!(concat!(env!("CARGO_MANIFEST_DIR"), "/corpus/irreducible_14150.c"))),
    ] {
        let p = Program { main_c: src.to_string(), inc_h: "/* unused */\n".to_string() };
        let profiles: Vec<Vec<String>> = vec![vec![]];
        let case = json!({"op": "program", "prog_c": p.main_c, "inc_h": p.inc_h, "profiles": profiles, "corpus": name});
        match build_and_run(&rep.workdir.join(name), &p, &profiles) {
            Ok(c) => {
                rep.count("program.corpus_irreducible");
                check_compiled(rep, &c, &case, reqs, pend, false);
            }
            Err(e) => rep.notes.push(format!("corpus program {} not run: {}", name, e)),
        }
    }
    {
        let p = Program { main_c: CIRCUIT_PROG.to_string(), inc_h: "/* unused */\n".to_string() };
        let profiles: Vec<Vec<String>> = [["5", "2"], ["0", "7"], ["4", "9"], ["13", "6"]]
            .iter()
            .map(|v| v.iter().map(|s| s.to_string()).collect())
            .collect();
        let case = json!({"op": "program", "prog_c": p.main_c, "inc_h": p.inc_h, "profiles": profiles, "showcase": true});
        match build_and_run(&rep.workdir.join("circuits"), &p, &profiles) {
            Ok(c) => {
                rep.count("program.circuit_showcase");
                check_compiled(rep, &c, &case, reqs, pend, false);
            }
            Err(e) => rep.notes.push(format!("circuit showcase program not run: {}", e)),
        }
    }
    let n = rep.budget(30, 14);
    for i in 0..n {
        let p = gen_program(rng);
        let nprof = rng.below(5) as usize;
        let profiles: Vec<Vec<String>> = (0..nprof)
            .map(|_| {
                let k = rng.below(3);
                (0..k).map(|_| format!("{}", rng.below(16))).collect()
            })
            .collect();
        let dir = rep.workdir.join(format!("p{}", i));
        // the gcov format versions grcov accepts as LLVM output: clang's default and the six spellings
        let ver: Option<&str> = if rng.chance(1, 4) { None } else { Some(*rng.pick(COVERAGE_VERSIONS)) };
        rep.count(&format!("program.coverage_version={}", ver.unwrap_or("default")));
        let case = json!({"op": "program", "prog_c": p.main_c, "inc_h": p.inc_h, "profiles": profiles, "coverage_version": ver});
        let c = match build_and_run_v(&dir, &p, &profiles, ver) {
            Ok(c) => c,
            Err(e) => {
                rep.count("program.skipped");
                rep.notes.push(format!("program {} skipped: {}", i, e.lines().next().unwrap_or("")));
                continue;
            }
        };
        rep.count(&format!("program.runs={}", nprof));
        rep.count_n("program.source_lines", p.main_c.lines().count() as u64);
        check_compiled(rep, &c, &case, reqs, pend, i == 0);
        if !rep.thorough() {
            let _ = std::fs::remove_file(c.dir.join("prog"));
        } else {
            let _ = std::fs::remove_dir_all(&c.dir);
        }
    }
}

fn check_compiled(
    rep: &mut Report,
    c: &Compiled,
    case: &Value,
    reqs: &mut Vec<String>,
    pend: &mut Vec<(String, Value, String)>,
    sample: bool,
) {
    // grcov on one gcda per run, and on the merged gcda
    let mut variants: Vec<(&str, Vec<Vec<u8>>)> = vec![("per-run gcda files", c.singles.clone())];
    if let Some(m) = &c.merged {
        variants.push(("merged gcda", vec![m.clone()]));
    }
    let mut nontrivial = false;
    for (what, ds) in &variants {
        let t0 = std::time::Instant::now();
        let r = run_compute(&c.gcno, ds, true);
        // the circuit enumeration is exponential: where the native code already needs a while,
        // the list-based model would need minutes – such cases are compared with llvm-cov only
        let mut heavy = t0.elapsed().as_millis() > 20;
        {
            // … and the model's counters are function closures (one more layer per update), so a
            // line that lives in very many blocks is slow there as well
            let fd = run_dump(&c.gcno, ds).map(|d| dump_functions(&d)).unwrap_or_default();
            for f in &fd {
                let mut per_line: BTreeMap<u32, usize> = BTreeMap::new();
                for b in &f.blocks {
                    for l in &b.lines {
                        *per_line.entry(*l).or_insert(0) += 1;
                    }
                }
                if per_line.values().any(|&n| n > 130) {
                    heavy = true;
                }
            }
        }
        match &r {
            Ok(rs) => {
                let ours = of_results(rs);
                nontrivial |= ours.values().any(|f| f.lines.values().any(|&n| n > 0));
                for f in ours.values() {
                    rep.count_n("program.instrumented_lines", f.lines.len() as u64);
                    rep.count_n("program.functions", f.funcs.len() as u64);
                }
                let fns = run_dump(&c.gcno, ds).map(|d| dump_functions(&d)).unwrap_or_default();
                if *what == "per-run gcda files" {
                    count_line_shapes(rep, "program", &ours, &c.gcov, &fns);
                }
                let notes = decode_gcno(&c.gcno);
                let nets = notes.as_ref().and_then(|n| records::nets(n, &fns));
                // the instrumented lines over the LINES records (Props/C08Records.lean): llvm-cov
                // reports exactly the listed lines; grcov the listed lines that pass the range test
                let mut dropped = records::Listed::new();
                if let Some(n) = &notes {
                    let to_sets = |m: &BTreeMap<String, GcovFile>| -> records::Listed {
                        m.iter().filter(|(_, f)| !f.lines.is_empty()).map(|(k, f)| (k.as_bytes().to_vec(), f.lines.keys().copied().collect())).collect()
                    };
                    if *what == "per-run gcda files" {
                        rep.count("program.listed.checked");
                        if to_sets(&c.gcov) != records::listed(n, false) {
                            let mut cj = case.clone();
                            cj["variant"] = json!(what);
                            rep.fail("oracle", None, format!("llvm-cov gcov's instrumented lines are not the lines the LINES records list (reference semantics `listedRef`): {:?} / {:?}",
                                to_sets(&c.gcov), records::listed(n, false)), cj);
                        }
                        if to_sets(&ours) != records::listed_kept(n) {
                            let mut cj = case.clone();
                            cj["variant"] = json!(what);
                            rep.fail("oracle", None, format!("Gcno::compute's instrumented lines are not the listed lines within the functions' ranges (`listedKept`): {:?} / {:?}",
                                to_sets(&ours), records::listed_kept(n)), cj);
                        }
                    }
                    dropped = records::range_dropped(n);
                }
                if let Some(d) = diff_gcov(&ours, &c.gcov) {
                    let mut cj = case.clone();
                    cj["variant"] = json!(what);
                    // format >= 8: the lines `read_lines` drops because they lie outside the function's
                    // [start_line, end_line] (finding C08-gcno8-line-range-filter) – matched precisely:
                    // the lines only llvm-cov has are exactly the listed lines that fail the range test
                    let mut theirs = c.gcov.clone();
                    let mut removed: Vec<(String, u32)> = Vec::new();
                    let v80 = notes.as_ref().map(|n| n.version >= 80).unwrap_or(false);
                    if v80 {
                        for (k, ls) in &dropped {
                            let key = String::from_utf8_lossy(k).to_string();
                            if let Some(f) = theirs.get_mut(&key) {
                                for l in ls {
                                    if f.lines.contains_key(l) && !ours.get(&key).map(|o| o.lines.contains_key(l)).unwrap_or(false) {
                                        f.lines.remove(l);
                                        removed.push((key.clone(), *l));
                                    }
                                }
                            }
                        }
                    }
                    if !removed.is_empty() {
                        rep.count("program.finding.C08-gcno8-line-range-filter");
                        rep.count_n("program.range_filter.lines_dropped", removed.len() as u64);
                        rep.fail(
                            "oracle",
                            Some("C08-gcno8-line-range-filter"),
                            format!("Gcno::compute ({}) differs from llvm-cov gcov: gcno format {} – lines listed by the notes but outside their function's [start_line, end_line] are missing: {:?}",
                                what, c.version.clone().unwrap_or_default(), removed.iter().take(12).collect::<Vec<_>>()),
                            cj.clone(),
                        );
                    }
                    if let Some(d2) = diff_gcov(&ours, &theirs) {
                        let finding = classify(&ours, &theirs, &fns, nets.as_deref());
                        if let Some(f) = finding {
                            rep.count(&format!("program.finding.{}", f));
                            if f == "C08-irreducible-line-cycles" {
                                rep.count(if nets.is_some() { "program.irreducible.llvm_cycle_cancelling_reproduced" } else { "program.irreducible.bounded_only" });
                            }
                        }
                        let d = if removed.is_empty() { d } else { d2 };
                        rep.fail("oracle", finding, format!("Gcno::compute ({}) differs from llvm-cov gcov: {}", what, d), cj);
                    }
                }
                if sample {
                    rep.sample(json!({"program_lines": case["prog_c"].as_str().unwrap_or("").lines().count(),
                        "variant": what, "grcov": show_results(rs).chars().take(400).collect::<String>()}));
                }
            }
            Err(e) => {
                let mut cj = case.clone();
                cj["variant"] = json!(what);
                rep.fail("oracle", None, format!("Gcno::compute ({}) fails on clang output: {}", what, e), cj);
            }
        }
        // the model on the same files
        if heavy {
            rep.count("program.model_skipped_heavy_cycle_search");
        } else if let Some(notes) = decode_gcno(&c.gcno) {
            let gd: Option<Vec<Gcda>> = ds.iter().map(|b| decode_gcda(b)).collect();
            if let Some(gd) = gd {
                let refs: Vec<&Gcda> = gd.iter().collect();
                let req = compute_req(&notes, &refs, true);
                rep.case(&req, nontrivial);
                reqs.push(req);
                let mut cj = case.clone();
                cj["variant"] = json!(what);
                pend.push((show_compute(&r), cj, "compute".into()));
                if *what == "per-run gcda files" {
                    let (lq, lw) = records::listed_req(&notes);
                    reqs.push(lq);
                    pend.push((lw, case.clone(), "c08.listed".into()));
                    reqs.push(format!("tree {}", notes_text(&notes)));
                    pend.push(("tree".into(), case.clone(), "tree".into()));
                    reqs.push(state_req(&notes, &refs));
                    pend.push((run_state(&c.gcno, ds), case.clone(), "state".into()));
                }
            } else {
                rep.count("program.undecodable_gcda");
            }
        } else {
            rep.count("program.undecodable_gcno");
        }
    }
}

// ---------------------------------------------------------------------------------------------
// synthetic spanning-tree CFGs: flow recovery

/// expected `state` text for a function, from the generator's knowledge (None when arcs are
/// ambiguous to lay out, i.e. never: we compare multisets per (src,dst) instead)
fn flow_oracle(f: &GenFn, total: &[u64], walks: u64, state_fn: &str, version: u32) -> Option<String> {
    // state_fn: blocks joined by '|': "<counter>:S..:D[*]dst=cnt,..:L.."
    let blocks: Vec<&str> = state_fn.split('|').collect();
    if blocks.len() != f.nblocks as usize {
        return Some(format!("{} blocks in the dump, {} generated", blocks.len(), f.nblocks));
    }
    let _ = version;
    for (b, txt) in blocks.iter().enumerate() {
        let parts: Vec<&str> = txt.split(':').collect();
        let counter: u64 = parts[0].parse().ok()?;
        let mut got: Vec<(u32, u64)> = parts[2][1..]
            .split(',')
            .filter(|e| !e.is_empty())
            .map(|e| {
                let (d, c) = e.trim_start_matches('*').split_once('=').unwrap();
                (d.parse().unwrap(), c.parse().unwrap())
            })
            .collect();
        let mut want: Vec<(u32, u64)> = (0..f.arcs.len())
            .filter(|&i| f.arcs[i].0 == b as u32)
            .map(|i| (f.arcs[i].1, total[i]))
            .collect();
        if b as u32 == f.sink {
            want.push((0, walks));
        }
        got.sort();
        want.sort();
        if got != want {
            return Some(format!("block {}: arc counts {:?}, the flow is {:?}", b, got, want));
        }
        let outflow: u64 = want.iter().map(|x| x.1).sum();
        if counter != outflow {
            return Some(format!("block {}: counter {} but its flow is {}", b, counter, outflow));
        }
    }
    None
}

fn synthetic_stream(rep: &mut Report, rng: &mut Rng, reqs: &mut Vec<String>, pend: &mut Vec<(String, Value, String)>) {
    let n = rep.budget(300, 30);
    for i in 0..n {
        let version = if rng.chance(1, 3) { 42 } else { 48 };
        let checksum = rng.next() as u32;
        let nf = rng.range(1, 2) as u32;
        let mut fns: Vec<GenFn> = Vec::new();
        while fns.len() < nf as usize {
            let small = rng.chance(1, 3);
            let mut f = gen_fn(rng, version, fns.len() as u32, small);
            if !f.tree_ok {
                continue;
            }
            // distinct files per function keep the per-line expectation simple
            // every eighth case: the ARCS record of block 0 is not the first one (`EntryFirst` of
            // Props/C15Entry.lean violated: arc 0 is not the entry arc)
            if i % 8 == 5 {
                f.move_entry_arcs_back();
            }
            f.file = format!("f{}.c", fns.len()).into_bytes();
            for (_, items) in f.lines.iter_mut() {
                for it in items.iter_mut() {
                    if let LineItem::File(x) = it {
                        if x != b"other.h" {
                            *x = f.file.clone();
                        }
                    }
                }
            }
            fns.push(f);
        }
        let mut recs = Vec::new();
        for f in &fns {
            recs.extend(f.recs());
        }
        let notes = Notes { version, checksum, recs };
        let gcno = encode_gcno(&notes);
        let nd = rng.below(4) as usize;
        let mut gcdas = Vec::new();
        let mut total: Vec<Vec<u64>> = fns.iter().map(|f| vec![0; f.arcs.len()]).collect();
        let mut walks_total = vec![0u64; fns.len()];
        for _ in 0..nd {
            let mut parts: Vec<(&GenFn, Vec<u64>)> = Vec::new();
            for (fi, f) in fns.iter().enumerate() {
                let walks = if rng.chance(1, 5) { 0 } else { rng.range(1, 6) };
                let scale = if rng.chance(1, 12) { rng.range(2, 1 << 40) } else { 1 };
                let flow = gen_flow(rng, f, walks, scale);
                for (t, v) in total[fi].iter_mut().zip(flow.iter()) {
                    *t += *v;
                }
                walks_total[fi] += flow[f.arcs.iter().position(|a| a.0 == 0).unwrap_or(0)];
                parts.push((f, flow));
            }
            gcdas.push(gcda_for(version, checksum, &parts));
        }
        let mut er = rng.fork();
        let bytes: Vec<Vec<u8>> = gcdas.iter().map(|d| encode_gcda(d, &mut er)).collect();
        let refs: Vec<&Gcda> = gcdas.iter().collect();
        let case = json!({"op": "synthetic", "gcno": hex(&gcno), "gcdas": bytes.iter().map(|b| hex(b)).collect::<Vec<_>>(),
                          "model_state_req": state_req(&notes, &refs), "model_compute_req": compute_req(&notes, &refs, true),
                          "index": i});
        rep.count(&format!("synthetic.gcdas={}", nd));
        // oracle on the implementation: recovered flow, block counts
        let st = run_state(&gcno, &bytes);
        if let Some(body) = st.strip_prefix("ok ") {
            let per_fn: Vec<&str> = body.split(';').collect();
            for (fi, f) in fns.iter().enumerate() {
                rep.count_n("synthetic.arcs", f.arcs.len() as u64);
                rep.count_n("synthetic.tree_arcs", f.arcs.iter().filter(|a| a.2 & 1 == 1).count() as u64);
                if let Some(msg) = flow_oracle(f, &total[fi], walks_total[fi], per_fn.get(fi).copied().unwrap_or(""), version) {
                    rep.fail("oracle", None, format!("count_on_tree does not recover the flow (function {}): {}", fi, msg), case.clone());
                }
            }
        } else {
            rep.fail("oracle", None, format!("reading a spanning-tree CFG with a consistent flow fails: {}", st), case.clone());
        }
        // single-block lines and executed flags through compute
        let r = run_compute(&gcno, &bytes, true);
        if let Ok(rs) = &r {
            for (fi, f) in fns.iter().enumerate() {
                let file = String::from_utf8_lossy(&f.file).to_string();
                let name = String::from_utf8_lossy(&f.name).to_string();
                let cov = rs.iter().find(|(k, _)| *k == file).map(|(_, c)| c);
                let entered = walks_total[fi] > 0;
                let got = cov.and_then(|c| c.functions.get(&name)).map(|x| x.executed);
                let executed = if f.entry_first() {
                    if got != Some(entered) {
                        rep.fail("oracle", None, format!("function {} entered {} times: wrong executed flag", name, walks_total[fi]), case.clone());
                    }
                    entered
                } else {
                    // outside the shape condition the code looks at `edges.first()`: recorded, and
                    // checked to be exactly that
                    rep.count("synthetic.entry_not_first");
                    let first = total[fi][0] > 0;
                    if got != Some(first) {
                        rep.fail("oracle", None, format!("function {} (arc 0 is not the entry arc): executed flag {:?} is not 'arc 0 taken' = {}", name, got, first), case.clone());
                    }
                    if got != Some(entered) {
                        rep.count("synthetic.entry_not_first.executed_differs_from_entered");
                    }
                    first
                };
                if let Some(cov) = cov {
                    for (l, want) in single_block_lines(f, &total[fi], version) {
                        let want = if executed { want } else { 0 };
                        rep.count("synthetic.single_block_lines");
                        if cov.lines.get(&l) != Some(&want) {
                            rep.fail(
                                "oracle",
                                None,
                                format!("line {} lives in one block with count {} but is reported as {:?}", l, want, cov.lines.get(&l)),
                                case.clone(),
                            );
                        }
                    }
                }
            }
        }
        let nt = total.iter().any(|t| t.iter().any(|&v| v > 0));
        let rq = state_req(&notes, &refs);
        rep.case(&rq, nt);
        reqs.push(rq);
        pend.push((st, case.clone(), "state".into()));
        reqs.push(compute_req(&notes, &refs, true));
        pend.push((show_compute(&r), case.clone(), "compute".into()));
        reqs.push(format!("tree {}", notes_text(&notes)));
        pend.push((format!("ok {}", "1".repeat(fns.len())), case, "tree-synthetic".into()));
    }
}

/// run llvm-cov gcov on notes/data bytes whose only source file is `syn.c`
fn llvm_cov_on_bytes(dir: &Path, gcno: &[u8], gcda: &[u8]) -> Option<BTreeMap<String, GcovFile>> {
    let _ = std::fs::remove_dir_all(dir);
    std::fs::create_dir_all(dir).ok()?;
    let src: String = (1..=60).map(|k| format!("/* {} */\n", k)).collect();
    std::fs::write(dir.join("syn.gcno"), gcno).ok()?;
    std::fs::write(dir.join("syn.gcda"), gcda).ok()?;
    std::fs::write(dir.join("syn.c"), src).ok()?;
    let o = Command::new("llvm-cov-14").args(["gcov", "-b", "syn.gcda"]).current_dir(dir).output().ok()?;
    if !o.status.success() {
        return None;
    }
    match std::fs::read(dir.join("syn.c.gcov")) {
        Ok(t) => {
            let (srcname, f) = parse_gcov_text(&String::from_utf8_lossy(&t))?;
            Some([(srcname, f)].into_iter().collect())
        }
        Err(_) => Some(BTreeMap::new()),
    }
}

/// llvm-cov gcov on generated notes/data files: spanning-tree CFGs in the 408* layout with
/// consistent flows (shapes clang would not produce: irreducible loops, parallel arcs, lines
/// repeated inside a block, lines shared by distant blocks)
fn synthetic_llvm_cov_stream(rep: &mut Report, rng: &mut Rng, reqs: &mut Vec<String>, pend: &mut Vec<(String, Value, String)>) {
    let n = rep.budget(200, 8);
    let dir = rep.workdir.join("syn");
    for i in 0..n {
        let _ = std::fs::remove_dir_all(&dir);
        if std::fs::create_dir_all(&dir).is_err() {
            return;
        }
        let version = 48;
        let checksum = rng.next() as u32;
        let nf = rng.range(1, 2) as u32;
        let mut fns: Vec<GenFn> = Vec::new();
        let loopy = rng.chance(1, 2);
        while fns.len() < nf as usize {
            if loopy {
                // loops with two-path bodies, all on 1-3 lines
                let nl = rng.range(1, 3) as u32;
                fns.push(gen_loop_fn(rng, fns.len() as u32, nl, b"syn.c"));
                rep.count("synthetic_llvm_cov.loop_functions");
                continue;
            }
            let small = rng.chance(1, 3);
            let mut f = gen_fn(rng, version, fns.len() as u32, small);
            if !f.tree_ok {
                continue;
            }
            // like LLVM: every line of a function is listed under the function's own file
            f.file = b"syn.c".to_vec();
            f.name = format!("fn{}", fns.len()).into_bytes();
            for (_, items) in f.lines.iter_mut() {
                let mut keep: Vec<LineItem> = vec![LineItem::File(b"syn.c".to_vec())];
                let mut own = true;
                for it in items.iter() {
                    match it {
                        LineItem::File(x) => own = x != b"other.h",
                        LineItem::Line(l) => {
                            if own {
                                keep.push(LineItem::Line(*l));
                            }
                        }
                    }
                }
                *items = keep;
            }
            // half of the functions squeeze their blocks onto 1-3 source lines: lines that live
            // in many blocks, with the circuits of the random back arcs between them
            if rng.chance(1, 2) {
                let k = rng.range(1, 3) as u32;
                let st = f.start;
                for (_, items) in f.lines.iter_mut() {
                    for it in items.iter_mut() {
                        if let LineItem::Line(l) = it {
                            *l = st + 1 + (*l - st) % k;
                        }
                    }
                }
                // and every body block gets a line
                let listed: Vec<u32> = f.lines.iter().map(|(b, _)| *b).collect();
                for b in 2..f.nblocks {
                    if !listed.contains(&b) {
                        f.lines.push((b, vec![LineItem::File(b"syn.c".to_vec()), LineItem::Line(st + 1 + b % k)]));
                    }
                }
            }
            // like LLVM: the function's own line is listed on its first block
            let first = f.arcs[0].1;
            match f.lines.iter_mut().find(|(b, _)| *b == first) {
                Some((_, items)) => items.insert(1, LineItem::Line(f.start)),
                None => f.lines.insert(0, (first, vec![LineItem::File(b"syn.c".to_vec()), LineItem::Line(f.start)])),
            }
            // no fake arcs: llvm-cov has no notion of them
            for a in f.arcs.iter_mut() {
                a.2 &= !2;
            }
            // LLVM notes have no self arcs and no parallel arcs (llvm-cov ignores self arcs as
            // "bad input"): drop them (they are never needed by the tree)
            let mut seen: Vec<(u32, u32)> = Vec::new();
            let old = std::mem::take(&mut f.arcs);
            for a in old {
                let dup = seen.contains(&(a.0, a.1));
                if (a.0 == a.1 || dup) && a.2 & 1 == 0 {
                    continue;
                }
                seen.push((a.0, a.1));
                f.arcs.push(a);
            }
            fns.push(f);
        }
        let mut recs = Vec::new();
        for f in &fns {
            recs.extend(f.recs());
        }
        let notes = Notes { version, checksum, recs };
        let gcno = encode_gcno(&notes);
        let mut parts: Vec<(&GenFn, Vec<u64>)> = Vec::new();
        for f in fns.iter() {
            let walks = if rng.chance(1, 8) { 0 } else { rng.range(2, 9) };
            parts.push((f, gen_flow_n(rng, f, walks, 1, if loopy { 40 } else { 12 })));
        }
        let gcda = gcda_for(version, checksum, &parts);
        let mut er = rng.fork();
        let gbytes = encode_gcda(&gcda, &mut er);
        let theirs = match llvm_cov_on_bytes(&dir, &gcno, &gbytes) {
            Some(t) => t,
            None => {
                rep.count("synthetic_llvm_cov.tool_failed");
                continue;
            }
        };
        let case = json!({"op": "synthetic-llvm-cov", "gcno": hex(&gcno), "gcdas": [hex(&gbytes)], "index": i});
        rep.count("synthetic_llvm_cov.cases");
        let r = run_compute(&gcno, &[gbytes.clone()], true);
        // the same case through the model (so that a change of the cycle search is seen even on
        // lines where a difference from llvm-cov is a known finding)
        {
            let rq = compute_req(&notes, &[&gcda], true);
            rep.case(&rq, true);
            reqs.push(rq);
            pend.push((show_compute(&r), case.clone(), "compute".into()));
        }
        match r {
            Ok(rs) => {
                let ours = of_results(&rs);
                let fd = run_dump(&gcno, &[gbytes.clone()]).map(|d| dump_functions(&d)).unwrap_or_default();
                count_line_shapes(rep, "synthetic_llvm_cov", &ours, &theirs, &fd);
                if let Some(d) = diff_gcov(&ours, &theirs) {
                    let ns = records::nets(&notes, &fd);
                    if ns.is_none() {
                        rep.count("synthetic_llvm_cov.arcs_not_identified");
                    }
                    let finding = classify(&ours, &theirs, &fd, ns.as_deref());
                    if let Some(f) = finding {
                        rep.count(&format!("synthetic_llvm_cov.finding.{}", f));
                    }
                    rep.fail("oracle", finding, format!("Gcno::compute differs from llvm-cov gcov on generated notes: {}", d), case);
                }
            }
            Err(e) => rep.fail("oracle", None, format!("Gcno::compute fails on generated notes: {}", e), case),
        }
    }
    let _ = std::fs::remove_dir_all(&dir);
}

fn corpus_stream(rep: &mut Report, reqs: &mut Vec<String>, pend: &mut Vec<(String, Value, String)>) {
    // the LLVM-format pairs shipped with the repository
    for stem in ["/repo/test/llvm/file", "/repo/test/llvm/file_branch", "/repo/test/llvm/reader", "/repo/test/rust/generics_with_two_parameters"] {
        let (Ok(gcno), Ok(gcda)) = (std::fs::read(format!("{}.gcno", stem)), std::fs::read(format!("{}.gcda", stem))) else {
            continue;
        };
        let (Some(n), Some(d)) = (decode_gcno(&gcno), decode_gcda(&gcda)) else {
            rep.count("corpus.undecodable");
            continue;
        };
        rep.count("corpus.pairs");
        let case = json!({"op": "corpus", "stem": stem});
        for k in 0..3usize {
            let ds = vec![gcda.clone(); k];
            let refs: Vec<&Gcda> = std::iter::repeat(&d).take(k).collect();
            let rq = compute_req(&n, &refs, true);
            rep.case(&rq, k > 0);
            reqs.push(rq);
            pend.push((show_compute(&run_compute(&gcno, &ds, true)), case.clone(), "compute".into()));
        }
        reqs.push(format!("tree {}", notes_text(&n)));
        pend.push(("tree".into(), case.clone(), "tree".into()));
    }
}

fn run_inner(rep: &mut Report) {
    rep.rule = "programs: generated C (1-3 functions + main + an included header with a function; straight-line, nested \
                if/else incl. one-line forms, for/while/do loops with break/continue, switch with fall-through, &&/||/!/?:, \
                early return, several statements per line, calls, a never-called function), clang-14 --coverage -O0, 0-4 runs \
                with 0-2 numeric arguments; compared with llvm-cov-14 gcov -b text. synthetic: spanning-tree CFGs with \
                random-walk flows, 0-3 gcda. non-trivial = some line count > 0 (programs) / some arc count > 0 (synthetic); \
                distinct = distinct canonical model request"
        .to_string();
    let mut rng = Rng::new(rep.seed ^ 0xC08);
    let mut reqs: Vec<String> = Vec::new();
    let mut pend: Vec<(String, Value, String)> = Vec::new();
    corpus_stream(rep, &mut reqs, &mut pend);
    let have_tools = Command::new("clang-14").arg("--version").output().map(|o| o.status.success()).unwrap_or(false)
        && Command::new("llvm-cov-14").arg("--version").output().map(|o| o.status.success()).unwrap_or(false);
    if have_tools {
        compiled_stream(rep, &mut rng, &mut reqs, &mut pend);
        let mut lrng = Rng::new(rep.seed ^ 0xC08_11);
        synthetic_llvm_cov_stream(rep, &mut lrng, &mut reqs, &mut pend);
    } else {
        rep.notes.push("clang-14 / llvm-cov-14 not found: the llvm-cov comparison was NOT run".into());
        rep.count("program.tools_missing");
    }
    let mut srng = Rng::new(rep.seed ^ 0xC08_5);
    synthetic_stream(rep, &mut srng, &mut reqs, &mut pend);

    let answers = run_model_named("gm_c08", &reqs, &rep.workdir, "gcno");
    for (i, (impl_out, case, what)) in pend.iter().enumerate() {
        let cut = |s: &str| if s.len() > 500 { format!("{}…", &s[..500]) } else { s.to_string() };
        if what == "tree" {
            // every function clang produced should carry a spanning tree (hypothesis of
            // C08_flow_recovered): measured, not required
            let a = &answers[i];
            rep.count_n("tree.functions_with_certificate", a.matches('1').count() as u64);
            rep.count_n("tree.functions_without_certificate", a.strip_prefix("ok ").unwrap_or("").matches('0').count() as u64);
            continue;
        }
        if i % 211 == 0 {
            rep.sample(json!({"request": cut(&reqs[i]), "impl": cut(impl_out), "model": cut(&answers[i])}));
        }
        if &answers[i] != impl_out {
            rep.disagreements_checked += 1;
            let mut cj = case.clone();
            cj["impl"] = json!(cut(impl_out));
            cj["model"] = json!(cut(&answers[i]));
            cj["request"] = json!(reqs[i]);
            let msg = if what == "tree-synthetic" {
                "the spanning-tree certificate check rejects a generated spanning tree".to_string()
            } else {
                format!("Gcno::{} differs from the model (theorems C08_* no longer transfer)", what)
            };
            rep.fail("disagreement", None, msg, cj);
        }
    }
}

pub fn run(rep: &mut Report) {
    if let Err(p) = guarded(std::panic::AssertUnwindSafe(|| run_inner(rep))) {
        eprintln!("harness panicked: {}", p);
        std::process::exit(2);
    }
    multiblock::run(rep);
    records::run(rep);
}

pub fn replay(rep: &mut Report, case: &Value) {
    match case["op"].as_str().unwrap_or("") {
        "program" => {
            let p = Program {
                main_c: case["prog_c"].as_str().unwrap_or("").to_string(),
                inc_h: case["inc_h"].as_str().unwrap_or("").to_string(),
            };
            let profiles: Vec<Vec<String>> = case["profiles"]
                .as_array()
                .map(|a| {
                    a.iter()
                        .map(|v| v.as_array().map(|x| x.iter().map(|s| s.as_str().unwrap_or("").to_string()).collect()).unwrap_or_default())
                        .collect()
                })
                .unwrap_or_default();
            let dir = rep.workdir.join("replay");
            match build_and_run_v(&dir, &p, &profiles, case["coverage_version"].as_str()) {
                Ok(c) => {
                    let mut reqs = Vec::new();
                    let mut pend = Vec::new();
                    if std::env::var("C08_DEBUG").is_ok() {
                        eprintln!("STATE {}", run_state(&c.gcno, &c.singles));
                    }
                    check_compiled(rep, &c, case, &mut reqs, &mut pend, true);
                    let answers = run_model_named("gm_c08", &reqs, &rep.workdir, "replay");
                    for (i, (impl_out, cj, what)) in pend.iter().enumerate() {
                        if what != "tree" && &answers[i] != impl_out && rep.failures.is_empty() {
                            rep.disagreements_checked += 1;
                            rep.fail("disagreement", None, format!("Gcno::{} differs from the model", what), cj.clone());
                        }
                    }
                }
                Err(e) => rep.notes.push(format!("replay: {}", e)),
            }
        }
        "synthetic" => {
            let gcno = unhex(case["gcno"].as_str().unwrap_or(""));
            let gcdas: Vec<Vec<u8>> = case["gcdas"].as_array().map(|a| a.iter().map(|v| unhex(v.as_str().unwrap_or(""))).collect()).unwrap_or_default();
            let mut reqs = Vec::new();
            let mut outs = Vec::new();
            if let Some(r) = case["model_state_req"].as_str() {
                reqs.push(r.to_string());
                outs.push(run_state(&gcno, &gcdas));
            }
            if let Some(r) = case["model_compute_req"].as_str() {
                reqs.push(r.to_string());
                outs.push(show_compute(&run_compute(&gcno, &gcdas, true)));
            }
            let answers = run_model_named("gm_c08", &reqs, &rep.workdir, "replay");
            for i in 0..reqs.len() {
                rep.case(&reqs[i], true);
                if answers[i] != outs[i] {
                    rep.disagreements_checked += 1;
                    // the model recovers the flow (theorem); a difference means the code does not
                    rep.fail("oracle", None, format!("impl {} / model {}", outs[i], answers[i]), case.clone());
                }
            }
        }
        "synthetic-llvm-cov" => {
            let gcno = unhex(case["gcno"].as_str().unwrap_or(""));
            let gcda = unhex(case["gcdas"][0].as_str().unwrap_or(""));
            rep.case("synthetic-llvm-cov", true);
            if std::env::var("C08_DEBUG").is_ok() {
                eprintln!("STATE {}", run_state(&gcno, &[gcda.clone()]));
                if let Some(n) = decode_gcno(&gcno) {
                    eprintln!("NOTES {}", notes_text(&n));
                }
                if let Some(d) = decode_gcda(&gcda) {
                    eprintln!("GCDA {}", gcda_text(&d));
                }
            }
            if let Some(theirs) = llvm_cov_on_bytes(&rep.workdir.join("syn"), &gcno, &gcda) {
                if std::env::var("C08_DEBUG").is_ok() {
                    eprintln!("LLVM {:?}", theirs);
                }
                match run_compute(&gcno, &[gcda.clone()], true) {
                    Ok(rs) => {
                        let ours = of_results(&rs);
                        if std::env::var("C08_DEBUG").is_ok() {
                            eprintln!("OURS {:?}", ours);
                        }
                        if let Some(d) = diff_gcov(&ours, &theirs) {
                            let fd = run_dump(&gcno, &[gcda.clone()]).map(|d| dump_functions(&d)).unwrap_or_default();
                            let ns = decode_gcno(&gcno).and_then(|n| records::nets(&n, &fd));
                            let finding = classify(&ours, &theirs, &fd, ns.as_deref());
                            rep.fail("oracle", finding, format!("Gcno::compute differs from llvm-cov gcov on generated notes: {}", d), case.clone());
                        }
                    }
                    Err(e) => rep.fail("oracle", None, format!("Gcno::compute fails: {}", e), case.clone()),
                }
            }
        }
        op if op.starts_with("mb.") => multiblock::replay(rep, case),
        op if op.starts_with("rec.") => records::replay(rep, case),
        _ => rep.notes.push("corpus cases are re-run by the normal check".into()),
    }
}

fn main() {
    corrlib::run_main("C08", run, replay);
}
