//! C08, second review items 3 and 30.
//! * `listed`: an independent reading of the LINES records of a notes file (Lean: `Gcno.listed`,
//!   Gcno/Records.lean; tie through the driver op `c08.listed`): the reference for "the set of
//!   instrumented lines" – compared with `llvm-cov gcov` on every compiled program – and, with the
//!   range test of `read_lines`, the prediction of what grcov keeps (format >= 8: finding
//!   C08-gcno8-line-range-filter, matched precisely by `range_filter_explains`).
//! * `FnNet` / `llvm_line_count`: a re-implementation of llvm-cov 14's line count
//!   (`Context::collectSourceLine`, `GCOVBlock::getCyclesCount`, `augmentOneCycle`: entering arcs
//!   per block occurrence plus cycle cancelling by depth-first search in the successor order of the
//!   notes file) on the arc counts grcov recovered; the matcher of C08-irreducible-line-cycles
//!   requires llvm-cov's number to be exactly this value.
//! * `sum_oracle`: several functions per file – a line's count is the sum of the functions'
//!   shares (`C08_line_count_is_sum_over_functions`), each share evaluated independently where the
//!   theorems give an exact value (single occurrence: block counter; no circuit: entering part; one
//!   loop: entering part + loop minimum; not entered: 0).
//! * stream `rec.synthetic`: 2-3 functions that share a file and lines (template instantiations,
//!   inline functions), in formats 4.2, 4.8, 8.0, 9.3 and 10.1 with LINES records that list lines
//!   outside `[start_line, end_line]`, lines repeated inside one block (A,B,A) and non-UTF-8 names.
use super::gcno::*;
use super::multiblock::eval_lines;
use corrlib::*;
use serde_json::{json, Value};
use std::collections::{BTreeMap, BTreeSet};

pub fn lossy(b: &[u8]) -> Vec<u8> {
    String::from_utf8_lossy(b).as_bytes().to_vec()
}

/// decoded file name -> lines
pub type Listed = BTreeMap<Vec<u8>, BTreeSet<u32>>;

/// the lines the LINES records list per (decoded) source file; `filter` = keep only the lines
/// within the `[start, end]` of the FUNCTION record the LINES record belongs to
pub fn listed(n: &Notes, filter: bool) -> Listed {
    let mut out: Listed = BTreeMap::new();
    let mut cur: Option<(Vec<u8>, u32, u32)> = None;
    for r in &n.recs {
        match r {
            NRec::Func { file, start, end, .. } => cur = Some((lossy(file), *start, *end)),
            NRec::Lines(_, items) => {
                if let Some((fname, st, en)) = &cur {
                    let mut take = true;
                    for it in items {
                        match it {
                            LineItem::Line(l) => {
                                if take && (!filter || (*st <= *l && *l <= *en)) {
                                    out.entry(fname.clone()).or_default().insert(*l);
                                }
                            }
                            LineItem::File(nm) => {
                                if nm.is_empty() {
                                    break;
                                }
                                take = lossy(nm) == *fname;
                            }
                        }
                    }
                }
            }
            _ => {}
        }
    }
    out
}

pub fn listed_kept(n: &Notes) -> Listed {
    listed(n, n.version >= 80)
}

fn listed_show(l: &Listed) -> String {
    if l.is_empty() {
        return "-".into();
    }
    l.iter()
        .map(|(k, ls)| format!("K{}={}", hex(k), ls.iter().map(|x| x.to_string()).collect::<Vec<_>>().join(",")))
        .collect::<Vec<_>>()
        .join(" ")
}

/// request and expected answer of the driver op `c08.listed`
pub fn listed_req(n: &Notes) -> (String, String) {
    (
        format!("c08.listed {} {}", n.version, recs_text(&n.recs)),
        format!("ok {} | {}", listed_show(&listed(n, false)), listed_show(&listed_kept(n))),
    )
}

/// per file: the listed lines that the range test drops
pub fn range_dropped(n: &Notes) -> Listed {
    let (all, kept) = (listed(n, false), listed_kept(n));
    let mut out = Listed::new();
    for (k, ls) in all {
        let d: BTreeSet<u32> = ls.iter().copied().filter(|l| !kept.get(&k).map(|s| s.contains(l)).unwrap_or(false)).collect();
        if !d.is_empty() {
            out.insert(k, d);
        }
    }
    out
}

// ---------------------------------------------------------------------------------------------
// llvm-cov 14's line count on recovered arc counts

pub struct FnNet {
    pub file: Vec<u8>,
    pub nblocks: usize,
    /// (src, dst, count); the artificial exit -> entry arc last
    pub arcs: Vec<(usize, usize, u64)>,
    /// outgoing arc ids per block in the order of the notes file (llvm-cov's `succ`)
    pub succ: Vec<Vec<usize>>,
    pub pred: Vec<Vec<usize>>,
    /// all listed lines per block, one entry per occurrence, range test NOT applied
    pub lines: Vec<Vec<u32>>,
    /// lines per block as grcov kept them
    pub kept: Vec<Vec<u32>>,
}

/// the functions of a notes file with the arc counts of the dump of the real `Gcno` after `stop`
/// (`None`: several BLOCKS records, parallel arcs with different counts, shapes that differ)
pub fn nets(n: &Notes, dump: &[FnDump]) -> Option<Vec<FnNet>> {
    let mut out: Vec<FnNet> = Vec::new();
    let mut range: Vec<(u32, u32)> = Vec::new();
    let mut blocks_seen = false;
    for r in &n.recs {
        match r {
            NRec::Func { file, start, end, .. } => {
                out.push(FnNet { file: lossy(file), nblocks: 0, arcs: vec![], succ: vec![], pred: vec![], lines: vec![], kept: vec![] });
                range.push((*start, *end));
                blocks_seen = false;
            }
            NRec::Blocks(k) => {
                let f = out.last_mut()?;
                if blocks_seen {
                    return None;
                }
                blocks_seen = true;
                f.nblocks = *k as usize;
                f.succ = vec![vec![]; f.nblocks];
                f.pred = vec![vec![]; f.nblocks];
                f.lines = vec![vec![]; f.nblocks];
                f.kept = vec![vec![]; f.nblocks];
            }
            NRec::Arcs(src, v) => {
                let f = out.last_mut()?;
                for (d, _) in v {
                    let (s, d) = (*src as usize, *d as usize);
                    if s >= f.nblocks || d >= f.nblocks {
                        return None;
                    }
                    let id = f.arcs.len();
                    f.arcs.push((s, d, 0));
                    f.succ[s].push(id);
                    f.pred[d].push(id);
                }
            }
            NRec::Lines(b, items) => {
                let (st, en) = *range.last()?;
                let f = out.last_mut()?;
                if *b as usize >= f.nblocks {
                    return None;
                }
                let mut take = true;
                for it in items {
                    match it {
                        LineItem::Line(l) => {
                            if take {
                                f.lines[*b as usize].push(*l);
                                if n.version < 80 || (st <= *l && *l <= en) {
                                    f.kept[*b as usize].push(*l);
                                }
                            }
                        }
                        LineItem::File(nm) => {
                            if nm.is_empty() {
                                break;
                            }
                            take = lossy(nm) == f.file;
                        }
                    }
                }
            }
            _ => return None,
        }
    }
    if out.len() != dump.len() {
        return None;
    }
    for (f, d) in out.iter_mut().zip(dump.iter()) {
        if f.nblocks != d.blocks.len() {
            return None;
        }
        if f.nblocks >= 2 {
            let sink = if n.version < 48 { f.nblocks - 1 } else { 1 };
            let id = f.arcs.len();
            f.arcs.push((sink, 0, 0));
            f.succ[sink].push(id);
            f.pred[0].push(id);
        }
        // counts: per source block the multiset of (dst, count) of the dump
        for b in 0..f.nblocks {
            let mut by_dst: BTreeMap<usize, Vec<u64>> = BTreeMap::new();
            for (dst, c) in &d.blocks[b].succ {
                by_dst.entry(*dst).or_default().push(*c);
            }
            let mut want: BTreeMap<usize, usize> = BTreeMap::new();
            for &e in &f.succ[b] {
                *want.entry(f.arcs[e].1).or_insert(0) += 1;
            }
            if want.len() != by_dst.len() || want.iter().any(|(d, k)| by_dst.get(d).map(|v| v.len()) != Some(*k)) {
                return None;
            }
            for &e in &f.succ[b].clone() {
                let v = by_dst.get_mut(&f.arcs[e].1)?;
                if v.iter().any(|c| *c != v[0]) {
                    return None; // parallel arcs with different counts: which is which is not known
                }
                f.arcs[e].2 = v[0];
            }
        }
        if d.blocks.iter().enumerate().any(|(b, bd)| bd.lines != f.kept[b]) {
            return None;
        }
    }
    Some(out)
}

impl FnNet {
    /// block occurrences of a line (llvm-cov: every listed line; grcov: the kept ones)
    pub fn occurrences(&self, line: u32, kept: bool) -> Vec<usize> {
        let src = if kept { &self.kept } else { &self.lines };
        let mut v = Vec::new();
        for (b, ls) in src.iter().enumerate() {
            for l in ls {
                if *l == line {
                    v.push(b);
                }
            }
        }
        v
    }

    /// `GCOVBlock::augmentOneCycle`
    fn augment(&self, src: usize, cyc: &mut [u64], trav: &mut [bool], incoming: &mut [Option<usize>]) -> u64 {
        const MARK: usize = usize::MAX;
        let mut stack: Vec<(usize, usize)> = vec![(src, 0)];
        incoming[src] = Some(MARK);
        loop {
            let (u, i) = *stack.last().unwrap();
            if i == self.succ[u].len() {
                trav[u] = false;
                stack.pop();
                if stack.is_empty() {
                    return 0;
                }
                continue;
            }
            stack.last_mut().unwrap().1 += 1;
            let e = self.succ[u][i];
            let d = self.arcs[e].1;
            if cyc[e] == 0 || !trav[d] || d == u {
                continue;
            }
            if incoming[d].is_none() {
                incoming[d] = Some(e);
                stack.push((d, 0));
                continue;
            }
            let mut min = cyc[e];
            let mut v = u;
            loop {
                let inc = incoming[v].unwrap();
                if inc == MARK {
                    break; // cannot happen: the walk back ends at `d`
                }
                min = min.min(cyc[inc]);
                v = self.arcs[inc].0;
                if v == d {
                    break;
                }
            }
            cyc[e] -= min;
            let mut v = u;
            loop {
                let inc = incoming[v].unwrap();
                if inc == MARK {
                    break;
                }
                cyc[inc] -= min;
                v = self.arcs[inc].0;
                if v == d {
                    break;
                }
            }
            return min;
        }
    }

    /// `Context::collectSourceLine` for the block occurrences `occ` of one line in this function
    pub fn llvm_line_count(&self, occ: &[usize]) -> u64 {
        let mut count: u64 = 0;
        let mut cyc: Vec<u64> = vec![0; self.arcs.len()];
        for &b in occ {
            if b == 0 {
                for &e in &self.succ[b] {
                    count = count.wrapping_add(self.arcs[e].2);
                }
            } else {
                for &e in &self.pred[b] {
                    if !occ.contains(&self.arcs[e].0) {
                        count = count.wrapping_add(self.arcs[e].2);
                    }
                }
            }
            for &e in &self.succ[b] {
                cyc[e] = self.arcs[e].2;
            }
        }
        // getCyclesCount
        let mut trav = vec![false; self.nblocks];
        let mut incoming: Vec<Option<usize>> = vec![None; self.nblocks];
        loop {
            for &b in occ {
                trav[b] = true;
                incoming[b] = None;
            }
            let mut d = 0;
            for &b in occ {
                if trav[b] {
                    d = self.augment(b, &mut cyc, &mut trav, &mut incoming);
                    if d > 0 {
                        break;
                    }
                }
            }
            if d == 0 {
                break;
            }
            count = count.wrapping_add(d);
        }
        count
    }

    /// sum of the counts of the arcs with both ends among `occ`
    #[allow(dead_code)]
    pub fn inside_flow(&self, occ: &[usize]) -> u128 {
        self.arcs.iter().filter(|a| occ.contains(&a.0) && occ.contains(&a.1)).map(|a| a.2 as u128).sum()
    }
}

/// what llvm-cov 14 computes for line `line` of file `file` (all functions of the file), on the
/// lines it reads (no range test)
pub fn llvm_count(nets: &[FnNet], file: &[u8], line: u32) -> Option<u64> {
    let mut total: u64 = 0;
    let mut any = false;
    for f in nets.iter().filter(|f| f.file == file) {
        let occ = f.occurrences(line, false);
        if occ.is_empty() {
            continue;
        }
        any = true;
        total = total.wrapping_add(f.llvm_line_count(&occ));
    }
    if any {
        Some(total)
    } else {
        None
    }
}

// ---------------------------------------------------------------------------------------------
// several functions per file

/// The share of one function for one of its lines where the theorems give an exact value
/// (`None`: several interlocking circuits – only bounds are proved).
fn exact_share(f: &FnDump, line: u32) -> Option<u128> {
    let entered = f.blocks.first().and_then(|b| b.succ.first()).map(|x| x.1 > 0).unwrap_or(false);
    let occ: Vec<usize> = f.blocks.iter().enumerate().flat_map(|(i, b)| b.lines.iter().filter(|l| **l == line).map(move |_| i)).collect();
    if occ.is_empty() {
        return Some(0);
    }
    if !entered {
        return Some(0);
    }
    if occ.len() == 1 {
        return Some(f.blocks[occ[0]].counter as u128);
    }
    let ev = eval_lines(f).into_iter().find(|e| e.line == line)?;
    match ev.class {
        0 => Some(ev.entry),
        1 => Some(ev.entry + ev.min.unwrap_or(0) as u128),
        _ => None,
    }
}

/// every line of every file: reported count = sum of the shares of the functions of that file
/// (decoded names); returns the first violation; counts what it could check
pub fn sum_oracle(rep: &mut Report, tag: &str, rs: &Results, fd: &[FnDump]) -> Option<String> {
    let mut files: BTreeSet<&str> = BTreeSet::new();
    for f in fd {
        files.insert(&f.file);
    }
    for file in files {
        let fs: Vec<&FnDump> = fd.iter().filter(|f| f.file == file).collect();
        let Some(cov) = rs.iter().find(|(k, _)| k == file).map(|(_, c)| c) else {
            return Some(format!("file {} of the notes is missing in the result", file));
        };
        let mut lines: BTreeSet<u32> = BTreeSet::new();
        for f in &fs {
            for b in &f.blocks {
                lines.extend(b.lines.iter().copied());
            }
        }
        for l in lines {
            let owners = fs.iter().filter(|f| f.blocks.iter().any(|b| b.lines.contains(&l))).count();
            let shares: Option<Vec<u128>> = fs.iter().map(|f| exact_share(f, l)).collect();
            let Some(shares) = shares else {
                rep.count(&format!("{}.sum.line_with_inexact_share", tag));
                continue;
            };
            let want: u128 = shares.iter().sum();
            rep.count(&format!("{}.sum.checked", tag));
            if owners >= 2 {
                rep.count(&format!("{}.sum.checked_shared_line", tag));
            }
            let got = cov.lines.get(&l).copied();
            if got.map(|g| g as u128) != Some(want) {
                return Some(format!(
                    "line {} of {} is listed by {} function(s) with shares {:?} (sum {}) but is reported as {:?}",
                    l, file, owners, shares, want, got
                ));
            }
        }
    }
    None
}

// ---------------------------------------------------------------------------------------------
// stream: several functions that share a file and lines, five format versions

const VERSIONS: &[u32] = &[42, 48, 48, 80, 93, 101, 46, 47, 49, 79, 81, 89, 90, 90, 91];

fn synthetic(rep: &mut Report, rng: &mut Rng, reqs: &mut Vec<String>, want: &mut Vec<(String, Value, &'static str)>) {
    let n = rep.budget(260, 20);
    for i in 0..n {
        if rep.verdict_clear() {
            break;
        }
        let version = *rng.pick(VERSIONS);
        let checksum = rng.next() as u32;
        let nf = rng.range(2, 3) as u32;
        let mut fns: Vec<GenFn> = Vec::new();
        while fns.len() < nf as usize {
            let small = rng.chance(1, 2);
            let f = gen_fn(rng, version, fns.len() as u32, small);
            if f.tree_ok {
                fns.push(f);
            }
        }
        // all in one file; the later functions are moved onto the line range of the first one
        // (instantiations of one template / inline functions of one header: shared lines)
        let file = fns[0].file.clone();
        let (s0, e0) = (fns[0].start, fns[0].end);
        for k in 1..fns.len() {
            let old = fns[k].file.clone();
            let shift = fns[k].start - s0;
            let same_range = rng.chance(2, 3);
            fns[k].file = file.clone();
            fns[k].name = format!("fn{}<{}>", 0, k).into_bytes();
            for (_, items) in fns[k].lines.iter_mut() {
                for it in items.iter_mut() {
                    match it {
                        LineItem::File(x) => {
                            if *x == old {
                                *x = file.clone();
                            }
                        }
                        LineItem::Line(l) => {
                            if same_range && *l >= s0 + shift {
                                *l -= shift;
                            }
                        }
                    }
                }
            }
            if same_range {
                fns[k].start = s0;
                fns[k].end = e0;
            }
        }
        // format >= 8: a tight end line now and then (lines of the body lie beyond it)
        if version >= 80 {
            for f in fns.iter_mut() {
                if rng.chance(1, 2) {
                    f.end = f.start + rng.below(4) as u32;
                    rep.count("rec.synthetic.tight_end_line");
                }
            }
        }
        if i % 5 == 2 {
            mangle_names(rng, &mut fns);
            rep.count("rec.synthetic.non_utf8_names");
        }
        let mut recs = Vec::new();
        for f in &fns {
            recs.extend(f.recs());
        }
        let notes = Notes { version, checksum, recs };
        let gcno = encode_gcno(&notes);
        let nd = rng.range(1, 2) as usize;
        let mut gcdas = Vec::new();
        for _ in 0..nd {
            let mut parts: Vec<(&GenFn, Vec<u64>)> = Vec::new();
            for f in fns.iter() {
                if rng.chance(1, 8) {
                    continue;
                }
                let walks = if rng.chance(1, 5) { 0 } else { rng.range(1, 6) };
                parts.push((f, gen_flow(rng, f, walks, 1)));
            }
            gcdas.push(gcda_for(version, checksum, &parts));
        }
        let mut er = rng.fork();
        let bytes: Vec<Vec<u8>> = gcdas.iter().map(|d| encode_gcda(d, &mut er)).collect();
        let refs: Vec<&Gcda> = gcdas.iter().collect();
        let creq = compute_req(&notes, &refs, true);
        let case = json!({"op": "rec.synthetic", "gcno": hex(&gcno), "gcdas": bytes.iter().map(|b| hex(b)).collect::<Vec<_>>(),
                          "compute_req": creq, "index": i});
        rep.count(&format!("rec.synthetic.version={}", version));
        let r = run_compute(&gcno, &bytes, true);
        rep.case(&creq, true);
        match &r {
            Ok(rs) => {
                // what the code keeps is the listed lines that pass the range test
                let kept = listed_kept(&notes);
                let ours: Listed = rs.iter().map(|(k, c)| (k.as_bytes().to_vec(), c.lines.keys().copied().collect::<BTreeSet<u32>>())).filter(|(_, s): &(Vec<u8>, BTreeSet<u32>)| !s.is_empty()).collect();
                if ours != kept {
                    rep.fail("oracle", None, format!("the instrumented lines of the result are not the listed lines within the functions' ranges: {:?} / {:?}", ours, kept), case.clone());
                }
                if !range_dropped(&notes).is_empty() {
                    rep.count("rec.synthetic.lines_dropped_by_range_test");
                }
                if let Some(fd) = run_dump(&gcno, &bytes).map(|d| dump_functions(&d)) {
                    if let Some(msg) = sum_oracle(rep, "rec.synthetic", rs, &fd) {
                        rep.fail("oracle", None, format!("several functions per file: {}", msg), case.clone());
                    }
                }
            }
            Err(e) => rep.fail("oracle", None, format!("Gcno::compute fails on generated notes with several functions per file: {}", e), case.clone()),
        }
        reqs.push(creq);
        want.push((show_compute(&r), case.clone(), "compute"));
        let (lq, lw) = listed_req(&notes);
        reqs.push(lq);
        want.push((lw, case.clone(), "c08.listed"));
        let total: usize = gcno.len() + bytes.iter().map(|b| b.len()).sum::<usize>();
        if total < 30_000 {
            let mut rb = format!("computeb 1 {}", hex_tok(&gcno));
            for b in &bytes {
                rb.push(' ');
                rb.push_str(&hex_tok(b));
            }
            reqs.push(rb);
            want.push((show_compute(&r), case, "compute (bytes)"));
        }
    }
}

/// llvm-cov gcov disagrees with grcov for format >= 8 (item 3): a fixed program compiled with
/// `-coverage-version` 800*, A93*, B01* (finding witnessed on every run) and, for the seeded change
/// C08-4, a program of statements spread over several lines compiled in the default formats
const RANGE_PROG: &str = "#include <stdlib.h>\nint g;\nint f(int a)\n{\n  int r = 0;\n  if (a > 2)\n    r = a * 2;\n  else\n    r = a + 1;\n  g += r;\n  return r;\n}\nint main(int argc, char **argv)\n{\n  int a = argc > 1 ? atoi(argv[1]) : 0;\n  int r = f(a);\n  for (int i = 0; i < a; i++)\n    r += f(i);\n  return r & 1;\n}\n";
const WRAPPED_PROG: &str = "#include <stdlib.h>\n#include <stdio.h>\nint g;\nstatic int add3(int a, int b, int c) { return a + b + c; }\nstatic int scale(int v, int by) {\n  return v *\n    by;\n}\nint work(int n)\n{\n  int acc = 0;\n  for (int i = 0; i < n; i++) {\n    acc = add3(acc,\n               scale(i, 2),\n               1);\n    if (i & 1)\n      acc = add3(acc,\n                 i,\n                 g);\n  }\n  int total = acc +\n    n;\n  return total;\n}\nint main(int argc, char **argv)\n{\n  int n = argc > 1 ? atoi(argv[1]) : 3;\n  int r = work(n);\n  r = add3(r,\n           work(n + 1),\n           2);\n  printf(\"%d %d\\n\", r,\n         n);\n  return 0;\n}\n";

fn programs(rep: &mut Report, reqs: &mut Vec<String>, want: &mut Vec<(String, Value, &'static str)>) {
    let have_tools = std::process::Command::new("clang-14").arg("--version").output().map(|o| o.status.success()).unwrap_or(false)
        && std::process::Command::new("llvm-cov-14").arg("--version").output().map(|o| o.status.success()).unwrap_or(false);
    if !have_tools {
        rep.count("rec.program.tools_missing");
        return;
    }
    let mut jobs: Vec<(&str, &str, &str)> = vec![
        ("range", RANGE_PROG, "800*"),
        ("range", RANGE_PROG, "A93*"),
        ("range", RANGE_PROG, "B01*"),
        // the thresholds of the reader (90: cwd string, 80: new layout, 47: cfg checksum) met exactly
        ("range", RANGE_PROG, "A90*"),
        ("range", RANGE_PROG, "A89*"),
        ("range", RANGE_PROG, "709*"),
        ("wrapped", WRAPPED_PROG, "407*"),
        ("wrapped", WRAPPED_PROG, "406*"),
        ("wrapped", WRAPPED_PROG, "408*"),
        ("wrapped", WRAPPED_PROG, "402*"),
    ];
    if rep.thorough() {
        jobs.push(("range", RANGE_PROG, "900*"));
        jobs.push(("range", RANGE_PROG, "A91*"));
        jobs.push(("range", RANGE_PROG, "801*"));
        jobs.push(("range", RANGE_PROG, "408*"));
        jobs.push(("wrapped", WRAPPED_PROG, "800*"));
    }
    for (k, (name, src, ver)) in jobs.into_iter().enumerate() {
        if rep.verdict_clear() {
            break;
        }
        let p = super::Program { main_c: src.to_string(), inc_h: "/* unused */\n".to_string() };
        let profiles: Vec<Vec<String>> = vec![vec!["4".into()], vec![], vec!["1".into()]];
        let case = json!({"op": "program", "prog_c": p.main_c, "inc_h": p.inc_h, "profiles": profiles, "coverage_version": ver, "fixed": name});
        match super::build_and_run_v(&rep.workdir.join(format!("rec{}", k)), &p, &profiles, Some(ver)) {
            Ok(c) => {
                rep.count(&format!("rec.program.{}.{}", name, ver));
                let mut rq = Vec::new();
                let mut p2 = Vec::new();
                super::check_compiled(rep, &c, &case, &mut rq, &mut p2, false);
                for (r, (impl_out, cj, what)) in rq.into_iter().zip(p2.into_iter()) {
                    if what == "tree" {
                        continue;
                    }
                    let w: &'static str = match what.as_str() {
                        "state" => "state",
                        "c08.listed" => "c08.listed",
                        _ => "compute",
                    };
                    reqs.push(r);
                    want.push((impl_out, cj, w));
                }
                let _ = std::fs::remove_file(c.dir.join("prog"));
            }
            Err(e) => rep.notes.push(format!("rec.program {} {} not run: {}", name, ver, e.lines().next().unwrap_or(""))),
        }
    }
}

pub fn run(rep: &mut Report) {
    rep.rule.push_str(
        " | rec.synthetic: 2-3 spanning-tree functions in ONE file, two thirds of them on the line range of the first \
         (shared lines), formats 402*/408*/800*/A93*/B01* (format >= 8 with a tight end line in half of the functions), \
         lines repeated inside a block, every fifth case with non-UTF-8 names; rec.program: two fixed programs (statements \
         spread over several lines; if/else/for) compiled with -coverage-version 800*/A93*/B01*/408*/402*",
    );
    let mut rng = Rng::new(rep.seed ^ 0xC08_4EC);
    let mut reqs: Vec<String> = Vec::new();
    let mut want: Vec<(String, Value, &'static str)> = Vec::new();
    synthetic(rep, &mut rng, &mut reqs, &mut want);
    programs(rep, &mut reqs, &mut want);
    let answers = run_model_named("gm_c08", &reqs, &rep.workdir, "rec");
    let cut = |s: &str| if s.len() > 600 { format!("{}…", &s[..600]) } else { s.to_string() };
    for (i, (w, case, what)) in want.iter().enumerate() {
        if &answers[i] != w {
            rep.disagreements_checked += 1;
            rep.count(&format!("rec.disagreement.{}", what));
            let mut cj = case.clone();
            cj["impl"] = json!(cut(w));
            cj["model"] = json!(cut(&answers[i]));
            cj["request"] = json!(cut(&reqs[i]));
            let msg = if *what == "c08.listed" {
                "the record-level reading `listed` of Gcno/Records.lean differs from the independent reading of the LINES records".to_string()
            } else {
                format!("Gcno::{} differs from the model on notes with several functions per file", what)
            };
            rep.fail("disagreement", None, msg, cj);
        }
    }
}

pub fn replay(rep: &mut Report, case: &Value) {
    let gcno = unhex(case["gcno"].as_str().unwrap_or(""));
    let gcdas: Vec<Vec<u8>> = case["gcdas"].as_array().map(|a| a.iter().map(|v| unhex(v.as_str().unwrap_or(""))).collect()).unwrap_or_default();
    let r = run_compute(&gcno, &gcdas, true);
    let mut reqs = Vec::new();
    let mut want = Vec::new();
    if let Some(notes) = decode_gcno(&gcno) {
        if let Ok(rs) = &r {
            let kept = listed_kept(&notes);
            let ours: Listed = rs.iter().map(|(k, c)| (k.as_bytes().to_vec(), c.lines.keys().copied().collect::<BTreeSet<u32>>())).filter(|(_, s): &(Vec<u8>, BTreeSet<u32>)| !s.is_empty()).collect();
            if ours != kept {
                rep.fail("oracle", None, "the instrumented lines of the result are not the listed lines within the functions' ranges".into(), case.clone());
            }
            if let Some(fd) = run_dump(&gcno, &gcdas).map(|d| dump_functions(&d)) {
                if let Some(msg) = sum_oracle(rep, "rec.synthetic", rs, &fd) {
                    rep.fail("oracle", None, format!("several functions per file: {}", msg), case.clone());
                }
            }
        }
        let (lq, lw) = listed_req(&notes);
        reqs.push(lq);
        want.push(lw);
    }
    if let Some(req) = case["compute_req"].as_str() {
        rep.case(req, true);
        reqs.push(req.to_string());
        want.push(show_compute(&r));
    }
    let answers = run_model_named("gm_c08", &reqs, &rep.workdir, "replay");
    for (a, w) in answers.iter().zip(want.iter()) {
        if a != w {
            rep.disagreements_checked += 1;
            rep.fail("disagreement", None, format!("impl {} / model {}", w.chars().take(200).collect::<String>(), a.chars().take(200).collect::<String>()), case.clone());
        }
    }
}
