int f(unsigned x)
{ int s=0,i=0,fuel=40; do{if((x=x*1103515245u+12345u,(x>>16)&1)){for(i=0;i<2&&fuel-->0;i++){s++;L1: for(i=0;i<3&&fuel-->0;i++){s++;}if((x=x*1103515245u+12345u,(x>>16)&2))break;}s++;}L2: while((x=x*1103515245u+12345u,(x>>16)&2)&&fuel-->0){s++;L3: if((x=x*1103515245u+12345u,(x>>16)&1)){if((x=x*1103515245u+12345u,(x>>16)&2)){s++;s++;s++;}else{s++;}while((x=x*1103515245u+12345u,(x>>16)&1)&&fuel-->0){s++;}if((x=x*1103515245u+12345u,(x>>16)&1)&&fuel-->0)goto L1;}}}while((x=x*1103515245u+12345u,(x>>16)&1)&&fuel-->0);L4: if((x=x*1103515245u+12345u,(x>>16)&1)&&fuel-->0)goto L1;s++; return s+i; }
int main(void)
{
  int t=0;
  t+=f(477008626u);
  return t==123456;
}
