#!/usr/bin/env python3
# Random one-line C programs; compare llvm-cov gcov with two grcov binaries.
import os, random, re, shutil, subprocess, sys

W = os.path.dirname(os.path.abspath(__file__))
ORIG = os.path.join(W, "grcov.orig")
NEW = os.path.join(W, "grcov.new")

COND = "(x=x*1103515245u+12345u,(x>>16)&{m})"


class Gen:
    def __init__(self, rnd, use_goto):
        self.r = rnd
        self.labels = 0
        self.use_goto = use_goto
        self.gotos = []

    def cond(self):
        return COND.format(m=self.r.choice([1, 1, 3, 2]))

    def stmt(self, depth, inloop):
        r = self.r
        k = r.random()
        pre = ""
        if self.use_goto and r.random() < 0.25:
            self.labels += 1
            pre = "L%d: " % self.labels
        if depth <= 0 or k < 0.25:
            return pre + "s++;"
        if k < 0.40:
            return pre + "if(%s){%s}else{%s}" % (self.cond(), self.stmts(depth - 1, inloop), self.stmts(depth - 1, inloop))
        if k < 0.50:
            return pre + "if(%s){%s}" % (self.cond(), self.stmts(depth - 1, inloop))
        if k < 0.65:
            return pre + "for(i=0;i<%d&&fuel-->0;i++){%s}" % (r.randint(1, 3), self.stmts(depth - 1, True))
        if k < 0.78:
            return pre + "while(%s&&fuel-->0){%s}" % (self.cond(), self.stmts(depth - 1, True))
        if k < 0.86:
            return pre + "do{%s}while(%s&&fuel-->0);" % (self.stmts(depth - 1, True), self.cond())
        if k < 0.91 and inloop:
            return pre + "if(%s)continue;" % self.cond()
        if k < 0.96 and inloop:
            return pre + "if(%s)break;" % self.cond()
        if self.use_goto:
            return pre + "if(%s&&fuel-->0)goto @;" % self.cond()
        return pre + "s+=2;"

    def stmts(self, depth, inloop):
        n = self.r.randint(1, 3)
        return "".join(self.stmt(depth, inloop) for _ in range(n))

    def program(self):
        body = self.stmts(self.r.randint(2, 4), False)
        if self.labels == 0:
            body = body.replace("goto @;", "s+=3;")
        else:
            while "@" in body:
                body = body.replace("@", "L%d" % self.r.randint(1, self.labels), 1)
        calls = self.r.randint(1, 6)
        seeds = [self.r.randint(0, 1 << 30) for _ in range(calls)]
        src = "int f(unsigned x)\n{ int s=0,i=0,fuel=40; " + body + " return s+i; }\n"
        src += "int main(void)\n{\n  int t=0;\n"
        for sd in seeds:
            src += "  t+=f(%du);\n" % sd
        src += "  return t==123456;\n}\n"
        return src


def run(cmd, cwd):
    return subprocess.run(cmd, cwd=cwd, stdout=subprocess.PIPE, stderr=subprocess.PIPE, text=True)


def gcov_counts(d):
    r = run(["llvm-cov", "gcov", "a.c"], d)
    res = {}
    for l in open(os.path.join(d, "a.c.gcov")):
        m = re.match(r"\s*([^:]+):\s*(\d+):", l)
        if not m or m.group(2) == "0":
            continue
        c = m.group(1).strip()
        if c == "-":
            continue
        c = c.rstrip("*")
        res[int(m.group(2))] = 0 if c in ("#####", "=====") else int(c)
    return res


def grcov_counts(binary, d):
    r = run([binary, ".", "--llvm", "-t", "lcov", "-s", "."], d)
    res = {}
    for l in r.stdout.splitlines():
        if l.startswith("DA:"):
            a, b = l[3:].split(",")[:2]
            res[int(a)] = int(b)
    return res


def one(seed, d, use_goto):
    rnd = random.Random(seed)
    src = Gen(rnd, use_goto).program()
    shutil.rmtree(d, ignore_errors=True)
    os.makedirs(d)
    open(os.path.join(d, "a.c"), "w").write(src)
    r = run(["clang", "--coverage", "-O0", "-w", "a.c", "-o", "a"], d)
    if r.returncode != 0:
        return None
    try:
        subprocess.run(["./a"], cwd=d, timeout=5)
    except subprocess.TimeoutExpired:
        return None
    ref = gcov_counts(d)
    o = grcov_counts(ORIG, d)
    n = grcov_counts(NEW, d) if os.path.exists(NEW) else o
    return src, ref, o, n


if __name__ == "__main__":
    start = int(sys.argv[1])
    count = int(sys.argv[2])
    use_goto = len(sys.argv) > 3 and sys.argv[3] == "goto"
    d = os.path.join(W, "fz_%d" % start)
    for seed in range(start, start + count):
        res = one(seed, d, use_goto)
        if res is None:
            print(seed, "skip")
            continue
        src, ref, o, n = res
        tag = []
        if o != ref:
            tag.append("ORIG!=REF")
        if n != ref:
            tag.append("NEW!=REF")
        if o != n:
            tag.append("ORIG!=NEW")
        if tag:
            print(seed, " ".join(tag), "ref", ref.get(2), "orig", o.get(2), "new", n.get(2), "len", len(src))
            sys.stdout.flush()
    shutil.rmtree(d, ignore_errors=True)
