//! C01 — aggregation law: tie `merge_results`/`add_results` to the Lean model and evaluate the
//! property oracles on the implementation.
use corrlib::*;
use grcov::{merge_results, CovResult, Function};
use serde_json::json;
use std::sync::Mutex;

const COUNTS: &[u64] = &[
    0,
    1,
    2,
    7,
    1000,
    (1 << 32) - 1,
    1 << 32,
    (1 << 32) + 1,
    (1 << 63) - 1,
    1 << 63,
    (1 << 63) + 1,
    U64MAX - 2,
    U64MAX - 1,
    U64MAX,
];
const NAMES: &[&str] = &["f", "main", "a,b", "Cls#m", "é∀", "_ZN3foo3barEv", "<lambda>"];

pub fn gen_cov(rng: &mut Rng, rich: bool) -> CovResult {
    let mut c = CovResult::default();
    let nl = rng.below(if rich { 7 } else { 4 });
    for _ in 0..nl {
        let l = if rng.chance(1, 20) {
            u32::MAX - rng.below(2) as u32
        } else {
            rng.range(1, 8) as u32
        };
        let n = if rng.chance(1, 3) {
            rng.below(50)
        } else {
            *rng.pick(COUNTS)
        };
        c.lines.insert(l, n);
    }
    let nb = rng.below(if rich { 5 } else { 3 });
    for _ in 0..nb {
        let l = rng.range(1, 6) as u32;
        let len = rng.range(1, 6);
        c.branches
            .insert(l, (0..len).map(|_| rng.chance(1, 2)).collect());
    }
    let nf = rng.below(if rich { 5 } else { 3 });
    for _ in 0..nf {
        let i = rng.below(NAMES.len() as u64) as usize;
        let start = if rng.chance(4, 5) {
            10 + i as u32
        } else {
            rng.range(1, 100) as u32
        };
        c.functions.insert(
            NAMES[i].to_string(),
            Function {
                start,
                executed: rng.chance(1, 2),
            },
        );
    }
    c
}

fn merged(a: &CovResult, b: &CovResult) -> (CovResult, bool) {
    let mut r = a.clone();
    let f = merge_results(&mut r, b.clone());
    (r, f)
}

/// observables compared by the property: everything except function start lines
fn obs(c: &CovResult) -> String {
    let mut c = c.clone();
    for f in c.functions.values_mut() {
        f.start = 0;
    }
    show_cov(&c)
}

enum Shape {
    Leaf(usize),
    Node(Box<Shape>, Box<Shape>),
}
fn gen_shape(rng: &mut Rng, idx: &[usize]) -> Shape {
    if idx.len() == 1 {
        return Shape::Leaf(idx[0]);
    }
    let k = rng.range(1, idx.len() as u64 - 1) as usize;
    Shape::Node(
        Box::new(gen_shape(rng, &idx[..k])),
        Box::new(gen_shape(rng, &idx[k..])),
    )
}
fn eval_shape(s: &Shape, cs: &[CovResult]) -> CovResult {
    match s {
        Shape::Leaf(i) => cs[*i].clone(),
        Shape::Node(l, r) => merged(&eval_shape(l, cs), &eval_shape(r, cs)).0,
    }
}
fn show_shape(s: &Shape) -> String {
    match s {
        Shape::Leaf(i) => format!("{}", i),
        Shape::Node(l, r) => format!("({} {})", show_shape(l), show_shape(r)),
    }
}

/// closed form of C01_sum_clamped etc., computed independently of merge_results
fn closed_form(cs: &[CovResult]) -> String {
    let mut out = CovResult::default();
    for c in cs {
        for (&l, &n) in &c.lines {
            let e = out.lines.entry(l).or_insert(0u64);
            *e = ((*e as u128 + n as u128).min(u64::MAX as u128)) as u64;
        }
        for (&l, v) in &c.branches {
            let e = out.branches.entry(l).or_default();
            if e.len() < v.len() {
                e.resize(v.len(), false);
            }
            for (i, &t) in v.iter().enumerate() {
                e[i] = e[i] || t;
            }
        }
        for (n, f) in &c.functions {
            let e = out.functions.entry(n.clone()).or_insert(Function {
                start: 0,
                executed: false,
            });
            e.executed = e.executed || f.executed;
        }
    }
    obs(&out)
}

pub fn run(rep: &mut Report) {
    rep.rule = "records over a shared pool of 8 line numbers / 7 function names with boundary counts \
                (0,1,2^32±1,2^63±1,2^64-1-k); non-trivial = the two sides share a line, branch line or \
                function (merge), or the tree has ≥3 leaves (grouping), or the batch hits an existing \
                key (add_results); distinct = distinct canonical request text"
        .to_string();
    let mut rng = Rng::new(rep.seed);

    // ---- 1. merge tie --------------------------------------------------------------------
    let n_merge = rep.budget(20_000, 25);
    let mut reqs = Vec::new();
    let mut impl_out = Vec::new();
    let mut cases = Vec::new();
    for _ in 0..n_merge {
        let a = gen_cov(&mut rng, true);
        let b = gen_cov(&mut rng, true);
        let req = format!("merge {} {}", show_cov(&a), show_cov(&b));
        let r = guarded(|| merged(&a, &b));
        let out = match &r {
            Ok((c, f)) => format!("{} {}", show_cov(c), if *f { 1 } else { 0 }),
            Err(p) => format!("panic {}", p),
        };
        let shares = a.lines.keys().any(|k| b.lines.contains_key(k))
            || a.branches.keys().any(|k| b.branches.contains_key(k))
            || a.functions.keys().any(|k| b.functions.contains_key(k));
        if a.lines.iter().any(|(k, v)| {
            b.lines
                .get(k)
                .map(|w| v.checked_add(*w).is_none())
                .unwrap_or(false)
        }) {
            rep.count("merge.saturating");
        }
        if a.branches.iter().any(|(k, v)| {
            b.branches
                .get(k)
                .map(|w| w.len() > v.len())
                .unwrap_or(false)
        }) {
            rep.count("merge.right_vector_longer");
        }
        if a.branches.iter().any(|(k, v)| {
            b.branches
                .get(k)
                .map(|w| w.len() < v.len())
                .unwrap_or(false)
        }) {
            rep.count("merge.right_vector_shorter");
        }
        if a.functions.iter().any(|(k, f)| {
            b.functions
                .get(k)
                .map(|g| g.start != f.start)
                .unwrap_or(false)
        }) {
            rep.count("merge.start_disagrees");
        }
        rep.case(&req, shares);
        reqs.push(req);
        impl_out.push(out);
        cases.push((a, b));
    }
    let model_out = run_model(&reqs, &rep.workdir, "merge");
    for i in 0..reqs.len() {
        if i < 2 {
            rep.sample(json!({"request": reqs[i], "impl": impl_out[i], "model": model_out[i]}));
        }
        if impl_out[i] != model_out[i] {
            rep.disagreements_checked += 1;
            // search: does a property oracle fail on the implementation for this case?
            let (a, b) = &cases[i];
            let what = oracle_pair(a, b);
            let case = json!({"op": "merge", "a": show_cov(a), "b": show_cov(b),
                              "impl": impl_out[i], "model": model_out[i]});
            match what {
                Some(w) => rep.fail("oracle", None, w, case),
                None => rep.fail(
                    "disagreement",
                    None,
                    "merge_results differs from Merge.merge (theorems C01_* no longer transfer)"
                        .into(),
                    case,
                ),
            }
        }
    }

    // ---- 2. oracles on the implementation ---------------------------------------------------
    let n_pairs = rep.budget(5_000, 25);
    for _ in 0..n_pairs {
        let a = gen_cov(&mut rng, false);
        let b = gen_cov(&mut rng, false);
        rep.case(&format!("pair {} {}", show_cov(&a), show_cov(&b)), true);
        if let Some(w) = oracle_pair(&a, &b) {
            rep.fail(
                "oracle",
                None,
                w,
                json!({"op": "pair", "a": show_cov(&a), "b": show_cov(&b)}),
            );
        }
        let c = gen_cov(&mut rng, false);
        let l = merged(&merged(&a, &b).0, &c).0;
        let r = merged(&a, &merged(&b, &c).0).0;
        if obs(&l) != obs(&r) {
            rep.fail(
                "oracle",
                None,
                "associativity fails: (a+b)+c != a+(b+c)".into(),
                json!({"op": "assoc", "a": show_cov(&a), "b": show_cov(&b), "c": show_cov(&c)}),
            );
        }
    }
    let n_trees = rep.budget(2_000, 25);
    for t in 0..n_trees {
        let k = rng.range(2, 7) as usize;
        let cs: Vec<CovResult> = (0..k).map(|_| gen_cov(&mut rng, false)).collect();
        let mut idx: Vec<usize> = (0..k).collect();
        rng.shuffle(&mut idx);
        let shape = gen_shape(&mut rng, &idx);
        let r = guarded(|| eval_shape(&shape, &cs));
        let want = closed_form(&cs);
        let canon = format!(
            "tree {} {}",
            show_shape(&shape),
            cs.iter().map(show_cov).collect::<Vec<_>>().join(" ")
        );
        rep.case(&canon, k >= 3);
        rep.count(&format!("tree.leaves={}", k));
        let got = match &r {
            Ok(c) => obs(c),
            Err(p) => format!("panic {}", p),
        };
        if t == 0 {
            rep.sample(json!({"tree": show_shape(&shape),
                "leaves": cs.iter().map(show_cov).collect::<Vec<_>>(), "impl_obs": got, "closed_form": want}));
        }
        if got != want {
            rep.fail(
                "oracle",
                None,
                "grouping/permutation invariance or the clamped-sum closed form fails on a tree of merges"
                    .into(),
                json!({"op": "tree", "shape": show_shape(&shape),
                       "leaves": cs.iter().map(show_cov).collect::<Vec<_>>(),
                       "impl": got, "closed_form": want}),
            );
        }
        // start line comes from some input naming the function
        if let Ok(c) = &r {
            for (n, f) in &c.functions {
                if !cs
                    .iter()
                    .any(|x| x.functions.get(n).map(|g| g.start == f.start).unwrap_or(false))
                {
                    rep.fail(
                        "oracle",
                        None,
                        format!("start line of {:?} is from no input", n),
                        json!({"op": "tree", "shape": show_shape(&shape),
                               "leaves": cs.iter().map(show_cov).collect::<Vec<_>>()}),
                    );
                }
            }
        }
    }

    // ---- 3. add_results tie --------------------------------------------------------------------
    add_results_tie(rep, &mut rng);

    if rep.thorough() {
        exhaustive_small(rep);
    }
}

/// commutativity, identity, monotonicity, pointwise law on one pair, evaluated on the real code
fn oracle_pair(a: &CovResult, b: &CovResult) -> Option<String> {
    let ab = match guarded(|| merged(a, b)) {
        Ok(x) => x.0,
        Err(p) => return Some(format!("merge_results panicked: {}", p)),
    };
    let ba = match guarded(|| merged(b, a)) {
        Ok(x) => x.0,
        Err(p) => return Some(format!("merge_results panicked: {}", p)),
    };
    if obs(&ab) != obs(&ba) {
        return Some("commutativity fails: a+b != b+a on lines/branches/executed flags".into());
    }
    if obs(&ab) != closed_form(&[a.clone(), b.clone()]) {
        return Some(
            "pointwise law fails: not (clamped sum, slot-wise OR over the longer vector, executed OR)"
                .into(),
        );
    }
    let e = CovResult::default();
    if merged(a, &e).0 != *a || obs(&merged(&e, a).0) != obs(a) {
        return Some("identity fails: merging with an empty record changes the data".into());
    }
    // monotone
    for (l, v) in &a.lines {
        match ab.lines.get(l) {
            Some(w) if w >= v => {}
            _ => return Some(format!("line {} count lowered or removed", l)),
        }
    }
    for (l, v) in &a.branches {
        match ab.branches.get(l) {
            Some(w) if w.len() >= v.len() && v.iter().zip(w).all(|(x, y)| !*x || *y) => {}
            _ => return Some(format!("branch line {} shrank or lost a taken branch", l)),
        }
    }
    for (n, f) in &a.functions {
        match ab.functions.get(n) {
            Some(g) if (!f.executed || g.executed) && g.start == f.start => {}
            _ => return Some(format!("function {:?} removed, cleared or restarted", n)),
        }
    }
    None
}

fn add_results_tie(rep: &mut Report, rng: &mut Rng) {
    // a small source tree: files a/b.c, a/d.c, e.c exist; others do not
    let root = rep.workdir.join("src_tree");
    std::fs::create_dir_all(root.join("a")).unwrap();
    for f in ["a/b.c", "a/d.c", "e.c"] {
        std::fs::write(root.join(f), "x\n").unwrap();
    }
    let root = std::fs::canonicalize(&root).unwrap();
    let spellings: Vec<String> = vec![
        "a/b.c".into(),
        "a/./b.c".into(),
        "a//b.c".into(),
        "x/../a/b.c".into(), // x does not exist: canonicalize fails, key kept
        "a/../a/b.c".into(),
        "a/d.c".into(),
        "e.c".into(),
        "./e.c".into(),
        "missing.c".into(),
        "a/missing.c".into(),
        format!("{}/a/b.c", root.display()),
        format!("{}/e.c", root.display()),
        "/nonexistent/z.c".into(),
    ];
    let n = rep.budget(1_500, 20);
    let mut reqs = vec![];
    let mut impl_out = vec![];
    let mut oracle_failed: Vec<usize> = vec![];
    for i in 0..n {
        let with_dir = rng.chance(1, 2);
        let nb = rng.range(1, 4);
        let mut batches: Vec<Vec<(String, CovResult)>> = vec![];
        for _ in 0..nb {
            let k = rng.range(0, 4);
            batches.push(
                (0..k)
                    .map(|_| (rng.pick(&spellings).clone(), gen_cov(rng, false)))
                    .collect(),
            );
        }
        // directed: a batch in which an EARLIER record saturates a counter of a file that is
        // already in the map and a LATER record names a file that is in the map too (every
        // record of a batch must be folded in, whatever the earlier ones did)
        if i % 5 == 4 {
            let (f1, f2) = (rng.pick(&spellings).clone(), rng.pick(&spellings).clone());
            let l = rng.range(1, 8) as u32;
            let mut big = gen_cov(rng, false);
            big.lines.insert(l, U64MAX - rng.below(3));
            let mut more = gen_cov(rng, false);
            more.lines.insert(l, rng.range(3, 9));
            batches.insert(0, vec![(f1.clone(), big), (f2.clone(), gen_cov(rng, false))]);
            let mut late = vec![(f1, more), (f2, gen_cov(rng, true))];
            for _ in 0..rng.below(2) {
                late.push((rng.pick(&spellings).clone(), gen_cov(rng, false)));
            }
            batches.insert(1, late);
            rep.count("addresults.directed_saturation_then_existing_key");
        }
        // canon table, computed independently with std
        let mut tab = vec![];
        if with_dir {
            for s in &spellings {
                if let Ok(p) = std::fs::canonicalize(root.join(s)) {
                    tab.push(format!(
                        "{}={}",
                        hex(s.as_bytes()),
                        hex(p.to_str().unwrap().as_bytes())
                    ));
                }
            }
        }
        let flat: Vec<&(String, CovResult)> = batches.iter().flatten().collect();
        let mut seen = std::collections::HashSet::new();
        let hits_existing = flat.iter().any(|(k, _)| !seen.insert(k.clone()));
        let req = format!(
            "addresults C{} {}",
            tab.join(","),
            flat.iter()
                .map(|(k, c)| format!("K{}={}", hex(k.as_bytes()), show_cov(c)))
                .collect::<Vec<_>>()
                .join(" ")
        );
        let req = req.trim_end().to_string();
        let map: Mutex<grcov::CovResultMap> = Mutex::new(Default::default());
        let snaps: Mutex<Vec<Vec<(String, CovResult)>>> = Mutex::new(vec![]);
        let r = guarded(|| {
            for b in &batches {
                grcov::verif_add_results(
                    b.clone(),
                    &map,
                    if with_dir { Some(root.as_path()) } else { None },
                );
                let m = map.lock().unwrap();
                snaps.lock().unwrap().push(m.iter().map(|(k, c)| (k.clone(), c.clone())).collect());
            }
        });
        // property oracle on the implementation's own maps (independent of the model)
        if r.is_ok() {
            let snaps = snaps.lock().unwrap();
            let dir = if with_dir { Some(root.as_path()) } else { None };
            if let Some(w) = oracle_add_results(&batches, &snaps, dir) {
                rep.fail(
                    "oracle",
                    None,
                    w,
                    json!({"op": "addresults", "request": req, "with_dir": with_dir,
                        "batches": batches.iter().map(|b| b.iter().map(|(k, c)| json!([k, show_cov(c)])).collect::<Vec<_>>()).collect::<Vec<_>>()}),
                );
                oracle_failed.push(i as usize);
            }
            // the same batches in reverse order: the same observables (order independence)
            let map2: Mutex<grcov::CovResultMap> = Mutex::new(Default::default());
            let r2 = guarded(|| {
                for b in batches.iter().rev() {
                    grcov::verif_add_results(b.clone(), &map2, dir);
                }
            });
            if r2.is_ok() && batches.len() >= 2 {
                let show = |m: &grcov::CovResultMap| {
                    let mut v: Vec<String> = m.iter().map(|(k, c)| format!("{}={}", k, obs(c))).collect();
                    v.sort();
                    v.join(" ")
                };
                let (m1, m2) = (map.lock().unwrap(), map2.lock().unwrap());
                if show(&m1) != show(&m2) && !oracle_failed.contains(&(i as usize)) {
                    rep.fail("oracle", None, "add_results: the same batches merged in reverse order give different line counts / branch vectors / executed flags".into(),
                        json!({"op": "addresults", "request": req, "with_dir": with_dir}));
                    oracle_failed.push(i as usize);
                }
            }
        }
        let out = match r {
            Ok(()) => {
                let m = map.lock().unwrap();
                let v: Vec<(String, CovResult)> =
                    m.iter().map(|(k, c)| (k.clone(), c.clone())).collect();
                show_results(&v)
            }
            Err(p) => format!("panic {}", p),
        };
        rep.case(&req, hits_existing);
        rep.count(if with_dir {
            "addresults.with_source_dir"
        } else {
            "addresults.no_source_dir"
        });
        if i == 0 {
            rep.sample(json!({"request": req, "impl": out}));
        }
        reqs.push(req);
        impl_out.push(out);
    }
    let model_out = run_model(&reqs, &rep.workdir, "addresults");
    for i in 0..reqs.len() {
        if impl_out[i] != model_out[i] {
            rep.disagreements_checked += 1;
            if oracle_failed.contains(&i) {
                continue; // already reported with its failing input by the oracle
            }
            rep.fail(
                "disagreement",
                None,
                "add_results differs from Merge.addResults (C01_identity / C01_add_results_entry no longer transfer)".into(),
                json!({"op": "addresults", "request": reqs[i], "impl": impl_out[i], "model": model_out[i]}),
            );
        }
    }
}

/// C01 at the level of the result map, evaluated on the maps `add_results` produced (`snaps[j]` =
/// the map after batch j), independently of `merge_results` and of the model:
///  * the final map has exactly one entry per canonical key named by some record, and that entry
///    is the closed form (clamped sum, slot-wise OR over the longest vector, executed OR) of ALL
///    records filed under the key, whatever came before them in their batch;
///  * a function's start line is that of some record naming it;
///  * from one batch to the next nothing is removed, lowered, shortened or cleared.
fn oracle_add_results(
    batches: &[Vec<(String, CovResult)>],
    snaps: &[Vec<(String, CovResult)>],
    source_dir: Option<&std::path::Path>,
) -> Option<String> {
    use std::collections::BTreeMap;
    let canon = |k: &str| -> String {
        match source_dir {
            Some(d) => match std::fs::canonicalize(d.join(k)) {
                Ok(p) if p.to_str().is_some() => p.to_str().unwrap().to_string(),
                _ => k.to_string(),
            },
            None => k.to_string(),
        }
    };
    let mut by_key: BTreeMap<String, Vec<CovResult>> = BTreeMap::new();
    for (j, b) in batches.iter().enumerate() {
        for (k, c) in b {
            by_key.entry(canon(k)).or_default().push(c.clone());
        }
        let got: BTreeMap<String, CovResult> = snaps[j].iter().cloned().collect();
        if got.len() != snaps[j].len() {
            return Some("add_results: a key occurs twice in the result map".into());
        }
        if got.keys().collect::<Vec<_>>() != by_key.keys().collect::<Vec<_>>() {
            return Some(format!("add_results: after batch {} the files of the result map are not exactly the files named so far (canonical spelling)", j));
        }
        for (k, cs) in &by_key {
            let g = &got[k];
            if obs(g) != closed_form(cs) {
                return Some(format!(
                    "add_results: after batch {} the record of {:?} is not the aggregate of the {} records filed under it (a record of the batch was dropped, counted twice or mixed): report {} expected {}",
                    j, k, cs.len(), obs(g), closed_form(cs)));
            }
            for (n, f) in &g.functions {
                if !cs.iter().any(|x| x.functions.get(n).map(|h| h.start == f.start).unwrap_or(false)) {
                    return Some(format!("add_results: start line of {:?} in {:?} is from no input", n, k));
                }
            }
        }
        if j > 0 {
            let prev: BTreeMap<String, CovResult> = snaps[j - 1].iter().cloned().collect();
            for (k, a) in &prev {
                let Some(b) = got.get(k) else { return Some(format!("add_results: file {:?} removed from the report by batch {}", k, j)) };
                let lines_ok = a.lines.iter().all(|(l, v)| b.lines.get(l).map(|w| w >= v).unwrap_or(false));
                let br_ok = a.branches.iter().all(|(l, v)| b.branches.get(l).map(|w| w.len() >= v.len() && v.iter().zip(w).all(|(x, y)| !*x || *y)).unwrap_or(false));
                let fn_ok = a.functions.iter().all(|(n, f)| b.functions.get(n).map(|g| (!f.executed || g.executed) && g.start == f.start).unwrap_or(false));
                if !(lines_ok && br_ok && fn_ok) {
                    return Some(format!("add_results: batch {} lowered or removed a line, branch or function of {:?} (the report must only grow)", j, k));
                }
            }
        }
    }
    None
}

/// thorough: all pairs of records over 2 lines × counts {absent,0,1,MAX-1,MAX} × one branch line
/// with vectors of length ≤ 2 × one function {absent, not executed, executed}
fn exhaustive_small(rep: &mut Report) {
    let counts: [Option<u64>; 5] = [None, Some(0), Some(1), Some(U64MAX - 1), Some(U64MAX)];
    let vecs: Vec<Option<Vec<bool>>> = vec![
        None,
        Some(vec![false]),
        Some(vec![true]),
        Some(vec![false, false]),
        Some(vec![true, false]),
        Some(vec![false, true]),
        Some(vec![true, true]),
    ];
    let fns: [Option<bool>; 3] = [None, Some(false), Some(true)];
    let mut recs = vec![];
    for c1 in counts {
        for c2 in counts {
            for v in &vecs {
                for f in fns {
                    let mut c = CovResult::default();
                    if let Some(n) = c1 {
                        c.lines.insert(1, n);
                    }
                    if let Some(n) = c2 {
                        c.lines.insert(2, n);
                    }
                    if let Some(v) = v {
                        c.branches.insert(1, v.clone());
                    }
                    if let Some(e) = f {
                        c.functions.insert(
                            "f".into(),
                            Function {
                                start: 1,
                                executed: e,
                            },
                        );
                    }
                    recs.push(c);
                }
            }
        }
    }
    let mut n = 0u64;
    for a in &recs {
        for b in &recs {
            n += 1;
            if let Some(w) = oracle_pair(a, b) {
                rep.fail(
                    "oracle",
                    None,
                    w,
                    json!({"op": "pair", "a": show_cov(a), "b": show_cov(b)}),
                );
            }
        }
    }
    rep.evaluations += n;
    rep.count_n("exhaustive_small.pairs", n);
}

/// replay of one recorded case
pub fn replay(rep: &mut Report, case: &serde_json::Value) {
    match case["op"].as_str().unwrap_or("") {
        "merge" | "pair" => {
            let a = parse_cov(case["a"].as_str().unwrap());
            let b = parse_cov(case["b"].as_str().unwrap());
            let req = format!("merge {} {}", show_cov(&a), show_cov(&b));
            let out = match guarded(|| merged(&a, &b)) {
                Ok((c, f)) => format!("{} {}", show_cov(&c), if f { 1 } else { 0 }),
                Err(p) => format!("panic {}", p),
            };
            let m = run_model(&[req.clone()], &rep.workdir, "replay");
            rep.case(&req, true);
            if let Some(w) = oracle_pair(&a, &b) {
                rep.fail("oracle", None, w, case.clone());
            } else if m[0] != out {
                rep.fail("disagreement", None, "merge differs from model".into(), case.clone());
            }
        }
        "assoc" => {
            let a = parse_cov(case["a"].as_str().unwrap());
            let b = parse_cov(case["b"].as_str().unwrap());
            let c = parse_cov(case["c"].as_str().unwrap());
            rep.case("assoc", true);
            let l = merged(&merged(&a, &b).0, &c).0;
            let r = merged(&a, &merged(&b, &c).0).0;
            if obs(&l) != obs(&r) {
                rep.fail("oracle", None, "associativity fails".into(), case.clone());
            }
        }
        "tree" => {
            let cs: Vec<CovResult> = case["leaves"]
                .as_array()
                .unwrap()
                .iter()
                .map(|v| parse_cov(v.as_str().unwrap()))
                .collect();
            // replay as left fold and right fold against the closed form
            rep.case("tree", true);
            let mut l = CovResult::default();
            for c in &cs {
                l = merged(&l, c).0;
            }
            if obs(&l) != closed_form(&cs) {
                rep.fail("oracle", None, "fold != closed form".into(), case.clone());
            }
        }
        "addresults" if case.get("batches").is_some() => {
            // the recorded batches against a freshly built source tree of the same shape
            let root = rep.workdir.join("src_tree");
            std::fs::create_dir_all(root.join("a")).unwrap();
            for f in ["a/b.c", "a/d.c", "e.c"] {
                std::fs::write(root.join(f), "x\n").unwrap();
            }
            let root = std::fs::canonicalize(&root).unwrap();
            let batches: Vec<Vec<(String, CovResult)>> = case["batches"].as_array().unwrap().iter()
                .map(|b| b.as_array().unwrap().iter().map(|e| (e[0].as_str().unwrap().to_string(), parse_cov(e[1].as_str().unwrap()))).collect())
                .collect();
            let dir = if case["with_dir"].as_bool().unwrap_or(false) { Some(root.as_path()) } else { None };
            let map: Mutex<grcov::CovResultMap> = Mutex::new(Default::default());
            let mut snaps = vec![];
            for b in &batches {
                grcov::verif_add_results(b.clone(), &map, dir);
                snaps.push(map.lock().unwrap().iter().map(|(k, c)| (k.clone(), c.clone())).collect());
            }
            rep.case("addresults", true);
            if let Some(w) = oracle_add_results(&batches, &snaps, dir) {
                rep.fail("oracle", None, w, case.clone());
            }
        }
        "addresults" => {
            rep.notes
                .push("addresults replays need the generated tree; re-run with the same seed".into());
        }
        _ => {}
    }
}

fn main() {
    corrlib::run_main("C01", run, replay);
}
