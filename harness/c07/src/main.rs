//! C07 — always terminates; worker failure is neither a hang nor a silent success.
//! Fault injection through the cfg hook: chosen inputs are rejected (parser error) or kill the
//! worker that picks them up; the process must terminate, exit non-zero iff a worker died, and
//! otherwise report exactly the aggregate of the inputs that were not rejected. The event log
//! must be a run of the Lean `Pipeline` model with those faults.
use corrlib::pipe::*;
use corrlib::*;
use serde_json::json;
use std::time::Duration;

const LIMIT_S: u64 = 20;

struct Scenario {
    inputs: Vec<Input>,
    die: Vec<usize>,
    reject: Vec<usize>,
    threads: usize,
    perturb: Option<u64>,
    shuffle_seed: u64,
}

fn run_scenario(rep: &mut Report, tag: &str, sc: &Scenario, reqs: &mut Vec<String>, ctx: &mut Vec<serde_json::Value>) {
    let dir = rep.workdir.join(tag);
    let _ = std::fs::remove_dir_all(&dir);
    write_inputs(&dir, &sc.inputs);
    let mut args: Vec<String> = sc.inputs.iter().map(|i| i.name.clone()).collect();
    Rng::new(sc.shuffle_seed).shuffle(&mut args);
    let die_ids: Vec<String> = sc.die.iter().map(|&i| sc.inputs[i].id.clone()).collect();
    let rej_ids: Vec<String> = sc.reject.iter().map(|&i| sc.inputs[i].id.clone()).collect();
    let mut fault = vec![];
    if !die_ids.is_empty() {
        fault.push(format!("panic:{}", die_ids.join(",")));
    }
    if !rej_ids.is_empty() {
        fault.push(format!("reject:{}", rej_ids.join(",")));
    }
    let cfg = RunCfg {
        dir: &dir,
        args: args.clone(),
        threads: sc.threads,
        perturb: sc.perturb,
        fault: if fault.is_empty() { None } else { Some(fault.join(";")) },
        limit: Duration::from_secs(LIMIT_S),
        extra: vec!["-t".into(), "lcov".into(), "--branch".into(), "--no-demangle".into()],
    };
    let out = run_grcov(&cfg);
    let case = json!({"op": "faults", "threads": sc.threads, "args": args, "perturb": sc.perturb,
        "die": sc.die, "reject": sc.reject, "shuffle_seed": sc.shuffle_seed,
        "inputs": sc.inputs.iter().map(|i| json!({"name": i.name, "hex": hex(&i.bytes)})).collect::<Vec<_>>()});
    rep.case(
        &format!("{} {:?} {:?} {:?} {:?}", sc.threads, args, sc.perturb, sc.die, sc.reject),
        !sc.die.is_empty() || !sc.reject.is_empty(),
    );
    rep.count(&format!("threads={}", sc.threads));
    rep.count(&format!("dies={}", sc.die.len()));
    rep.count(&format!("rejects={}", sc.reject.len()));
    if sc.die.len() >= sc.threads {
        rep.count("all_workers_can_die");
    }
    match out.exit {
        None => {
            rep.count("outcome.hang");
            rep.fail(
                "oracle",
                None,
                format!("grcov did not terminate within {} s (worker failure must not hang the process)", LIMIT_S),
                case.clone(),
            );
            return;
        }
        Some(code) => {
            rep.count(&format!("outcome.exit={}", if code == 0 { "0" } else { "nonzero" }));
            if !sc.die.is_empty() && code == 0 {
                rep.fail("oracle", None, "a worker thread died but grcov exited with status 0".into(), case.clone());
                return;
            }
            if sc.die.is_empty() {
                if code != 0 {
                    rep.fail("oracle", None, format!("no worker died but grcov exited with status {}", code), case.clone());
                    return;
                }
                let kept: Vec<&Input> = sc
                    .inputs
                    .iter()
                    .enumerate()
                    .filter(|(i, _)| !sc.reject.contains(i))
                    .map(|(_, x)| x)
                    .collect();
                let want = show_map(&aggregate(&kept));
                match decode_lcov_report(&out.stdout) {
                    Ok(m) => {
                        let got = show_map(&m);
                        if got != want {
                            rep.fail(
                                "oracle",
                                None,
                                "with rejected inputs the report is not exactly the aggregate of the remaining inputs".into(),
                                json!({"case": case, "report": got, "aggregate": want}),
                            );
                        }
                    }
                    Err(e) => rep.fail("oracle", None, format!("report is not valid lcov: {}", e), case.clone()),
                }
            }
        }
    }
    match log_to_request(&out, sc.threads, false, sc.inputs.len(), &die_ids) {
        Ok(req) => {
            if reqs.len() < 2 {
                rep.sample(json!({"threads": sc.threads, "die": sc.die, "reject": sc.reject, "exit": out.exit, "request": req}));
            }
            reqs.push(req);
            ctx.push(json!({"case": case, "exit": out.exit,
                "log": out.log.iter().map(|e| format!("{} {} {}", e.0, e.1, e.2)).collect::<Vec<_>>()}));
        }
        Err(e) => rep.fail("oracle", None, format!("event log is inconsistent: {}", e), case.clone()),
    }
}

pub fn run(rep: &mut Report) {
    rep.rule = "input sets of 2-12 .info/.xml files; subsets of 0-3 inputs kill their worker and 0-2 are rejected \
                by the parser; --threads in {1,2,3,4}; seeded perturbation; first the fixed scenarios in which \
                every worker dies with more queued items than queue slots (the deadlock of the original code); \
                non-trivial = at least one fault; distinct = distinct (inputs, faults, threads, order, seed)"
        .to_string();
    let mut rng = Rng::new(rep.seed ^ 0xC07);
    let mut reqs = vec![];
    let mut ctx = vec![];
    // fixed scenarios: all workers die early, many items remain (witness of the repaired deadlock)
    for (t, (threads, k)) in [(1usize, 5usize), (1, 9), (2, 12), (3, 14)].iter().enumerate() {
        let inputs = gen_inputs(&mut rng, *k);
        // every input kills its worker: whichever items are picked up first, all workers die
        let die: Vec<usize> = (0..*k).collect();
        let sc = Scenario { inputs, die, reject: vec![], threads: *threads, perturb: None, shuffle_seed: t as u64 };
        run_scenario(rep, &format!("fixed{}", t), &sc, &mut reqs, &mut ctx);
    }
    let n = rep.budget(150, 20);
    for i in 0..n {
        let k = rng.range(2, 12) as usize;
        let inputs = gen_inputs(&mut rng, k);
        let threads = *rng.pick(&[1usize, 1, 2, 2, 3, 4]);
        let mut idx: Vec<usize> = (0..k).collect();
        rng.shuffle(&mut idx);
        let nd = *rng.pick(&[0usize, 0, 1, 1, 2, 3]).min(&k);
        let nr = (*rng.pick(&[0usize, 1, 1, 2])).min(k - nd);
        let die = idx[..nd].to_vec();
        let reject = idx[nd..nd + nr].to_vec();
        let sc = Scenario {
            inputs,
            die,
            reject,
            threads,
            perturb: if rng.chance(1, 3) { None } else { Some(rng.next() % 100000) },
            shuffle_seed: rng.next(),
        };
        run_scenario(rep, &format!("s{}", i), &sc, &mut reqs, &mut ctx);
    }
    let answers = run_model(&reqs, &rep.workdir, "pipe");
    for (i, a) in answers.iter().enumerate() {
        let exit = ctx[i]["exit"].as_i64().unwrap_or(-1);
        let ok = if exit == 0 {
            a.starts_with("accepted exit=0 ")
        } else {
            a.starts_with("accepted exit=1 ")
        };
        if !ok {
            rep.disagreements_checked += 1;
            rep.fail(
                "disagreement",
                None,
                format!("the event log (process exit {}) is not a run of the Pipeline model with these faults ({}); theorems C07_* no longer transfer", exit, a),
                json!({"context": ctx[i], "request": reqs[i], "model": a}),
            );
        }
    }
    rep.count_n("traces_validated", reqs.len() as u64);
}

pub fn replay(rep: &mut Report, case: &serde_json::Value) {
    let c = if case.get("context").is_some() { &case["context"]["case"] } else if case.get("case").is_some() { &case["case"] } else { case };
    let mut inputs = vec![];
    for i in c["inputs"].as_array().unwrap() {
        let name = i["name"].as_str().unwrap().to_string();
        let bytes = unhex(i["hex"].as_str().unwrap());
        let (format, parsed) = if name.ends_with(".xml") {
            ("JacocoXml", grcov::parse_jacoco_xml_report(std::io::BufReader::new(std::io::Cursor::new(bytes.clone()))).unwrap())
        } else {
            ("Info", grcov::parse_lcov(bytes.clone(), true).unwrap())
        };
        inputs.push(Input { name, format, id: fnv_id(format, &bytes), bytes, parsed });
    }
    let idxs = |v: &serde_json::Value| -> Vec<usize> { v.as_array().map(|a| a.iter().map(|x| x.as_u64().unwrap() as usize).collect()).unwrap_or_default() };
    let sc = Scenario {
        inputs,
        die: idxs(&c["die"]),
        reject: idxs(&c["reject"]),
        threads: c["threads"].as_u64().unwrap() as usize,
        perturb: c["perturb"].as_u64(),
        shuffle_seed: c["shuffle_seed"].as_u64().unwrap_or(0),
    };
    let mut reqs = vec![];
    let mut ctx = vec![];
    for r in 0..10 {
        run_scenario(rep, &format!("replay{}", r), &sc, &mut reqs, &mut ctx);
    }
}

fn main() {
    corrlib::run_main("C07", run, replay);
}
