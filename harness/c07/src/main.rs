//! C07 — always terminates; worker failure is neither a hang nor a silent success.
//! Fault injection through the cfg hook: chosen inputs are rejected (parser error) or kill the
//! worker that picks them up; the process must terminate, exit non-zero iff a worker died, and
//! otherwise report exactly the aggregate of the inputs that were not rejected. The event log
//! must be a run of the Lean `Pipeline` model with those faults.
//!
//! Scope notes (second review, item 36). (1) A corrupt `.zip` argument beside valid inputs is a
//! PRODUCER death (`producer()` panics while classifying its arguments: exit 1, no report), not a
//! rejected input: the `producer-death` stream records it (`producer_death.corrupt_zip_argument`).
//! (2) The Profraw/Profdata arm of `consumer` is not all-or-nothing (`try_parse!` inside the loop
//! over the exported lcov buffers, lib.rs): an item logged as "Error parsing file" may still have
//! contributed its earlier exports; `Pipeline.fate` (ok / reject / die per item) does not describe
//! that arm – it is C20's subject (LLVM path), no profraw item is generated here.
use corrlib::pipe::*;
use corrlib::*;
use serde_json::json;
use std::time::Duration;

const LIMIT_S: u64 = 20;

struct Scenario {
    inputs: Vec<Input>,
    die: Vec<usize>,
    reject: Vec<usize>,
    /// inputs the real parser rejects by itself (no fault injection)
    natural: Vec<usize>,
    threads: usize,
    perturb: Option<u64>,
    shuffle_seed: u64,
    /// consumer threads that panic before they receive anything (`panic_idle:Consumer_<i>`)
    idle: Vec<usize>,
    /// the producer panics before its k-th send (`panic_producer:<k>`)
    prod_k: Option<usize>,
    /// consumer threads that panic inside `add_results`, holding the result-map mutex
    /// (`panic_in_merge:Consumer_<i>`): the mutex is poisoned, every other worker dies at its next
    /// `lock().unwrap()`
    in_merge: Vec<usize>,
}

fn run_scenario(rep: &mut Report, hb: &mut HangBudget, tag: &str, sc: &Scenario, reqs: &mut Vec<String>, ctx: &mut Vec<serde_json::Value>) {
    let can_die = !sc.die.is_empty() || !sc.idle.is_empty() || sc.prod_k.is_some() || !sc.in_merge.is_empty();
    if hb.exhausted() && can_die {
        // every further run with a death could hang as well: the verdict is clear, do not stall
        hb.skip();
        rep.count("skipped_after_hangs");
        return;
    }
    let dir = rep.workdir.join(tag);
    let _ = std::fs::remove_dir_all(&dir);
    write_inputs(&dir, &sc.inputs);
    let mut args: Vec<String> = sc.inputs.iter().map(|i| i.name.clone()).collect();
    Rng::new(sc.shuffle_seed).shuffle(&mut args);
    let die_ids: Vec<String> = sc.die.iter().map(|&i| sc.inputs[i].id.clone()).collect();
    let rej_ids: Vec<String> = sc.reject.iter().map(|&i| sc.inputs[i].id.clone()).collect();
    let mut fault = vec![];
    if !die_ids.is_empty() {
        fault.push(format!("panic:{}", die_ids.join(",")));
    }
    if !rej_ids.is_empty() {
        fault.push(format!("reject:{}", rej_ids.join(",")));
    }
    if !sc.idle.is_empty() {
        fault.push(format!("panic_idle:{}", sc.idle.iter().map(|i| format!("Consumer_{}", i)).collect::<Vec<_>>().join(",")));
    }
    if let Some(k) = sc.prod_k {
        fault.push(format!("panic_producer:{}", k));
    }
    if !sc.in_merge.is_empty() {
        fault.push(format!("panic_in_merge:{}", sc.in_merge.iter().map(|i| format!("Consumer_{}", i)).collect::<Vec<_>>().join(",")));
    }
    let cfg = RunCfg {
        dir: &dir,
        args: args.clone(),
        threads: sc.threads,
        perturb: sc.perturb,
        fault: if fault.is_empty() { None } else { Some(fault.join(";")) },
        limit: hb.limit(),
        extra: vec!["-t".into(), "lcov".into(), "--branch".into(), "--no-demangle".into()],
    };
    let out = run_grcov(&cfg);
    hb.note(&out);
    // a consumer configured to die inside add_results dies only if it gets an item
    let merge_death = out.log.iter().any(|e| e.1 == "died_in_merge");
    let some_death = !sc.die.is_empty() || !sc.idle.is_empty() || sc.prod_k.is_some() || merge_death;
    let case = json!({"op": "faults", "threads": sc.threads, "args": args, "perturb": sc.perturb,
        "die": sc.die, "reject": sc.reject, "natural": sc.natural, "shuffle_seed": sc.shuffle_seed,
        "idle": sc.idle, "prod_k": sc.prod_k, "in_merge": sc.in_merge,
        "inputs": sc.inputs.iter().map(|i| json!({"name": i.name, "hex": hex(&i.bytes)})).collect::<Vec<_>>()});
    rep.case(
        &format!("{} {:?} {:?} {:?} {:?}", sc.threads, args, sc.perturb, sc.die, sc.reject),
        some_death || !sc.reject.is_empty() || !sc.natural.is_empty(),
    );
    if !sc.idle.is_empty() {
        rep.count(&format!("idle_deaths={}_of_{}", sc.idle.len(), sc.threads));
        if sc.idle.len() == sc.threads {
            rep.count("idle_deaths.all_workers");
        }
    }
    if !sc.in_merge.is_empty() {
        rep.count(&format!("merge_death.threads={}.{}", sc.threads, if merge_death { "happened" } else { "consumer_got_no_item" }));
        if merge_death {
            // who else died on the poisoned mutex (a panic message of lib.rs `lock().unwrap()`)
            let poisoned = out.stderr.matches("PoisonError").count();
            rep.count(&format!("merge_death.others_died_on_poisoned_mutex={}", poisoned.min(3)));
        }
    }
    if let Some(k) = sc.prod_k {
        rep.count(if k == 0 { "producer_death.injected.first_send" } else if k + 1 == sc.inputs.len() { "producer_death.injected.last_send" } else { "producer_death.injected.middle" });
    }
    rep.count(&format!("naturally_rejected={}", sc.natural.len()));
    rep.count(&format!("threads={}", sc.threads));
    rep.count(&format!("dies={}", sc.die.len()));
    rep.count(&format!("rejects={}", sc.reject.len()));
    if sc.die.len() >= sc.threads {
        rep.count("all_workers_can_die");
    }
    match out.exit {
        None => {
            rep.count("outcome.hang");
            rep.fail(
                "oracle",
                None,
                format!("grcov did not terminate within {} s (worker failure must not hang the process)", cfg.limit.as_secs()),
                case.clone(),
            );
            return;
        }
        Some(code) => {
            rep.count(&format!("outcome.exit={}", if code == 0 { "0" } else { "nonzero" }));
            if some_death && code == 0 {
                rep.fail("oracle", None, "a worker thread or the producer died but grcov exited with status 0".into(), case.clone());
                return;
            }
            if !some_death {
                if code != 0 {
                    rep.fail("oracle", None, format!("no worker died but grcov exited with status {}", code), case.clone());
                    return;
                }
                let kept: Vec<&Input> = sc
                    .inputs
                    .iter()
                    .enumerate()
                    .filter(|(i, _)| !sc.reject.contains(i) && !sc.natural.contains(i))
                    .map(|(_, x)| x)
                    .collect();
                let want = show_map(&aggregate(&kept));
                match decode_lcov_report(&out.stdout) {
                    Ok(m) => {
                        let got = show_map(&m);
                        if got != want {
                            rep.fail(
                                "oracle",
                                None,
                                "with rejected inputs the report is not exactly the aggregate of the remaining inputs".into(),
                                json!({"case": case, "report": got, "aggregate": want}),
                            );
                        }
                    }
                    Err(e) => rep.fail("oracle", None, format!("report is not valid lcov: {}", e), case.clone()),
                }
            }
        }
    }
    match log_to_request_full(&out, sc.threads, false, sc.inputs.len(), &die_ids, &rej_ids, false) {
        Ok(req) => {
            if reqs.len() < 2 {
                rep.sample(json!({"threads": sc.threads, "die": sc.die, "reject": sc.reject, "exit": out.exit, "request": req}));
            }
            reqs.push(req);
            ctx.push(json!({"case": case, "exit": out.exit,
                "log": out.log.iter().map(|e| format!("{} {} {}", e.0, e.1, e.2)).collect::<Vec<_>>()}));
        }
        Err(e) => rep.fail("oracle", None, format!("event log is inconsistent: {}", e), case.clone()),
    }
}

/// Damages an input so that the real parser may reject it; true if it does (then the input
/// contributes nothing), otherwise the input stays a valid one with its new content.
fn corrupt(rng: &mut Rng, inp: &mut Input) -> bool {
    if inp.format == "Info" {
        let junk: &[&[u8]] = &[b"DA:1,x\n", b"DA:\n", b"BRDA:1,0\n", b"FN:x,f\n", b"DA:99999999999999999999,1\n", b"FNDA:1\n"];
        let at = {
            let nl: Vec<usize> = inp.bytes.iter().enumerate().filter(|(_, b)| **b == b'\n').map(|(i, _)| i + 1).collect();
            if nl.is_empty() { 0 } else { *rng.pick(&nl) }
        };
        let j = rng.pick(junk).to_vec();
        inp.bytes.splice(at..at, j);
    } else {
        let cut = rng.range(inp.bytes.len() as u64 / 2, inp.bytes.len() as u64 - 1) as usize;
        inp.bytes.truncate(cut);
        while inp.bytes.len() < 300 {
            inp.bytes.push(b' ');
        }
    }
    inp.id = fnv_id(inp.format, &inp.bytes);
    let b = inp.bytes.clone();
    let parsed = if inp.format == "Info" {
        guarded(move || grcov::parse_lcov(b, true).ok()).ok().flatten()
    } else {
        guarded(move || grcov::parse_jacoco_xml_report(std::io::BufReader::new(std::io::Cursor::new(b))).ok()).ok().flatten()
    };
    match parsed {
        Some(p) => {
            inp.parsed = p;
            false
        }
        None => {
            inp.parsed = vec![];
            true
        }
    }
}

/// The GCC path: every work item is a gcno file handed to the external `gcov`; an item whose
/// gcov run fails (here: run data whose stamp does not match the notes) is rejected. Whatever
/// order the items are picked up in, the report must be the one of the remaining programs.
fn gcc_rejections(rep: &mut Report, rng: &mut Rng) {
    use std::process::Command;
    // gcov's own chatter is larger than a pipe buffer (one "File ... Lines executed" block per
    // source file of the unit): the worker that waits for it must still come back
    {
        let root = rep.workdir.join("gccbig");
        let _ = std::fs::remove_dir_all(&root);
        std::fs::create_dir_all(&root).unwrap();
        let nh = 2200;
        let mut main = String::new();
        for i in 0..nh {
            std::fs::write(root.join(format!("h{}.h", i)), format!("static inline int hf{}(int x)\n{{\n  return x + {};\n}}\n", i, i)).unwrap();
            main.push_str(&format!("#include \"h{}.h\"\n", i));
        }
        main.push_str("int main(void)\n{\n  int r = 0;\n");
        for i in 0..nh {
            main.push_str(&format!("  r += hf{}(r);\n", i));
        }
        main.push_str("  return r == 1;\n}\n");
        std::fs::write(root.join("big.c"), main).unwrap();
        let ok = Command::new("gcc").current_dir(&root).args(["--coverage", "-O0", "-o", "big", "big.c"]).status().map(|s| s.success()).unwrap_or(false);
        if ok {
            let _ = Command::new("./big").current_dir(&root).status();
            let _ = std::fs::remove_file(root.join("big"));
            for threads in [1usize, 2] {
                let out = run_grcov(&RunCfg { dir: &root, args: vec![".".into()], threads, perturb: None, fault: None,
                    limit: Duration::from_secs(90), extra: vec!["-t".into(), "lcov".into(), "--no-demangle".into()] });
                rep.case(&format!("gccbig {}", threads), true);
                rep.count("gcc.large_gcov_output");
                let case = json!({"op": "gcc-large-gcov-output", "headers": nh, "threads": threads});
                match out.exit {
                    None => rep.fail("oracle", None, "grcov did not terminate within 90 s on a unit for which gcov prints more than 64 KiB".into(), case),
                    Some(0) => {
                        let files = out.stdout.lines().filter(|l| l.starts_with("SF:")).count();
                        if files != nh + 1 {
                            rep.fail("oracle", None, format!("{} source files reported instead of {}", files, nh + 1), case);
                        }
                    }
                    Some(c) => rep.fail("oracle", None, format!("grcov exited with {} on well-formed gcc data", c), case),
                }
            }
        } else {
            rep.notes.push("gcc failed on the many-headers unit".into());
        }
        let _ = std::fs::remove_dir_all(&root);
    }
    let n = rep.budget(8, 8);
    for c in 0..n {
        let root = rep.workdir.join(format!("gccrej{}", c));
        let _ = std::fs::remove_dir_all(&root);
        let all = root.join("all");
        let good = root.join("good");
        let m = rng.range(2, 5) as usize;
        let mut broken = vec![];
        let mut progs = vec![];
        for j in 0..m {
            let d = all.join(format!("p{}", j));
            std::fs::create_dir_all(&d).unwrap();
            let body = |extra: &str| format!(
                "#include <stdlib.h>\nint g{j}(int x)\n{{\n  if (x > {})\n    return x + {};\n  return 0;\n}}\n{}int main(int argc, char **argv)\n{{\n  int n = argc > 1 ? atoi(argv[1]) : 0;\n  int r = g{j}(n);\n  for (int i = 0; i < n; i++)\n    r += i;\n  return r == 77;\n}}\n",
                j % 3, j + 1, extra);
            let src = format!("unit{}.c", j);
            std::fs::write(d.join(&src), body("")).unwrap();
            let cc = |d: &std::path::Path| Command::new("gcc").current_dir(d).args(["--coverage", "-O0", "-o", "prog", &src]).status().map(|s| s.success()).unwrap_or(false);
            if !cc(&d) {
                rep.notes.push("gcc failed on a generated program".into());
                continue;
            }
            for _ in 0..rng.range(1, 3) {
                let _ = Command::new("./prog").current_dir(&d).arg(rng.below(6).to_string()).status();
            }
            let breaks = j + 1 < m && rng.chance(1, 2) || (j == 0 && broken.is_empty());
            if breaks {
                // new notes (another stamp) beside the old run data
                let keep: Vec<(std::path::PathBuf, Vec<u8>)> = std::fs::read_dir(&d).unwrap().flatten()
                    .filter(|e| e.path().extension().map(|x| x == "gcda").unwrap_or(false))
                    .map(|e| (e.path(), std::fs::read(e.path()).unwrap())).collect();
                std::fs::write(d.join(&src), body(&format!("int extra{}(int y)\n{{\n  return y * 2;\n}}\n", j))).unwrap();
                if cc(&d) {
                    for (p, b) in keep {
                        std::fs::write(p, b).unwrap();
                    }
                    broken.push(j);
                }
            }
            let _ = std::fs::remove_file(d.join("prog"));
            progs.push(j);
        }
        // the reference tree holds only the programs that were not broken
        for &j in progs.iter().filter(|j| !broken.contains(j)) {
            let from = all.join(format!("p{}", j));
            let to = good.join(format!("p{}", j));
            std::fs::create_dir_all(&to).unwrap();
            for e in std::fs::read_dir(&from).unwrap().flatten() {
                std::fs::copy(e.path(), to.join(e.file_name())).unwrap();
            }
        }
        std::fs::create_dir_all(&good).unwrap();
        let run = |dir: &std::path::Path, threads: usize| run_grcov(&RunCfg {
            dir,
            args: vec![".".into()],
            threads,
            perturb: None,
            fault: None,
            limit: Duration::from_secs(60),
            extra: vec!["-t".into(), "lcov".into(), "--no-demangle".into()],
        });
        let reference = run(&good, 1);
        let want = match (reference.exit, decode_lcov_report(&reference.stdout)) {
            (Some(0), Ok(mm)) => show_map(&mm),
            _ => {
                rep.notes.push("gcc reference run failed".into());
                continue;
            }
        };
        let case = json!({"op": "gcc-rejected", "programs": m, "stamp_mismatch": broken});
        for (r, threads) in [1usize, 1, 1, 2, 3].iter().enumerate() {
            rep.case(&format!("gccrej {} {} {:?} {}", c, m, broken, r), !broken.is_empty());
            rep.count(&format!("gcc.threads={}", threads));
            let out = run(&all, *threads);
            let rejected = out.stderr.matches("Error when running gcov").count();
            rep.count(&format!("gcc.rejected_by_gcov={}", rejected.min(3)));
            if out.exit != Some(0) {
                rep.fail("oracle", None, format!("no worker died but grcov exited with {:?} on gcc data with a failing gcov run", out.exit), case.clone());
                continue;
            }
            if rejected != broken.len() {
                rep.count("gcc.broken_not_rejected");
                continue;
            }
            match decode_lcov_report(&out.stdout) {
                Ok(mm) => {
                    let got = show_map(&mm);
                    if got != want {
                        rep.fail(
                            "oracle",
                            None,
                            "an input whose gcov run failed still contributes to the report (it differs from the report of the other inputs alone)".into(),
                            json!({"case": case, "threads": threads, "report": got, "report_without_rejected": want}),
                        );
                    }
                }
                Err(e) => rep.fail("oracle", None, format!("report is not valid lcov: {}", e), case.clone()),
            }
        }
        let _ = std::fs::remove_dir_all(&root);
    }
}

/// The producer thread dies for a reason other than a failed send: (a) nothing to read below the
/// given path (the "No input files found" assert), (b) an unreadable `--path-mapping` file, opened
/// after every item was sent. `main` must notice at the join and exit non-zero; the event log must
/// be a run of the model with a `prodDies` step after the last send.
fn producer_deaths(rep: &mut Report, hb: &mut HangBudget, rng: &mut Rng, reqs: &mut Vec<String>, ctx: &mut Vec<serde_json::Value>) {
    let n = rep.budget(9, 6);
    for c in 0..n {
        if hb.exhausted() {
            hb.skip();
            rep.count("skipped_after_hangs");
            continue;
        }
        let dir = rep.workdir.join(format!("proddeath{}", c));
        let _ = std::fs::remove_dir_all(&dir);
        let threads = *rng.pick(&[1usize, 2, 3]);
        let empty = c % 3 == 0;
        // a file called *.zip that is not a zip archive, beside valid tracefiles: `producer()` panics
        // while it classifies its arguments ("Failed to parse ZIP file", C17 `RawArg.toArg`), before
        // anything is sent: a producer death (exit 1, no report for the valid inputs either), NOT a
        // rejected input in the sense of the third sentence of C07 – recorded as an observation
        let bad_zip = c % 3 == 2;
        let k = rng.range(1, 7) as usize;
        let inputs = if empty { vec![] } else { gen_inputs(rng, k) };
        write_inputs(&dir, &inputs);
        std::fs::create_dir_all(dir.join("nothing-here")).unwrap();
        let (args, extra): (Vec<String>, Vec<String>) = if empty {
            (vec!["nothing-here".into()], vec!["-t".into(), "lcov".into()])
        } else if bad_zip {
            std::fs::write(dir.join("bad.zip"), b"not a zip").unwrap();
            let mut a: Vec<String> = inputs.iter().map(|i| i.name.clone()).collect();
            a.insert(rng.below(a.len() as u64 + 1) as usize, "bad.zip".into());
            (a, vec!["-t".into(), "lcov".into()])
        } else {
            (inputs.iter().map(|i| i.name.clone()).collect(),
             vec!["-t".into(), "lcov".into(), "--path-mapping".into(), "no-such-mapping.json".into()])
        };
        let cfg = RunCfg { dir: &dir, args: args.clone(), threads, perturb: Some(rng.next() % 100000), fault: None,
            limit: hb.limit(), extra };
        let out = run_grcov(&cfg);
        hb.note(&out);
        let case = json!({"op": "producer-death", "kind": if empty { "no-input-files" } else if bad_zip { "corrupt-zip-argument" } else { "path-mapping-unreadable" },
            "threads": threads, "args": args,
            "inputs": inputs.iter().map(|i| json!({"name": i.name, "hex": hex(&i.bytes)})).collect::<Vec<_>>()});
        rep.case(&format!("producer-death {} {} {:?}", empty, threads, args), true);
        rep.count(if empty { "producer_death.no_input_files" } else if bad_zip { "producer_death.corrupt_zip_argument" } else { "producer_death.after_all_sends" });
        if bad_zip && out.exit.is_some() && out.exit != Some(0) && out.stdout.is_empty() {
            rep.count("observation.corrupt_zip_beside_valid_inputs_no_report_exit_nonzero");
        }
        match out.exit {
            None => {
                rep.fail("oracle", None, format!("grcov did not terminate within {} s after its producer thread panicked", cfg.limit.as_secs()), case);
                continue;
            }
            Some(0) => {
                rep.fail("oracle", None, "the producer thread panicked but grcov exited with status 0".into(), case);
                continue;
            }
            Some(_) => {}
        }
        match log_to_request_ext(&out, threads, false, inputs.len(), &[], true) {
            Ok(req) => {
                reqs.push(req);
                ctx.push(json!({"case": case, "exit": out.exit,
                    "log": out.log.iter().map(|e| format!("{} {} {}", e.0, e.1, e.2)).collect::<Vec<_>>()}));
            }
            Err(e) => rep.fail("oracle", None, format!("event log is inconsistent: {}", e), case),
        }
    }
}

/// Deaths that are not tied to an item: consumer threads that panic before their receive loop
/// (one of several, several, ALL of them – then the producer's next send fails and it dies too)
/// and a producer that panics before its first, a middle or its last send. The process must end,
/// with a non-zero status, and the event log must be a run of the model with `workerDies` at idle
/// resp. `prodDies` at that point.
fn injected_deaths(rep: &mut Report, hb: &mut HangBudget, rng: &mut Rng, reqs: &mut Vec<String>, ctx: &mut Vec<serde_json::Value>) {
    let n = rep.budget(18, 8);
    for c in 0..n {
        let k = rng.range(2, 10) as usize;
        let inputs = gen_inputs(rng, k);
        let threads = *rng.pick(&[1usize, 2, 3, 4]);
        let (idle, prod_k): (Vec<usize>, Option<usize>) = match c % 6 {
            0 => (vec![rng.below(threads as u64) as usize], None),
            1 => ((0..threads).collect(), None),
            2 => {
                let mut v: Vec<usize> = (0..threads).collect();
                rng.shuffle(&mut v);
                v.truncate((threads / 2).max(1));
                (v, None)
            }
            3 => (vec![], Some(0)),
            4 => (vec![], Some(k - 1)),
            _ => (vec![], Some(k / 2)),
        };
        // some of the scenarios also lose an item to a dying worker or reject one
        let die = if c % 5 == 4 { vec![rng.below(k as u64) as usize] } else { vec![] };
        let sc = Scenario { inputs, die, reject: vec![], natural: vec![], threads,
            perturb: if rng.chance(1, 2) { None } else { Some(rng.next() % 100000) }, shuffle_seed: rng.next(), idle, prod_k, in_merge: vec![] };
        run_scenario(rep, hb, &format!("inj{}", c), &sc, reqs, ctx);
    }
}

/// A consumer dies INSIDE `add_results`, while it holds the result-map mutex (hook
/// `panic_in_merge:Consumer_<i>`): the mutex is poisoned, every other worker that comes to merge
/// dies in `lock().unwrap()`, with one thread the producer's next send fails. The process must end
/// with a non-zero status (a half-written batch is never reported), and the event log – `lock`,
/// `died_in_merge` of the victim, the silent deaths of the others – must be a run of the model
/// (`workerDies` of a merging worker, `lock` when poisoned). 1, 2 and 4 threads, each consumer index.
fn merge_deaths(rep: &mut Report, hb: &mut HangBudget, rng: &mut Rng, reqs: &mut Vec<String>, ctx: &mut Vec<serde_json::Value>) {
    let n = rep.budget(18, 8);
    for c in 0..n {
        let threads = [1usize, 2, 4][(c % 3) as usize];
        // enough inputs that every consumer gets one, and more than the queue holds when all die
        let k = rng.range(2 * threads as u64 + 2, 3 * threads as u64 + 6) as usize;
        let inputs = gen_inputs(rng, k);
        let victim = ((c / 3) as usize) % threads;
        let mut in_merge = vec![victim];
        if threads == 4 && c % 2 == 1 {
            in_merge.push((victim + 1) % threads);
        }
        let reject = if c % 4 == 3 { vec![rng.below(k as u64) as usize] } else { vec![] };
        let sc = Scenario { inputs, die: vec![], reject, natural: vec![], threads,
            perturb: if rng.chance(1, 2) { None } else { Some(rng.next() % 100000) }, shuffle_seed: rng.next(),
            idle: vec![], prod_k: None, in_merge };
        run_scenario(rep, hb, &format!("mergedeath{}", c), &sc, reqs, ctx);
    }
}

pub fn run(rep: &mut Report) {
    rep.rule = "input sets of 2-12 .info/.xml files; subsets of 0-3 inputs kill their worker and 0-2 are rejected \
                by the hook, 0-2 more are damaged so that the real parser rejects them; a second stream feeds gcc-compiled \
                programs of which some have run data that makes gcov fail; --threads in {1,2,3,4}; seeded perturbation; first the fixed scenarios in which \
                every worker dies with more queued items than queue slots (the deadlock of the original code); \
                a stream in which a consumer dies inside add_results holding the result-map mutex (1, 2, 4 threads); \
                non-trivial = at least one fault; distinct = distinct (inputs, faults, threads, order, seed)"
        .to_string();
    let mut rng = Rng::new(rep.seed ^ 0xC07);
    let mut reqs = vec![];
    let mut ctx = vec![];
    // the first run that does not terminate may take LIMIT_S, later ones 4 s; after 3 of them no
    // further run with an injected death is started (each is a violation; the verdict is clear)
    let mut hb = HangBudget::new(LIMIT_S, 4, 3);
    let hb = &mut hb;
    // a rejected input is skipped AS A WHOLE: gcov 7.5 text output (scripted $GCOV), several .gcov
    // files per unit of which one is unparsable; and gcov 12.2 runs that fail after writing output
    rep.rule.push_str("; gcovstub stream: gcno/gcda units handed to a scripted $GCOV (gcov 7.5 text output, several files per unit, one unparsable; gcov 12.2 JSON output with failing runs that leave output behind), --threads 1/2/4, two argument orders: report == aggregate of the units that were not rejected");
    let (nt, nj) = (rep.budget(6, 6), rep.budget(2, 6));
    gcov_stub_stream(rep, 0xC07_57B, nt, nj, "C07");
    gcc_rejections(rep, &mut rng.fork());
    producer_deaths(rep, hb, &mut rng.fork(), &mut reqs, &mut ctx);
    injected_deaths(rep, hb, &mut rng.fork(), &mut reqs, &mut ctx);
    merge_deaths(rep, hb, &mut rng.fork(), &mut reqs, &mut ctx);
    // fixed scenarios: all workers die early, many items remain (witness of the repaired deadlock)
    for (t, (threads, k)) in [(1usize, 5usize), (1, 9), (2, 12), (3, 14)].iter().enumerate() {
        let inputs = gen_inputs(&mut rng, *k);
        // every input kills its worker: whichever items are picked up first, all workers die
        let die: Vec<usize> = (0..*k).collect();
        let sc = Scenario { inputs, die, reject: vec![], natural: vec![], threads: *threads, perturb: None, shuffle_seed: t as u64, idle: vec![], prod_k: None, in_merge: vec![] };
        run_scenario(rep, hb, &format!("fixed{}", t), &sc, &mut reqs, &mut ctx);
    }
    let n = rep.budget(150, 20);
    for i in 0..n {
        let k = rng.range(2, 12) as usize;
        let mut inputs = gen_inputs(&mut rng, k);
        let mut natural = vec![];
        if rng.chance(1, 3) {
            for _ in 0..rng.range(1, 2) {
                let j = rng.below(k as u64) as usize;
                if !natural.contains(&j) && corrupt(&mut rng, &mut inputs[j]) {
                    natural.push(j);
                }
            }
        }
        let threads = *rng.pick(&[1usize, 1, 2, 2, 3, 4]);
        let mut idx: Vec<usize> = (0..k).filter(|j| !natural.contains(j)).collect();
        let k = idx.len();
        rng.shuffle(&mut idx);
        let nd = *rng.pick(&[0usize, 0, 1, 1, 2, 3]).min(&k);
        let nr = (*rng.pick(&[0usize, 1, 1, 2])).min(k - nd);
        let die = idx[..nd].to_vec();
        let reject = idx[nd..nd + nr].to_vec();
        let sc = Scenario {
            inputs,
            die,
            reject,
            natural,
            threads,
            perturb: if rng.chance(1, 3) { None } else { Some(rng.next() % 100000) },
            shuffle_seed: rng.next(),
            idle: vec![],
            prod_k: None,
            in_merge: vec![],
        };
        run_scenario(rep, hb, &format!("s{}", i), &sc, &mut reqs, &mut ctx);
    }
    if hb.hangs > 0 {
        rep.notes.push(format!("{} run(s) did not terminate; {} further runs with injected deaths were not started", hb.hangs, hb.skipped));
    }
    let answers = run_model(&reqs, &rep.workdir, "pipe");
    for (i, a) in answers.iter().enumerate() {
        let exit = ctx[i]["exit"].as_i64().unwrap_or(-1);
        let ok = if exit == 0 {
            a.starts_with("accepted exit=0 ")
        } else {
            a.starts_with("accepted exit=1 ")
        };
        if !ok {
            rep.disagreements_checked += 1;
            rep.fail(
                "disagreement",
                None,
                format!("the event log (process exit {}) is not a run of the Pipeline model with these faults ({}); theorems C07_* no longer transfer", exit, a),
                json!({"context": ctx[i], "request": reqs[i], "model": a}),
            );
        }
    }
    rep.count_n("traces_validated", reqs.len() as u64);
    merge_negatives(rep, &reqs);
}

/// Negative tests of the trace validator on REAL logs of runs in which a consumer died inside
/// `add_results`: (a) the same log with exit status 0 claimed – a death holding the mutex can never
/// end in status 0 (`C07_poisoned_nonzero_exit`); (b) the log without its `died_in_merge` line but
/// with the non-zero status – without the poisoning nothing explains the status (the other workers'
/// silent deaths are enabled only when the mutex is poisoned). The model must refuse both.
fn merge_negatives(rep: &mut Report, reqs: &[String]) {
    let mut tests: Vec<(&str, String)> = vec![];
    let mut cands: Vec<&String> = reqs.iter().filter(|r| r.split(' ').any(|t| t.starts_with("W:") && (t.ends_with(",M") || t.contains(",M,"))) && r.ends_with(" E:1")).collect();
    cands.sort_by_key(|r| r.len());
    for r in cands.iter().take(4) {
        tests.push(("exit0-after-death-in-merge", format!("{}E:0", &r[..r.len() - 3])));
        let without: Vec<String> = r.split(' ').map(|t| if t.starts_with("W:") { t.replace(",M", "") } else { t.to_string() }).collect();
        tests.push(("death-in-merge-not-logged", without.join(" ")));
    }
    let reqs2: Vec<String> = tests.iter().map(|t| t.1.clone()).collect();
    let ans = run_model(&reqs2, &rep.workdir, "mergenegatives");
    for (i, a) in ans.iter().enumerate() {
        rep.case(&format!("merge-negative {} {}", tests[i].0, i), true);
        rep.count(&format!("merge_negative.{}", tests[i].0));
        if a.starts_with("rejected fuel") {
            rep.count("merge_negative.inconclusive");
        } else if !a.starts_with("rejected") {
            // (b) can be realisable when the victim was the only worker that mattered: a worker still
            // inside add_results when main exits with 1 needs ANOTHER death; with none in the log the
            // model must refuse
            rep.disagreements_checked += 1;
            rep.fail("disagreement", None, format!("the trace validator accepts an edited log of a death inside add_results ({}): {}", tests[i].0, a),
                json!({"op": "merge-negative", "kind": tests[i].0, "request": tests[i].1, "model": a}));
        } else {
            rep.count("merge_negative.rejected");
        }
    }
}

pub fn replay(rep: &mut Report, case: &serde_json::Value) {
    if gcov_stub_replay(rep, case, "C07") { return; }
    let c = if case.get("context").is_some() { &case["context"]["case"] } else if case.get("case").is_some() { &case["case"] } else { case };
    let mut inputs = vec![];
    for i in c["inputs"].as_array().unwrap() {
        let name = i["name"].as_str().unwrap().to_string();
        let bytes = unhex(i["hex"].as_str().unwrap());
        let (format, parsed) = if name.ends_with(".xml") {
            ("JacocoXml", grcov::parse_jacoco_xml_report(std::io::BufReader::new(std::io::Cursor::new(bytes.clone()))).unwrap_or_default())
        } else {
            ("Info", grcov::parse_lcov(bytes.clone(), true).unwrap_or_default())
        };
        inputs.push(Input { name, format, id: fnv_id(format, &bytes), bytes, parsed });
    }
    let idxs = |v: &serde_json::Value| -> Vec<usize> { v.as_array().map(|a| a.iter().map(|x| x.as_u64().unwrap() as usize).collect()).unwrap_or_default() };
    let sc = Scenario {
        inputs,
        die: idxs(&c["die"]),
        reject: idxs(&c["reject"]),
        natural: idxs(&c["natural"]),
        threads: c["threads"].as_u64().unwrap() as usize,
        perturb: c["perturb"].as_u64(),
        shuffle_seed: c["shuffle_seed"].as_u64().unwrap_or(0),
        idle: idxs(&c["idle"]),
        prod_k: c["prod_k"].as_u64().map(|k| k as usize),
        in_merge: idxs(&c["in_merge"]),
    };
    let mut reqs = vec![];
    let mut ctx = vec![];
    let mut hb = HangBudget::new(LIMIT_S, 4, 2);
    for r in 0..10 {
        run_scenario(rep, &mut hb, &format!("replay{}", r), &sc, &mut reqs, &mut ctx);
    }
    let answers = run_model(&reqs, &rep.workdir, "replay");
    for (i, a) in answers.iter().enumerate() {
        let exit = ctx[i]["exit"].as_i64().unwrap_or(-1);
        if !a.starts_with(&format!("accepted exit={} ", if exit == 0 { 0 } else { 1 })) {
            rep.fail("disagreement", None, format!("replayed run: the event log (process exit {}) is not a run of the Pipeline model ({})", exit, a),
                json!({"context": ctx[i], "request": reqs[i], "model": a}));
        }
    }
}

fn main() {
    corrlib::run_main("C07", run, replay);
}
