//! C19 — writes stay inside the temp dir and the output path; inputs are never altered.
//! Sandbox tree per case: in/ (inputs, hostile archives), tmp/ (TMPDIR), out/ (output location),
//! cwd/, bait/ (targets of hostile absolute names). Full snapshot (kind, size, hash, link target)
//! before and after a CLI run of the hooked grcov binary; every difference must lie under out/,
//! tmp/ must be empty after a normal exit. The path arithmetic (where an entry lands) is tied to
//! the Lean `Confine` model.
//! Since session 4, wave 2 (fixes 232bfd3, 2f541c3; review items 1, 18, 19): the archive is written
//! entry by entry (`rawzipw`: repeated names stay repeated, directory and symlink entries), the pools
//! hold names of consumer working directories (`0/…`, `1/…`, `0`), a 300-byte component, a stem whose
//! numbered name exceeds NAME_MAX, and 236-byte sibling stems in the directory input AND the zip;
//! link loops in the directory input; threads 1 / 2 / 8; `--llvm`; directory or zip first. Exit 1 runs
//! (panics on over-long names) leave the temp dir behind: counted (`tmp_left_behind_after_exit_1`),
//! allowed by the text. Parts: `dest.rs` (report destinations), `extract.rs` (the producer's
//! extractions against `Confine.extractsOf`, in-process), `gcovstub.rs` (worker directories through a
//! recording gcov).
use corrlib::pipe::*;
use corrlib::*;
use serde_json::json;
use std::collections::BTreeMap;

use std::path::{Path, PathBuf};
use std::time::Duration;

mod dest;
mod extract;
mod gcovstub;
#[path = "../../c17/src/rawzipw.rs"]
mod rawzipw;

fn snapshot(root: &Path) -> BTreeMap<String, String> {
    let mut m = BTreeMap::new();
    fn walk(root: &Path, dir: &Path, m: &mut BTreeMap<String, String>) {
        let rd = match std::fs::read_dir(dir) {
            Ok(r) => r,
            Err(_) => return,
        };
        for e in rd.flatten() {
            let p = e.path();
            let rel = p.strip_prefix(root).unwrap().to_string_lossy().to_string();
            let md = match std::fs::symlink_metadata(&p) {
                Ok(m) => m,
                Err(_) => continue,
            };
            if md.file_type().is_symlink() {
                m.insert(rel, format!("link:{}", std::fs::read_link(&p).unwrap().display()));
            } else if md.is_dir() {
                m.insert(rel.clone(), "dir".into());
                walk(root, &p, m);
            } else if !md.is_file() {
                // a FIFO / socket / device: never read (a FIFO would block)
                m.insert(rel, "special".into());
            } else {
                let bytes = std::fs::read(&p).unwrap_or_default();
                m.insert(rel, format!("file:{}:{:016x}", bytes.len(), fnv64(&bytes)));
            }
        }
    }
    walk(root, root, &mut m);
    m
}

struct Entry {
    name: String,
    bytes: Vec<u8>,
    /// unix mode of the entry (`0o120777`: symlink entry, `0o40755`: directory entry)
    mode: Option<u32>,
}

fn write_zip(path: &Path, entries: &[Entry]) {
    // written entry by entry: repeated names stay repeated, a trailing `/` makes a directory entry,
    // `mode` a symlink entry (the `zip` crate's writer refuses repeated names)
    let ents: Vec<rawzipw::RawEnt> = entries
        .iter()
        .map(|e| rawzipw::RawEnt { name: e.name.as_bytes().to_vec(), data: e.bytes.clone(), mode: e.mode })
        .collect();
    std::fs::write(path, rawzipw::write_raw_zip(&ents)).unwrap();
}

/// runs that did not end (a FIFO among the inputs): after two no more FIFOs are planted
pub static HANGS: std::sync::atomic::AtomicUsize = std::sync::atomic::AtomicUsize::new(0);

pub fn plant_fifo(p: &Path) {
    if HANGS.load(std::sync::atomic::Ordering::Relaxed) >= 2 {
        return;
    }
    let c = std::ffi::CString::new(p.to_str().unwrap()).unwrap();
    unsafe {
        libc::mkfifo(c.as_ptr(), 0o644);
    }
}

/// files whose names derive from the output name, as editors and careless "write to a temporary
/// name, then rename" schemes use them: they belong to the user and must survive the run
pub fn plant_beside_output(dir: &Path, name: &str) {
    let stem = name.rsplit_once('.').map(|x| x.0).filter(|s| !s.is_empty()).unwrap_or(name);
    for n in [format!("{}.tmp", stem), format!("{}.tmp", name), format!("{}~", name), format!(".{}.swp", name), format!("{}.bak", name), format!("{}.part", name)] {
        let _ = std::fs::write(dir.join(n), format!("the user's own file beside {}", name));
    }
}

/// the normal components of a path, hex, comma separated (the driver's `<segs>`)
pub fn dest_segs(p: &Path) -> String {
    p.components()
        .filter_map(|c| match c {
            std::path::Component::Normal(n) => Some(hex(n.to_str().unwrap().as_bytes())),
            _ => None,
        })
        .collect::<Vec<_>>()
        .join(",")
}

/// components of a path text, the way std::path / the zip crate see them: R(oot) C(ur) P(arent) N
fn comps(s: &str) -> String {
    let mut out = vec![];
    if s.starts_with('/') {
        out.push("R".to_string());
    }
    for (i, c) in s.split('/').enumerate() {
        match c {
            "" => {}
            "." => {
                if i == 0 {
                    out.push("C".into())
                }
            }
            ".." => out.push("P".into()),
            n => out.push(format!("N{}", hex(n.as_bytes()))),
        }
    }
    out.join(",")
}

pub fn run(rep: &mut Report) {
    rep.rule = "sandbox trees with hostile zip entry names (absolute, '..' segments escaping or not, 300-byte components, numbered names beyond NAME_MAX, \
                really repeated, directory and symlink entries, names of worker directories 0/ 1/, 236-byte sibling stems in zip and directory), threads 1/2/8, --llvm, GCC-format gcno/gcda pairs and profraw entries (the two extraction sinks), symlinked \
                input directories, .info files recording '../' and absolute source paths, all output types with file \
                and directory outputs; non-trivial = the case contains at least one hostile name; distinct = distinct \
                (entry names, output type)"
        .to_string();
    let mut rng = Rng::new(rep.seed ^ 0xC19);
    let gcno = std::fs::read("/repo/test/Platform.gcno").expect("fixture");
    let gcda = std::fs::read("/repo/test/Platform.gcda").expect("fixture");
    let profraw = std::fs::read("/repo/test/default.profraw").unwrap_or_else(|_| b"profraw".to_vec());
    let n = rep.budget(160, 6);
    let mut reqs: Vec<String> = vec![];
    let mut expect: Vec<(String, bool)> = vec![];
    for c in 0..n {
        let case_dir = rep.workdir.join(format!("case{}", c));
        let _ = std::fs::remove_dir_all(&case_dir);
        for d in ["in", "tmp", "out", "cwd", "bait"] {
            std::fs::create_dir_all(case_dir.join(d)).unwrap();
        }
        let case_abs = std::fs::canonicalize(&case_dir).unwrap();
        let bait = case_abs.join("bait");
        // ---- entry names ----
        let long = "d/".repeat(40) + &"x".repeat(100);
        let pool: Vec<String> = vec![
            "sub/dir/ok".into(),
            "ok2".into(),
            "../up1".into(),
            "../../up2".into(),
            "../../../../up4/deep".into(),
            "a/../../sneaky".into(),
            "a/b/../../inside".into(),
            "./dot/ok3".into(),
            format!("{}/abs1", bait.display()),
            format!("{}/../bait/abs2", bait.display()),
            long.clone(),
            "dup".into(),
            "dup".into(),
            "a//b/double".into(),
            // backslashes are ordinary characters on Unix: one component for the zip crate, but a
            // later separator clean-up must not turn them into `..` segments
            "..\\..\\bs_up2".into(),
            "a\\..\\..\\bs_sneaky".into(),
            "\\bs_abs".into(),
            // ... with a directory part, alone and beside its forward-slash twin
            "..\\..\\bs_dir\\x".into(),
            "../../bs_dir/x".into(),
            "a\\..\\..\\..\\bs_dir2\\y".into(),
            format!("\\{}\\bs_abs2", bait.display().to_string().trim_start_matches('/').replace('/', "\\")),
            // the same file as `shared/x` of the directory input, spelled with a `.` segment
            "shared/./x".into(),
            "shared/x".into(),
            // named like a consumer's working directory (fix 232bfd3)
            "0/w0".into(),
            "1/w1".into(),
            "0".into(),
            // a component of 300 bytes (longer than NAME_MAX) and a stem whose numbered name is
            format!("{}/x", "N".repeat(300)),
            "M".repeat(250),
            // agrees with the directory input's `cov/<236 x I>_a` on a 236-byte prefix
            format!("cov/{}_b", "I".repeat(236)),
            format!("cov/{}_f", "I".repeat(236)),
        ];
        let mut entries = vec![];
        let mut stems = vec![];
        let mut hostile = false;
        for _ in 0..rng.range(1, 5) {
            let stem = rng.pick(&pool).clone();
            if stem.contains("..") || stem.starts_with('/') || stem.contains('\\') || stem.contains("/./") || stem.len() > 200 || stem.starts_with("0") || stem.starts_with("1/") {
                hostile = true;
            }
            match rng.below(3) {
                0 => {
                    entries.push(Entry { name: format!("{}.gcno", stem), bytes: gcno.clone(), mode: None });
                    entries.push(Entry { name: format!("{}.gcda", stem), bytes: gcda.clone(), mode: None });
                }
                1 => entries.push(Entry { name: format!("{}.profraw", stem), bytes: profraw.clone(), mode: None }),
                _ => entries.push(Entry { name: format!("{}.gcno", stem), bytes: gcno.clone(), mode: None }),
            }
            stems.push(stem);
        }
        // directory entries (one named like a profile), a symlink entry
        if rng.chance(1, 3) {
            entries.push(Entry { name: "junk.profraw/".into(), bytes: vec![], mode: Some(0o40755) });
            entries.push(Entry { name: "sub/dir/".into(), bytes: vec![], mode: Some(0o40755) });
            rep.count("zip_directory_entries");
        }
        if rng.chance(1, 4) {
            entries.push(Entry { name: "lnk.profraw".into(), bytes: format!("{}/target.info", bait.display()).into_bytes(), mode: Some(0o120777) });
            rep.count("zip_symlink_entry");
        }
        rng.shuffle(&mut entries);
        write_zip(&case_dir.join("in/hostile.zip"), &entries);
        // model tie: is the name enclosed, and where does tmp/<stem>_1.ext resolve to?
        for s in &stems {
            let enclosed_impl = {
                // ask the zip crate itself through a one-entry archive
                let p = case_dir.join("probe.zip");
                write_zip(&p, &[Entry { name: format!("{}.x", s), bytes: vec![], mode: None }]);
                let mut z = zip::ZipArchive::new(std::fs::File::open(&p).unwrap()).unwrap();
                let r = z.by_index(0).map(|f| f.enclosed_name().is_some()).unwrap_or(false);
                let _ = std::fs::remove_file(&p);
                r
            };
            reqs.push(format!("confine.enclosed {}", comps(&format!("{}.x", s))));
            expect.push((s.clone(), enclosed_impl));
            // std::path's own classification of the components (what the producer's test uses)
            let plain_std = std::path::Path::new(&format!("{}.x", s))
                .components()
                .all(|c| matches!(c, std::path::Component::Normal(_)));
            reqs.push(format!("confine.plain {}", comps(&format!("{}.x", s))));
            expect.push((s.clone(), plain_std));
        }
        // an .info file recording hostile source paths, and a directory input containing symlinks
        std::fs::write(
            case_dir.join("in/paths.info"),
            format!(
                "TN:\nSF:../../outside.c\nDA:1,1\nend_of_record\nSF:{}/abs_src.c\nDA:1,1\nend_of_record\nSF:src/ok.c\nDA:1,2\nend_of_record\nSF:a/../../../esc.c\nDA:2,1\nend_of_record\nSF:../bait/abs_src.c\nDA:1,3\nend_of_record\nSF:../cwd/src/../../bait/abs_src.c\nDA:1,1\nend_of_record\n",
                bait.display()
            ),
        )
        .unwrap();
        std::fs::create_dir_all(case_dir.join("in/dirinput/sub")).unwrap();
        std::fs::create_dir_all(case_dir.join("in/dirinput/shared")).unwrap();
        std::fs::write(case_dir.join("in/dirinput/shared/x.profraw"), b"input profile that must stay as it is").unwrap();
        std::fs::write(case_dir.join("in/dirinput/shared/x.gcda"), &gcda).unwrap();
        // files whose names contain backslashes (ordinary characters here)
        if rng.chance(1, 2) {
            hostile = true;
            let name = *rng.pick(&["..\\..\\bs_evil\\p.profraw", "..\\..\\..\\bs_evil3\\q.gcda", "sub\\..\\..\\..\\bs_evil2\\r.gcno"]);
            let body: &[u8] = if name.ends_with("gcno") { &gcno } else if name.ends_with("gcda") { &gcda } else { &profraw };
            std::fs::write(case_dir.join("in/dirinput").join(name), body).unwrap();
            rep.count("dirinput_backslash_name");
        }
        // long sibling names in the directory input (the zip may hold `cov/<same 236 bytes>_b|_f`)
        if rng.chance(2, 3) {
            std::fs::create_dir_all(case_dir.join("in/dirinput/cov")).unwrap();
            let sfx = *rng.pick(&["a", "e"]);
            std::fs::write(case_dir.join(format!("in/dirinput/cov/{}_{}.profraw", "I".repeat(236), sfx)), b"the directory's own long-named profile").unwrap();
            std::fs::write(case_dir.join(format!("in/dirinput/cov/{}_{}.gcda", "I".repeat(236), sfx)), &gcda).unwrap();
            std::fs::write(case_dir.join(format!("in/dirinput/cov/{}_{}.gcno", "I".repeat(236), sfx)), &gcno).unwrap();
            rep.count("dirinput_long_sibling_names");
        }
        // a directory named like a worker directory, link loops
        std::fs::create_dir_all(case_dir.join("in/dirinput/0")).unwrap();
        std::fs::write(case_dir.join("in/dirinput/0/w0.gcda"), &gcda).unwrap();
        std::fs::write(case_dir.join("in/dirinput/0/keep.profraw"), b"profile below a directory called 0").unwrap();
        // not files, named like artifacts, beside live ones: a FIFO and dangling links (mutant R15)
        plant_fifo(&case_dir.join("in/dirinput/zz_pipe.info"));
        plant_fifo(&case_dir.join("in/dirinput/shared/zz_pipe.profraw"));
        let _ = std::os::unix::fs::symlink("nowhere.profraw", case_dir.join("in/dirinput/zz_dangling.profraw"));
        let _ = std::os::unix::fs::symlink("nowhere.gcno", case_dir.join("in/dirinput/shared/x.gcno"));
        let _ = std::os::unix::fs::symlink(".", case_dir.join("in/dirinput/loop"));
        let _ = std::os::unix::fs::symlink("l2.info", case_dir.join("in/dirinput/l1.info"));
        let _ = std::os::unix::fs::symlink("l1.info", case_dir.join("in/dirinput/l2.info"));
        std::fs::write(case_dir.join("in/dirinput/sub/x.info"), "TN:\nSF:src/ok.c\nDA:3,1\nend_of_record\n").unwrap();
        std::fs::write(case_dir.join("bait/target.info"), "TN:\nSF:t.c\nDA:1,1\nend_of_record\n").unwrap();
        let _ = std::os::unix::fs::symlink(bait.join("target.info"), case_dir.join("in/dirinput/link.info"));
        let _ = std::os::unix::fs::symlink(&bait, case_dir.join("in/dirinput/linkdir"));
        // a source tree so that html has something to render
        std::fs::create_dir_all(case_dir.join("cwd/src")).unwrap();
        std::fs::write(case_dir.join("cwd/src/ok.c"), "int a;\nint b;\nint c;\n").unwrap();
        std::fs::write(case_dir.join("bait/abs_src.c"), "int z;\n").unwrap();

        let (ty, out_arg, is_dir) = match rng.below(9) {
            7 | 8 => ("html", "../out/html", true),
            0 => ("lcov", "../out/report.info", false),
            1 => ("html", "../out/html", true),
            2 => ("covdir", "../out/covdir.json", false),
            3 => ("cobertura", "../out/cob.xml", false),
            4 => ("markdown", "../out/r.md", false),
            5 => ("files", "../out/files.txt", false),
            _ => ("lcov", "", false), // stdout
        };
        let _ = is_dir;
        // the user's own files beside the output, named after it (seeded change C19-5: staging the report
        // in `<output stem>.tmp` and renaming destroys such a file)
        if !out_arg.is_empty() {
            plant_beside_output(&case_dir.join("out"), out_arg.rsplit('/').next().unwrap());
        }
        let mut extra: Vec<String> = vec!["-t".into(), ty.into()];
        if !out_arg.is_empty() {
            extra.extend(["-o".to_string(), out_arg.to_string()]);
        }
        if rng.chance(1, 2) {
            extra.extend(["-s".to_string(), ".".to_string()]);
        }
        if rng.chance(1, 5) {
            extra.push("--llvm".into());
            rep.count("opt.llvm");
        }
        let threads = *rng.pick(&[1usize, 2, 2, 8]);
        rep.count(&format!("threads.{}", threads));
        let before = snapshot(&case_dir);
        // run from cwd/ with TMPDIR = tmp/
        std::env::set_var("TMPDIR", case_abs.join("tmp"));
        let cfg = RunCfg {
            dir: &case_dir.join("cwd"),
            // the directory first or the zip first: which of two colliding destinations is made first
            args: if c % 2 == 0 { vec!["../in/dirinput".into(), "../in/hostile.zip".into(), "../in/paths.info".into()] } else { vec!["../in/hostile.zip".into(), "../in/paths.info".into(), "../in/dirinput".into()] },
            threads,
            perturb: None,
            fault: None,
            limit: Duration::from_secs(30),
            extra: extra.clone(),
        };
        let out = run_grcov(&cfg);
        if out.exit.is_none() {
            HANGS.fetch_add(1, std::sync::atomic::Ordering::Relaxed);
        }
        std::env::remove_var("TMPDIR");
        let _ = std::fs::remove_file(case_dir.join("cwd/events.log"));
        let after = snapshot(&case_dir);
        let names: Vec<String> = entries.iter().map(|e| e.name.clone()).collect();
        rep.case(&format!("{:?} {:?}", names, extra), hostile);
        rep.count(&format!("type.{}", ty));
        rep.count(&format!("exit.{}", match out.exit { Some(0) => "0".to_string(), Some(c) => c.to_string(), None => "timeout".into() }));
        if hostile {
            rep.count("hostile_archive");
        }
        // `process::exit(1)` / panic paths do not drop the temp dir (the text asks for removal after a
        // normal completion only): counted as an observation
        if out.exit != Some(0) && after.keys().any(|p| p.starts_with("tmp/")) {
            rep.count(&format!("tmp_left_behind_after_exit_{}", out.exit.map(|c| c.to_string()).unwrap_or("timeout".into())));
        }
        if out.exit == Some(0) && after.keys().any(|p| p.starts_with("tmp/")) {
            rep.count("tmp_left_behind_after_exit_0");
        }
        let case = json!({"op": "sandbox", "entries": names, "extra": extra, "exit": out.exit});
        if c == 0 {
            rep.sample(case.clone());
        }
        let mut bad: Vec<String> = vec![];
        for (p, v) in &after {
            // the requested output location itself (a file, or a directory and what is below it)
            let target = out_arg.trim_start_matches("../");
            let allowed = p == "out" || (!target.is_empty() && (p == target || p.starts_with(&format!("{}/", target))));
            match before.get(p) {
                Some(b) if b == v => {}
                Some(_) => {
                    if !allowed {
                        bad.push(format!("modified: {}", p));
                    }
                }
                None => {
                    if !allowed && !(p.starts_with("tmp/") && out.exit != Some(0)) {
                        bad.push(format!("created: {}", p));
                    }
                }
            }
        }
        for p in before.keys() {
            if !after.contains_key(p) {
                bad.push(format!("deleted: {}", p));
            }
        }
        if out.exit.is_none() {
            bad.push("did not terminate".into());
        }
        if !bad.is_empty() {
            bad.truncate(8);
            // minimal attribution: which entry names are not enclosed
            let hostile_names: Vec<&String> = names.iter().filter(|n| n.contains("..") || n.starts_with('/')).collect();
            rep.fail(
                "oracle",
                None,
                format!("grcov touched the file system outside its temp dir and output path: {:?} (hostile entries: {:?})", bad, hostile_names),
                case,
            );
        }
    }
    // ---- Confine model tie: zip's enclosed_name vs the model's `enclosed` ----
    let ans = run_model(&reqs, &rep.workdir, "confine");
    for i in 0..reqs.len() {
        let want = if expect[i].1 { "true" } else { "false" };
        if ans[i] != want {
            rep.disagreements_checked += 1;
            rep.fail(
                "disagreement",
                None,
                "zip's enclosed_name differs from Confine.enclosed (C19 theorems no longer transfer)".into(),
                json!({"op": "enclosed", "name": expect[i].0, "impl": expect[i].1, "model": ans[i], "request": reqs[i]}),
            );
        }
    }
    dest::run(rep);
    extract::run(rep);
    gcovstub::run(rep);
}

pub fn replay(rep: &mut Report, _case: &serde_json::Value) {
    if _case["op"].as_str().map(|o| o.starts_with("dest.")).unwrap_or(false) {
        return dest::replay(rep, _case);
    }
    rep.notes.push("sandbox replays: re-run ./check C19 with the same seed; the entry names are in the replay file".into());
}

#[allow(dead_code)]
fn unused(_: PathBuf) {}

fn main() {
    corrlib::run_main("C19", run, replay);
}
