//! C19 part `gcov` — the worker-directory half of `Confine.dests` (`gcovDests`, `walkEntry`,
//! `workerDir`, and at CLI level the gcno paths below `tmp/inputs`) tied to the real binary through a
//! RECORDING `gcov` (env `GCOV`): review item 33.
//!
//! The stub answers `--version` with 8.3.0 (text reports, `.gcov`), and on every other call logs
//! its working directory, its arguments and every file that is in its working directory at that
//! moment, then writes its output there: mode `single` = `<gcno file name>.gcov` (what grcov then
//! reads and removes: `gcovOutPath`), mode `multi` = `<source>.gcov` for two sources, flat names as
//! gcov makes them (`WalkDir` entries of depth 1: `walkEntry`; a sub-directory there would make
//! `consumer` panic at `extension().unwrap()`, real gcov never creates one). A case is a directory input (sometimes a zip
//! beside it) with GCC-format gcno/gcda pairs under stems incl. `0/a`, `1/b`, `hello.c`; threads 1-3.
//!  * oracles: every call runs in `<temp dir>/<i>`, i < threads; its gcno argument lies below
//!    `<temp dir>/inputs`; the working directory holds NO file when gcov is called (every output of
//!    the previous item was removed: the `removeFile` destinations); after exit 0 the temp dir is
//!    gone and every input is unchanged; the report holds the stub's lines for every call.
//!  * tie: the multiset of gcno arguments = the `.gcno` items of `c19.extracts` for the layout
//!    (`extractsOf` + `extractDest` at CLI level, hard-link numbers included). The name grcov reads
//!    in mode `single` is the name the stub wrote, `<gcno file name>.gcov` (`confine.dest.gcov` of
//!    stream `dest.ext`): were it another one, grcov would fall into the multi-file branch and the
//!    next call would find the file still there.
use corrlib::pipe::*;
use corrlib::*;
use serde_json::json;
use std::collections::BTreeSet;
use std::path::Path;
use std::time::Duration;

const STUB: &str = r#"#!/bin/sh
# recording stand-in for gcov
if [ "$1" = "--version" ]; then echo "gcov (GCC) 8.3.0"; exit 0; fi
gcno=""
for a in "$@"; do case "$a" in *.gcno) gcno="$a" ;; esac; done
pre=$(find . -type f | sort | tr '\n' ' ')
base=$(basename "$gcno")
{
  printf 'CALL\t%s\t%s\t%s\n' "$(pwd -P)" "$gcno" "$pre"
} >> "$STUB_LOG.$$"
cat "$STUB_LOG.$$" >> "$STUB_LOG"; rm -f "$STUB_LOG.$$"
if [ "$STUB_MODE" = "single" ]; then
  printf 'file:src/%s.c\nfunction:1,1,f\nlcount:1,1\n' "$base" > "$base.gcov"
else
  printf 'file:src/%s.c\nfunction:1,1,f\nlcount:1,1\n' "$base" > "one.c.gcov"
  printf 'file:src/%s.h\nlcount:2,1\n' "$base" > "dir#two.h.gcov"
fi
exit 0
"#;

fn write_exec(path: &Path, text: &str) {
    std::fs::write(path, text).unwrap();
    use std::os::unix::fs::PermissionsExt;
    std::fs::set_permissions(path, std::fs::Permissions::from_mode(0o755)).unwrap();
}

pub fn run(rep: &mut Report) {
    rep.rule.push_str(
        "; part gcov: a directory input (+ sometimes a zip) of GCC gcno/gcda pairs through the binary with a recording gcov (single-file and multi-file output, threads 1-3): \
         working directory, gcno argument, empty working directory at every call, temp dir gone; non-trivial = always",
    );
    let mut rng = Rng::new(rep.seed ^ 0xC19_6C);
    let n = rep.budget(24, 5);
    let stubs = rep.workdir.join("gcov_stub");
    std::fs::create_dir_all(&stubs).unwrap();
    write_exec(&stubs.join("gcov"), STUB);
    let mut reqs = vec![];
    let mut want: Vec<(serde_json::Value, Vec<String>)> = vec![];
    // per gcov call: the model's `gcovDests` / `walkEntry` against where the stub really ran and wrote
    let mut dreqs: Vec<String> = vec![];
    let mut dwant: Vec<(String, serde_json::Value)> = vec![];
    for c in 0..n {
        let case_dir = rep.workdir.join(format!("gcov{}", c));
        let _ = std::fs::remove_dir_all(&case_dir);
        for d in ["in/d0", "tmp", "cwd", "out", "log"] {
            std::fs::create_dir_all(case_dir.join(d)).unwrap();
        }
        let case_abs = std::fs::canonicalize(&case_dir).unwrap();
        let pool = ["a", "0/a", "1/b", "hello.c", "sub/deep/x", "0/1/2", "util.c", "util.cc", "7"];
        let k = rng.range(1, 4) as usize;
        let mut stems: Vec<&str> = pool.to_vec();
        rng.shuffle(&mut stems);
        stems.truncate(k);
        let with_zip = rng.chance(1, 3);
        let mut dtoks = vec![];
        let mut ztoks = vec![];
        let mut zents = vec![];
        for (i, s) in stems.iter().enumerate() {
            let g = format!("oncg*22B notes {} {}", c, i).into_bytes();
            let d = format!("adcg*22B run {} {}", c, i).into_bytes();
            for (ext, body) in [("gcno", &g), ("gcda", &d)] {
                let p = case_dir.join("in/d0").join(format!("{}.{}", s, ext));
                std::fs::create_dir_all(p.parent().unwrap()).unwrap();
                std::fs::write(&p, body).unwrap();
                dtoks.push(format!("{}/{}/{}", hex(format!("{}.{}", s, ext).as_bytes()), hex(body), fnv64(body)));
            }
            if with_zip && rng.chance(1, 2) {
                let d2 = format!("adcg*22B second run {} {}", c, i).into_bytes();
                let name = format!("./{}.gcda", s.replace('/', "//"));
                ztoks.push(format!("{}/{}/{}", hex(name.as_bytes()), hex(&d2), fnv64(&d2)));
                zents.push(super::rawzipw::RawEnt { name: name.into_bytes(), data: d2, mode: None });
            }
        }
        let mut args = vec!["../in/d0".to_string()];
        let mut toks = vec![format!("d0:{}", dtoks.join(","))];
        if !zents.is_empty() {
            std::fs::write(case_dir.join("in/z1.zip"), super::rawzipw::write_raw_zip(&zents)).unwrap();
            args.push("../in/z1.zip".into());
            toks.push(format!("Z1:{}", ztoks.join(",")));
        }
        let threads = *rng.pick(&[1usize, 2, 3]);
        let mode = if rng.chance(1, 2) { "single" } else { "multi" };
        let log = case_abs.join("log/gcov.log");
        std::env::set_var("STUB_LOG", &log);
        std::env::set_var("STUB_MODE", mode);
        std::env::set_var("GCOV", stubs.join("gcov"));
        std::env::set_var("TMPDIR", case_abs.join("tmp"));
        let before = super::snapshot(&case_dir.join("in"));
        let out = run_grcov(&RunCfg {
            dir: &case_dir.join("cwd"),
            args: args.clone(),
            threads,
            perturb: None,
            fault: None,
            limit: Duration::from_secs(60),
            extra: vec!["-t".into(), "lcov".into(), "-o".into(), "../out/r.info".into()],
        });
        for v in ["STUB_LOG", "STUB_MODE", "GCOV", "TMPDIR"] {
            std::env::remove_var(v);
        }
        let _ = std::fs::remove_file(case_dir.join("cwd/events.log"));
        let after = super::snapshot(&case_dir.join("in"));
        let logtext = std::fs::read_to_string(&log).unwrap_or_default();
        let report = std::fs::read_to_string(case_dir.join("out/r.info")).unwrap_or_default();
        let case = json!({"op": "gcov", "stems": stems, "zip": !zents.is_empty(), "threads": threads, "mode": mode, "exit": out.exit});
        rep.case(&format!("gcov {:?} {} {} {}", stems, !zents.is_empty(), threads, mode), true);
        rep.count(&format!("gcov.mode.{}", mode));
        let mut bad = vec![];
        if before != after {
            bad.push("the inputs changed".to_string());
        }
        if out.exit != Some(0) {
            bad.push(format!("exit {:?}: {}", out.exit, out.stderr.lines().last().unwrap_or("")));
        }
        if std::fs::read_dir(case_dir.join("tmp")).map(|d| d.count()).unwrap_or(0) != 0 {
            bad.push("the temp dir was not removed".into());
        }
        let tmp_root = case_abs.join("tmp");
        let mut gcnos: Vec<String> = vec![];
        let mut tmpdirs: BTreeSet<String> = BTreeSet::new();
        for l in logtext.lines().filter(|l| l.starts_with("CALL\t")) {
            let f: Vec<&str> = l.split('\t').collect();
            if f.len() < 4 {
                continue;
            }
            let (cwd, gcno, pre) = (Path::new(f[1]), Path::new(f[2]), f[3].trim());
            rep.count("gcov.call");
            let wd_ok = cwd.parent().and_then(|t| t.parent()) == Some(tmp_root.as_path())
                && cwd.file_name().and_then(|x| x.to_str()).and_then(|x| x.parse::<usize>().ok()).map(|i| i < threads).unwrap_or(false);
            if !wd_ok {
                bad.push(format!("gcov ran in {}, not in <temp dir>/<worker index>", cwd.display()));
                continue;
            }
            let t = cwd.parent().unwrap();
            tmpdirs.insert(t.to_str().unwrap().to_string());
            if !gcno.starts_with(t.join("inputs")) {
                bad.push(format!("gcno argument {} is not below <temp dir>/inputs", gcno.display()));
            }
            if !pre.is_empty() {
                bad.push(format!("gcov's working directory {} was not empty when it was called: {}", cwd.display(), pre));
            }
            let base = gcno.file_name().unwrap().to_str().unwrap();
            if !report.contains(&format!("SF:src/{}.c", base)) {
                bad.push(format!("the report lacks the gcov output of {}", base));
            }
            // relative to the temp dir: the model is asked with the temp dir as root
            gcnos.push(super::dest_segs(gcno.strip_prefix(t).unwrap()));
            let wi = cwd.file_name().unwrap().to_str().unwrap();
            let model_gcno = format!("/T/{}", gcno.strip_prefix(t).unwrap().to_str().unwrap());
            if mode == "single" {
                dreqs.push(format!("c19.gcovdests R,N54 {} {} {}", wi, hex(model_gcno.as_bytes()), hex(b".gcov")));
                dwant.push((format!("W:54,{};R:54,{},{}", hex(wi.as_bytes()), hex(wi.as_bytes()), hex(format!("{}.gcov", base).as_bytes())), case.clone()));
            } else {
                for f in ["one.c.gcov", "dir#two.h.gcov"] {
                    dreqs.push(format!("c19.walk R,N54 {} {}", wi, hex(f.as_bytes())));
                    dwant.push((format!("54,{},{}", hex(wi.as_bytes()), hex(f.as_bytes())), case.clone()));
                }
            }
        }
        if tmpdirs.len() > 1 {
            bad.push(format!("several temp dirs: {:?}", tmpdirs));
        }
        if !bad.is_empty() {
            bad.truncate(6);
            rep.fail("oracle", None, format!("gcov through the binary: {:?}", bad), case.clone());
        }
        gcnos.sort();
        // the model with the temp dir as the root `/T`
        reqs.push(format!("c19.extracts 0 0 R,N54 {}", toks.join(" ")));
        want.push((case, gcnos));
    }
    let dans = run_model_named("gm_c19", &dreqs, &rep.workdir, "gcovstub_dests");
    for i in 0..dreqs.len() {
        if dans[i] != dwant[i].0 {
            rep.disagreements_checked += 1;
            rep.fail("disagreement", None, format!("where gcov ran / wrote: observed {} model {}", dwant[i].0, dans[i]), json!({"op": "gcov.dests", "case": dwant[i].1, "request": dreqs[i]}));
        }
    }
    let ans = run_model_named("gm_c19", &reqs, &rep.workdir, "gcovstub");
    for (i, (case, gcnos)) in want.iter().enumerate() {
        let items = ans[i].split_once(" ok=").map(|x| x.0).unwrap_or("");
        let mut model: Vec<String> = items
            .split(';')
            .filter_map(|it| it.split_once(':'))
            .filter(|(k, p)| *k != "D" && p.ends_with(&hex(b".gcno")))
            .map(|(_, p)| p.strip_prefix("54,").unwrap_or(p).to_string())
            .collect();
        model.sort();
        if model != *gcnos {
            rep.disagreements_checked += 1;
            rep.fail("disagreement", None, format!("gcno paths handed to gcov {:?}, Confine.extractsOf {:?}", gcnos, model), json!({"op": "gcov", "case": case, "request": reqs[i]}));
        }
    }
}
