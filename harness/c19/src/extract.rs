//! C19 part `Extract` — ties `Confine.extractsOf` / `extractDests` / `extractDest` / `numbered`
//! (the extraction half of `Confine.dests`, derived from the Producer model; review items 1, 18,
//! 33) to the REAL `grcov::producer`, in-process.
//!
//! A case is a layout of 1-3 archives (directory inputs and RAW zips written entry by entry with
//! respelled, repeated, hostile and long names, directory and symlink entries) holding GCC-format
//! gcno/gcda pairs, gcda of further runs, profraw/profdata profiles and .info files, with stems from
//! a pool that contains `0/…`, `1/…` (names of consumer working directories, fix 232bfd3), dotted
//! file stems (`hello.c`), sibling stems (`util.c`/`util.cc`), `sub/...gcno` (stem `sub/..`), stems of
//! 236+ bytes that agree on a long prefix (a directory and a zip holding such siblings), and stems
//! whose numbered name exceeds NAME_MAX. Like `main` the harness creates `tmp/` and `tmp/inputs/`,
//! calls `producer(tmp/inputs, paths, …)`, drains the channel, and snapshots `tmp/` and the inputs.
//!  * tie: the set of created directories / regular files / symlinks below `tmp` equals the model's
//!    `c19.extracts` answer (`D:` / `F:`+`H:` / `L:` items), whose `ok=1 apart=1` flags are the
//!    decidable content of `C19_extracts_ok` / `C19_extractions_apart_from_workers`;
//!  * oracles, independent of the model: every created path lies below `tmp/inputs`; nothing lies at
//!    or below a worker directory `tmp/<i>`; every symlink points at a file inside a directory
//!    input; EVERY INPUT is byte for byte and entry for entry as before (no write through a link);
//!    a panic of the producer is accepted only with the signature of an over-long name
//!    (`File name too long`: the numbered name of some artifact exceeds 255 bytes) and counted.
use super::rawzipw::{write_raw_zip, RawEnt};
use corrlib::*;
use crossbeam_channel::unbounded;
use serde_json::json;
use std::collections::{BTreeMap, BTreeSet};
use std::path::{Path, PathBuf};

fn segs_of(p: &Path) -> String {
    let v: Vec<String> = p
        .components()
        .filter_map(|c| match c {
            std::path::Component::Normal(n) => Some(hex(n.to_str().unwrap().as_bytes())),
            _ => None,
        })
        .collect();
    if v.is_empty() {
        "-".into()
    } else {
        v.join(",")
    }
}

#[derive(Clone)]
struct Ent {
    /// canonical relative name
    rel: String,
    /// how a zip spells it
    spelled: String,
    content: Vec<u8>,
    mode: Option<u32>,
}

struct Arch {
    zip: bool,
    ents: Vec<Ent>,
}

fn long_prefix() -> String {
    "I".repeat(236)
}

fn stems(rng: &mut Rng) -> String {
    const POOL: &[&str] = &[
        "a", "sub/b", "0/a", "1/b", "0/1/c", "hello.c", "lib/util.c", "lib/util.cc", "x_1", "d_2/e", "sub/..", "sub/x.", "deep/er/st/f", "7",
        "inputs/g", "grcov", "0",
    ];
    match rng.below(12) {
        // the numbered name `<249 x L>_1.gcno` has 256 bytes: the run dies with "File name too long"
        0 if rng.chance(1, 4) => "L".repeat(249),
        0 => format!("cov/{}_{}", long_prefix(), (b'a' + rng.below(8) as u8) as char),
        1 => format!("{}_{}", long_prefix(), (b'a' + rng.below(8) as u8) as char),
        _ => rng.pick(POOL).to_string(),
    }
}

fn respell(rng: &mut Rng, n: &str) -> String {
    match rng.below(6) {
        0 => format!("./{}", n),
        1 => n.replace('/', "//"),
        2 => n.replace('/', "/./"),
        _ => n.to_string(),
    }
}

fn gen_case(rng: &mut Rng, c: u64) -> (Vec<Arch>, bool, bool) {
    let na = rng.range(1, 3) as usize;
    let mut archs: Vec<Arch> = (0..na).map(|_| Arch { zip: rng.chance(1, 2), ents: vec![] }).collect();
    if na >= 2 && rng.chance(1, 2) {
        // one of each kind: what a write through a link needs
        archs[0].zip = false;
        archs[1].zip = true;
    }
    let mut uniq = 0u64;
    let mut content = |tag: &str| -> Vec<u8> {
        uniq += 1;
        format!("{} case{} #{}", tag, c, uniq).into_bytes()
    };
    let put = |archs: &mut Vec<Arch>, rng: &mut Rng, ai: usize, rel: String, content: Vec<u8>| {
        if archs[ai].ents.iter().any(|e| e.rel == rel) {
            return;
        }
        // a directory cannot hold a name longer than NAME_MAX (a zip can)
        if !archs[ai].zip && rel.rsplit('/').next().unwrap().len() > 255 {
            return;
        }
        let spelled = if archs[ai].zip { respell(rng, &rel) } else { rel.clone() };
        archs[ai].ents.push(Ent { rel, spelled, content, mode: None });
    };
    let k = rng.range(1, 4);
    for _ in 0..k {
        let stem = stems(rng);
        let ai = rng.below(na as u64) as usize;
        match rng.below(5) {
            0 | 1 => {
                // a GCC gcno with its gcda in 1..na archives
                put(&mut archs, rng, ai, format!("{}.gcno", stem), content("oncg*22B"));
                for aj in 0..na {
                    if aj == ai || rng.chance(1, 2) {
                        put(&mut archs, rng, aj, format!("{}.gcda", stem), content("adcg*22B"));
                    }
                }
            }
            2 => {
                for aj in 0..na {
                    if aj == ai || rng.chance(1, 2) {
                        put(&mut archs, rng, aj, format!("{}.profraw", stem), content("profraw"));
                    }
                }
            }
            3 => put(&mut archs, rng, ai, format!("{}.profdata", stem), content("profdata")),
            _ => put(&mut archs, rng, ai, format!("{}.gcno", stem), content("oncg*22B orphan")),
        }
    }
    // siblings that agree on a long prefix: one in a directory, one in a zip, same kind
    if na >= 2 && rng.chance(1, 3) {
        let (d, z) = if !archs[0].zip && archs[1].zip { (0, 1) } else { (1 % na, 0) };
        let (sa, sb) = ((b'a' + rng.below(4) as u8) as char, (b'e' + rng.below(4) as u8) as char);
        let ext = *rng.pick(&["profraw", "profdata", "gcda"]);
        let pa = format!("cov/{}_{}", long_prefix(), sa);
        let pb = format!("cov/{}_{}", long_prefix(), sb);
        if ext == "gcda" {
            put(&mut archs, rng, d, format!("{}.gcno", pa), content("oncg*22B"));
            put(&mut archs, rng, z, format!("{}.gcno", pb), content("oncg*22B"));
        }
        put(&mut archs, rng, d, format!("{}.{}", pa, ext), content("long sibling in the first archive"));
        put(&mut archs, rng, z, format!("{}.{}", pb, ext), content("long sibling in the second archive"));
    }
    // always something usable
    let ai = rng.below(na as u64) as usize;
    put(&mut archs, rng, ai, "ok.info".to_string(), b"TN:\nSF:ok.c\nDA:1,1\nend_of_record\n".to_vec());
    // hostile and odd entries in zips
    for a in archs.iter_mut().filter(|a| a.zip) {
        if rng.chance(1, 3) {
            let name = *rng.pick(&["../up.profraw", "/abs.profraw", "a/../../x.gcda", "junk.profraw/", "sub/dir/", "n\0ul.profraw"]);
            let mode = if name.ends_with('/') { Some(0o40755) } else { None };
            a.ents.push(Ent { rel: String::new(), spelled: name.to_string(), content: b"hostile".to_vec(), mode });
        }
        if rng.chance(1, 6) {
            a.ents.push(Ent { rel: "lnk.profraw".into(), spelled: "lnk.profraw".into(), content: b"../../in/d0/ok.info".to_vec(), mode: Some(0o120777) });
        }
        if rng.chance(1, 6) && !a.ents.is_empty() {
            // the same canonical name once more, under another spelling
            let e = a.ents[rng.below(a.ents.len() as u64) as usize].clone();
            if !e.rel.is_empty() {
                a.ents.push(Ent { rel: e.rel.clone(), spelled: format!("././{}", e.rel), content: b"a later entry with the same canonical name".to_vec(), mode: None });
            }
        }
    }
    (archs, rng.chance(1, 2), rng.chance(1, 6))
}

fn snapshot_tmp(tmp: &Path) -> (BTreeSet<String>, BTreeSet<String>, BTreeMap<String, PathBuf>) {
    fn walk(d: &Path, dirs: &mut BTreeSet<String>, files: &mut BTreeSet<String>, links: &mut BTreeMap<String, PathBuf>) {
        for e in std::fs::read_dir(d).map(|r| r.flatten().collect::<Vec<_>>()).unwrap_or_default() {
            let p = e.path();
            let md = std::fs::symlink_metadata(&p).unwrap();
            if md.file_type().is_symlink() {
                links.insert(segs_of(&p), std::fs::read_link(&p).unwrap());
            } else if md.is_dir() {
                dirs.insert(segs_of(&p));
                walk(&p, dirs, files, links);
            } else {
                files.insert(segs_of(&p));
            }
        }
    }
    let (mut d, mut f, mut l) = (BTreeSet::new(), BTreeSet::new(), BTreeMap::new());
    walk(tmp, &mut d, &mut f, &mut l);
    (d, f, l)
}

pub fn run(rep: &mut Report) {
    rep.rule.push_str(
        "; part Extract: layouts of 1-3 directory inputs / raw zips (respelled, repeated, hostile, directory and symlink entries) with GCC gcno+gcda, \
         profiles and .info under stems incl. 0/…, 1/…, dotted and sibling stems, sub/...gcno, 236-byte sibling stems in a directory AND a zip, through the real \
         producer(tmp/inputs, …): created dirs/files/links = Confine.extractsOf; inputs unchanged; non-trivial = a zip and a directory, or a stem below a digit directory, \
         or a long stem",
    );
    let mut rng = Rng::new(rep.seed ^ 0xC19E);
    let n = rep.budget(140, 6);
    let mut reqs = vec![];
    let mut obs: Vec<(serde_json::Value, BTreeSet<String>, BTreeSet<String>, BTreeSet<String>, bool)> = vec![];
    for c in 0..n {
        let (archs, io, llvm) = gen_case(&mut rng, c);
        let root = rep.workdir.join(format!("extract{}", c));
        let _ = std::fs::remove_dir_all(&root);
        std::fs::create_dir_all(root.join("in")).unwrap();
        std::fs::create_dir_all(root.join("tmp/inputs")).unwrap();
        let root = std::fs::canonicalize(&root).unwrap();
        let mut paths = vec![];
        let mut toks = vec![];
        for (i, a) in archs.iter().enumerate() {
            if a.zip {
                let p = root.join(format!("in/z{}.zip", i));
                let ents: Vec<RawEnt> = a.ents.iter().map(|e| RawEnt { name: e.spelled.as_bytes().to_vec(), data: e.content.clone(), mode: e.mode }).collect();
                std::fs::write(&p, write_raw_zip(&ents)).unwrap();
                paths.push(p.to_str().unwrap().to_string());
                toks.push(format!("Z{}:{}", i, a.ents.iter().map(|e| format!("{}/{}/{}", hex(e.spelled.as_bytes()), hex(&e.content[..e.content.len().min(256)]), fnv64(&e.content))).collect::<Vec<_>>().join(",")));
            } else {
                let d = root.join(format!("in/d{}", i));
                std::fs::create_dir_all(&d).unwrap();
                for e in &a.ents {
                    let p = d.join(&e.rel);
                    std::fs::create_dir_all(p.parent().unwrap()).unwrap();
                    std::fs::write(&p, &e.content).unwrap();
                }
                // links inside a directory input: to a file (followed), dangling, loops
                let _ = std::os::unix::fs::symlink(".", d.join("loop"));
                let _ = std::os::unix::fs::symlink("nowhere.gcda", d.join("dangling.gcda"));
                // not files, named like artifacts that WOULD be extracted (mutant R15): FIFOs, dangling links,
                // and a dangling / FIFO gcda beside every live gcno that has no gcda here
                super::plant_fifo(&d.join("zz_pipe.profraw"));
                let _ = std::os::unix::fs::symlink("nowhere.profraw", d.join("zz_dangling.profraw"));
                let _ = std::os::unix::fs::symlink("nowhere.profdata", d.join("zz_dangling.profdata"));
                for (k, e) in a.ents.iter().filter(|e| e.rel.ends_with(".gcno")).enumerate() {
                    let g = d.join(format!("{}.gcda", &e.rel[..e.rel.len() - 5]));
                    if std::fs::symlink_metadata(&g).is_err() {
                        if k % 2 == 0 {
                            let _ = std::os::unix::fs::symlink("nowhere.gcda", &g);
                        } else {
                            super::plant_fifo(&g);
                        }
                    }
                }
                paths.push(d.to_str().unwrap().to_string());
                toks.push(format!("d{}:{}", i, a.ents.iter().map(|e| format!("{}/{}/{}", hex(e.rel.as_bytes()), hex(&e.content[..e.content.len().min(256)]), fnv64(&e.content))).collect::<Vec<_>>().join(",")));
            }
        }
        let before = super::snapshot(&root.join("in"));
        let tmp = root.join("tmp");
        let xdir = tmp.join("inputs");
        let (sender, receiver) = unbounded();
        let paths2 = paths.clone();
        // on its own thread: a producer blocked on a FIFO must not block the check
        let (dtx, drx) = std::sync::mpsc::channel();
        std::thread::spawn(move || {
            let r = guarded(move || {
                let m = grcov::producer(&xdir, &paths2, &sender, io, llvm);
                drop(sender);
                m
            });
            let _ = dtx.send(r);
        });
        let res = match drx.recv_timeout(std::time::Duration::from_secs(20)) {
            Ok(r) => r,
            Err(_) => {
                super::HANGS.fetch_add(1, std::sync::atomic::Ordering::Relaxed);
                Err("producer() did not return within 20 s".to_string())
            }
        };
        let mut items = 0u64;
        while let Ok(x) = receiver.try_recv() {
            if x.is_some() {
                items += 1;
            }
        }
        let after = super::snapshot(&root.join("in"));
        let (dirs, files, links) = snapshot_tmp(&tmp);
        let mixed = archs.iter().any(|a| a.zip) && archs.iter().any(|a| !a.zip);
        let digit = archs.iter().any(|a| a.ents.iter().any(|e| e.rel.starts_with("0/") || e.rel.starts_with("1/") || e.rel.starts_with("7.") || e.rel.starts_with("0.")));
        let long = archs.iter().any(|a| a.ents.iter().any(|e| e.rel.len() > 200));
        let case = json!({"op": "extract", "ignore_orphan": io, "paths": paths.iter().map(|p| p.replace(root.to_str().unwrap(), "<root>")).collect::<Vec<_>>(),
            "archives": archs.iter().map(|a| json!({"zip": a.zip, "entries": a.ents.iter().map(|e| json!({"name": e.spelled, "canonical": e.rel, "mode": e.mode})).collect::<Vec<_>>()})).collect::<Vec<_>>(),
            "panic": res.as_ref().err()});
        rep.case(&format!("extract {} {}", io, toks.join(" ")), mixed || digit || long);
        rep.count(if mixed { "extract.zip_and_directory" } else { "extract.one_kind" });
        if digit {
            rep.count("extract.stem_below_digit_directory");
        }
        if long {
            rep.count("extract.long_stem");
        }
        rep.count_n("extract.items_sent", items);
        if c == 0 {
            rep.sample(case.clone());
        }
        // ---- oracles
        let mut bad: Vec<String> = vec![];
        for (p, v) in &before {
            match after.get(p) {
                None => bad.push(format!("input deleted: {}", p)),
                Some(a) if a != v => bad.push(format!("input modified: {}", p)),
                _ => {}
            }
        }
        for p in after.keys() {
            if !before.contains_key(p) {
                bad.push(format!("created inside the inputs: {}", p));
            }
        }
        let inputs_segs = segs_of(&tmp.join("inputs"));
        for p in dirs.iter().chain(files.iter()).chain(links.keys()) {
            if *p != inputs_segs && !p.starts_with(&format!("{},", inputs_segs)) {
                bad.push(format!("created below the temp dir but outside tmp/inputs: {}", p));
            }
        }
        for (p, target) in &links {
            let ok = archs.iter().enumerate().any(|(i, a)| !a.zip && target.starts_with(root.join(format!("in/d{}", i))));
            if !ok {
                bad.push(format!("link {} points outside the directory inputs: {}", p, target.display()));
            }
        }
        let mut panicked = false;
        if let Err(msg) = &res {
            panicked = true;
            let name_too_long = msg.contains("File name too long") || msg.contains("Failed to create a symlink") || msg.contains("Failed to create file");
            // `<base>` = `<file stem>.<ext>`; the numbered name is `<file stem>_<n>.<ext>`
            let predicted_long = archs.iter().any(|a| a.ents.iter().any(|e| e.rel.rsplit('/').next().unwrap_or("").len() + 2 > 255));
            if name_too_long && predicted_long {
                rep.count("extract.panic.name_too_long");
            } else {
                bad.push(format!("the producer panicked: {}", msg));
            }
        }
        if !bad.is_empty() {
            bad.truncate(6);
            rep.fail("oracle", None, format!("extraction: {:?}", bad), case.clone());
        }
        reqs.push(format!("c19.extracts {} {} {} {}", if io { 1 } else { 0 }, if llvm { 1 } else { 0 }, super::comps(tmp.to_str().unwrap()), toks.join(" ")));
        let mut d2 = dirs.clone();
        d2.remove(&inputs_segs);
        obs.push((case, d2, files, links.keys().cloned().collect(), panicked));
        let _ = std::fs::remove_dir_all(&root);
    }
    let ans = run_model_named("gm_c19", &reqs, &rep.workdir, "extract");
    for (i, (case, dirs, files, links, panicked)) in obs.iter().enumerate() {
        let a = &ans[i];
        let (items, flags) = match a.split_once(" ok=") {
            Some(x) => x,
            None => {
                rep.fail("disagreement", None, format!("model answered {}", a), case.clone());
                continue;
            }
        };
        if flags != "1 apart=1" {
            rep.fail("disagreement", None, format!("the model's extractions are not well-formed / not apart from the worker directories: ok={}", flags), json!({"op": "extract", "case": case, "request": reqs[i]}));
        }
        if *panicked {
            continue;
        }
        let mut md = BTreeSet::new();
        let mut mf = BTreeSet::new();
        let mut ml = BTreeSet::new();
        for it in items.split(';').filter(|s| !s.is_empty()) {
            match it.split_once(':') {
                Some(("D", p)) => {
                    md.insert(p.to_string());
                }
                Some(("F", p)) | Some(("H", p)) => {
                    mf.insert(p.to_string());
                }
                Some(("L", p)) => {
                    ml.insert(p.to_string());
                }
                _ => {}
            }
        }
        if md != *dirs || mf != *files || ml != *links {
            rep.disagreements_checked += 1;
            let diff = |a: &BTreeSet<String>, b: &BTreeSet<String>| -> Vec<String> { a.symmetric_difference(b).take(4).map(|s| String::from_utf8_lossy(&unhex(&s.replace(',', "2f"))).to_string()).collect() };
            rep.fail(
                "disagreement",
                None,
                format!("what producer() made below tmp differs from Confine.extractsOf: dirs {:?} files {:?} links {:?}", diff(&md, dirs), diff(&mf, files), diff(&ml, links)),
                json!({"op": "extract", "case": case, "request": reqs[i]}),
            );
        }
    }
    // `alive (dests ri)` leaves nothing below tmp (C19_nothing_of_tmp_survives), on the first few layouts
    let areqs: Vec<String> = reqs.iter().take(20).map(|r| {
        let w: Vec<&str> = r.split(' ').collect();
        format!("c19.alive {} 3 {}", w[3], w[4..].join(" "))
    }).collect();
    for (i, a) in run_model_named("gm_c19", &areqs, &rep.workdir, "extract_alive").iter().enumerate() {
        if !a.starts_with("0 of ") {
            rep.fail("disagreement", None, format!("Confine.alive leaves something below tmp: {}", a), json!({"op": "extract.alive", "request": areqs[i]}));
        }
    }
}
