//! C19 part `Dest` — ties `Confine.Dest` (every write destination of a run) to the real code.
//!
//! Streams (one `Rng::new(rep.seed ^ 0xC19D)`):
//! * `dest.ext`  — `addHtmlExt` / `fileName` (+ gcov output name) of the model against std's own
//!   `Path::{extension, with_extension, file_name}` on hostile path strings (ties the byte-level
//!   model of std::path; the body of `add_html_ext` itself is tied by the next stream).
//! * `dest.html` — the REAL `grcov::output_html` in-process on hand-made reports whose relative
//!   paths are hostile (`..` segments, trailing dots, leading dots, no extension, `..c`,
//!   `index.html`, `badges/flat.svg`, unicode, long, absolute, unreadable sources); the set of
//!   files really created in a sandbox is compared with `confine.dest.run`; independent oracle:
//!   a report made of clean relative paths creates files below the output directory only.
//! * `dest.cli`  — the real `grcov` binary with `-t html` on generated lcov inputs with hostile SF
//!   paths over a generated source tree, output into a nested directory that does not exist yet;
//!   full sandbox snapshot before/after: every created/modified/deleted path must lie below the
//!   output directory (or be one of its missing ancestors), the temp dir must be empty, inputs
//!   unchanged; the created files must all be predicted by the model, and every known-good source
//!   must have its predicted page. Plus `-t lcov|covdir|files -o` into a missing nested directory
//!   (nothing may be created: `get_target_output_writable` does not create parents), an existing
//!   directory (`<dir>/<fixed name>`), or a file.
//! * `dest.llvm` — the source-based path through recording stub tools with profiles as plain file
//!   arguments (one `.profdata`, one `.profraw`, several), in a directory, in a zip: input and temp-dir
//!   snapshots, and the `-o` path of the merge against `profdataPath (workerDir tmp i)`.
//! * corpus/C19/*.json (op `dest.cli.corpus`) first: minimised past failures, e.g. the former finding
//!   C19-html-backslash-escape (a path mapping with backslashes; fixed by /repo 568afd2).
use corrlib::pipe::*;
use corrlib::*;
use serde_json::json;
use std::collections::{BTreeMap, BTreeSet};
use std::path::{Path, PathBuf};
use std::time::Duration;

fn add_html_ext_std(path: &Path) -> PathBuf {
    // html.rs 204-212, verbatim (after fix b1b2416), on std
    if let Some(ext) = path.extension() {
        let mut ext = ext.to_str().unwrap().to_owned();
        ext.push_str(".html");
        path.with_extension(ext)
    } else {
        path.with_extension("html")
    }
}

/// segments (hex, comma separated) of an absolute, clean path
fn segs_of(p: &Path) -> String {
    let v: Vec<String> = p
        .components()
        .filter_map(|c| match c {
            std::path::Component::Normal(n) => Some(hex(n.to_str().unwrap().as_bytes())),
            _ => None,
        })
        .collect();
    if v.is_empty() {
        "-".into()
    } else {
        v.join(",")
    }
}

/// how far a relative path climbs above its start at its worst prefix
fn max_climb(s: &str) -> i64 {
    let (mut d, mut worst) = (0i64, 0i64);
    for c in Path::new(s).components() {
        match c {
            std::path::Component::ParentDir => d -= 1,
            std::path::Component::Normal(_) => d += 1,
            _ => {}
        }
        worst = worst.min(d);
    }
    -worst
}

fn gen_path(rng: &mut Rng) -> String {
    let names = [
        "a", "b.c", "..c", ".x", "x.", "x..", "ü.c", "dir", "a.b.c", "...", ". ", "index.html", "badges", "flat.svg",
        "coverage.json", "index", ".bashrc", "noext", "..ab", "..a.b", "n .c",
    ];
    let odd = [".", "..", ""];
    let k = rng.range(1, 4);
    let mut v: Vec<String> = vec![];
    for _ in 0..k {
        if rng.chance(1, 5) {
            v.push(rng.pick(&odd).to_string());
        } else if rng.chance(1, 30) {
            v.push("L".repeat(180) + ".c");
        } else {
            v.push(rng.pick(&names).to_string());
        }
    }
    let mut s = v.join("/");
    if rng.chance(1, 12) {
        s.push('/');
    }
    if rng.chance(1, 12) {
        s = format!("./{}", s);
    }
    s
}

fn cov1() -> grcov::CovResult {
    let mut lines = BTreeMap::new();
    lines.insert(1u32, 1u64);
    grcov::CovResult { lines, branches: BTreeMap::new(), functions: Default::default() }
}

fn is_clean_rel(s: &str) -> bool {
    !s.is_empty()
        && !s.starts_with('/')
        && s.split('/').all(|c| !c.is_empty() && c != "." && c != "..")
        && !{
            let n = s.rsplit('/').next().unwrap();
            n.starts_with("..") && n.len() > 2 && !n[2..].contains('.')
        }
}

fn stream_ext(rep: &mut Report, rng: &mut Rng) {
    let n = rep.budget(500, 4);
    let mut reqs = vec![];
    let mut want = vec![];
    let mut cases = vec![];
    for _ in 0..n {
        let mut s = gen_path(rng);
        if rng.chance(1, 10) {
            s = format!("/{}", s);
        }
        let p = Path::new(&s);
        let r = add_html_ext_std(p);
        reqs.push(format!("confine.dest.ext {}", hex(s.as_bytes())));
        want.push(hex(r.to_str().unwrap().as_bytes()));
        cases.push(json!({"op": "dest.ext", "path": s}));
        let ext = *rng.pick(&[".gcov", ".gcov.json.gz", ""]);
        let dash = |b: &[u8]| if b.is_empty() { "-".to_string() } else { hex(b) };
        reqs.push(format!("confine.dest.gcov {} {}", dash(s.as_bytes()), dash(ext.as_bytes())));
        match p.file_name() {
            None => {
                want.push("panic".into());
                rep.count("ext.no_file_name");
            }
            Some(f) => {
                let name = f.to_str().unwrap().to_string() + ext;
                // oracle: one normal component, whatever the path was
                if name.contains('/') || name == "." || name == ".." || name.is_empty() {
                    rep.fail("oracle", None, format!("gcov output name {:?} is not a single normal component", name), json!({"op": "dest.gcov", "path": s, "ext": ext}));
                }
                want.push(hex(name.as_bytes()));
            }
        }
        cases.push(json!({"op": "dest.gcov", "path": s, "ext": ext}));
        let quirk = r.file_name().is_none() && p.file_name().is_some();
        if quirk {
            rep.count("ext.dotdot_name_quirk");
        }
        rep.count(if p.extension().is_some() { "ext.has_extension" } else { "ext.no_extension" });
        rep.case(&format!("ext {}", s), s.contains("..") || s.ends_with('.') || s.starts_with('.'));
    }
    let ans = run_model(&reqs, &rep.workdir, "dest_ext");
    for i in 0..reqs.len() {
        if ans[i] != want[i] {
            rep.disagreements_checked += 1;
            rep.fail(
                "disagreement",
                None,
                format!("std::path and the model differ: impl {} model {}", want[i], ans[i]),
                json!({"op": cases[i]["op"], "case": cases[i], "request": reqs[i]}),
            );
        }
    }
}

fn created_files(before: &BTreeMap<String, String>, after: &BTreeMap<String, String>) -> (BTreeSet<String>, BTreeSet<String>, Vec<String>) {
    let mut files = BTreeSet::new();
    let mut dirs = BTreeSet::new();
    let mut other = vec![];
    for (p, v) in after {
        match before.get(p) {
            Some(b) if b == v => {}
            Some(_) => other.push(format!("modified: {}", p)),
            None => {
                if v == "dir" {
                    dirs.insert(p.clone());
                } else {
                    files.insert(p.clone());
                }
            }
        }
    }
    for p in before.keys() {
        if !after.contains_key(p) {
            other.push(format!("deleted: {}", p));
        }
    }
    (files, dirs, other)
}

fn stream_html(rep: &mut Report, rng: &mut Rng) {
    let n = rep.budget(120, 5);
    let mut reqs = vec![];
    let mut checks: Vec<(serde_json::Value, PathBuf, BTreeSet<String>, BTreeSet<String>)> = vec![];
    let mut preqs = vec![];
    let mut pwant: Vec<(String, String)> = vec![];
    for c in 0..n {
        let root = rep.workdir.join(format!("destA{}", c));
        let _ = std::fs::remove_dir_all(&root);
        std::fs::create_dir_all(root.join("l1/l2/l3")).unwrap();
        std::fs::create_dir_all(root.join("srcs")).unwrap();
        std::fs::write(root.join("srcs/f.c"), "int a;\nint b;\n").unwrap();
        let root = std::fs::canonicalize(&root).unwrap();
        let out = root.join("l1/l2/l3/out");
        if rng.chance(1, 2) {
            std::fs::create_dir_all(&out).unwrap();
        }
        let k = rng.range(1, 4);
        let mut rels: Vec<(String, bool)> = vec![];
        let mut tries = 0;
        let clean_mode = rng.chance(1, 3);
        while (rels.len() as u64) < k && tries < 50 {
            tries += 1;
            let mut s = gen_path(rng);
            if clean_mode && !is_clean_rel(&s) {
                continue;
            }
            if !clean_mode && rng.chance(1, 4) {
                // climb out of the output directory (bounded: the sandbox root is 4 levels up)
                s = format!("{}{}", "../".repeat(rng.range(1, 3) as usize), s);
            }
            if !clean_mode && rng.chance(1, 10) {
                s = format!("{}/bait/{}", root.display(), s.trim_start_matches("./"));
            }
            let p = Path::new(&s);
            let absolute = p.is_absolute();
            if !absolute && (p.parent().is_none() || p.file_name().is_none()) {
                // `get_dirs_result` would panic and `output_html` would exit the process: ask the model only
                preqs.push(format!("confine.dest.html {} {}", super::comps(out.to_str().unwrap()), hex(s.as_bytes())));
                pwant.push((s.clone(), "panic".into()));
                rep.count("html.panic_predicted_by_std");
                continue;
            }
            if !absolute && max_climb(&s) > 3 {
                continue;
            }
            // a directory name that is also the name of a page would make create_dir_all fail (panic)
            if s.split('/').rev().skip(1).any(|d| d.ends_with(".html")) {
                continue;
            }
            let readable = !rng.chance(1, 6);
            rels.push((s, readable));
        }
        if rels.is_empty() {
            continue;
        }
        let results: Vec<grcov::ResultTuple> = rels
            .iter()
            .map(|(s, r)| (if *r { root.join("srcs/f.c") } else { root.join("srcs/missing.c") }, PathBuf::from(s), cov1()))
            .collect();
        let before = super::snapshot(&root);
        let bundled = rng.chance(2, 3);
        let out2 = out.clone();
        let res = guarded(move || {
            grcov::output_html(
                &results,
                Some(&out2),
                1,
                false,
                None,
                2,
                &None,
                true,
                if bundled { grcov::html::HtmlResources::Bundled } else { grcov::html::HtmlResources::Cdn },
            )
        });
        let after = super::snapshot(&root);
        let (files, dirs, other) = created_files(&before, &after);
        let case = json!({"op": "dest.html", "rels": rels, "bundled": bundled, "panic": res.as_ref().err()});
        let hostile = rels.iter().any(|(s, _)| !is_clean_rel(s));
        rep.case(&format!("html {:?} {}", rels, bundled), hostile);
        rep.count(if hostile { "html.hostile_report" } else { "html.clean_report" });
        if res.is_err() {
            rep.count("html.panicked");
        }
        // independent oracle: clean relative paths only => everything created lies below `out`
        if !hostile {
            let bad: Vec<&String> = files.iter().chain(dirs.iter()).filter(|p| *p != "l1/l2/l3/out" && !p.starts_with("l1/l2/l3/out/")).collect();
            if !bad.is_empty() || !other.is_empty() {
                rep.fail("oracle", None, format!("html report of clean relative paths touched {:?} {:?} outside the output directory", bad, other), case.clone());
            }
        } else if files.iter().any(|p| !p.starts_with("l1/l2/l3/out/")) {
            rep.count("html.escape_observed_for_unclean_rel");
        }
        if c < 2 {
            rep.sample(case.clone());
        }
        let rep_arg: Vec<String> = rels.iter().map(|(s, r)| format!("{}:{}", hex(s.as_bytes()), if *r { 1 } else { 0 })).collect();
        reqs.push(format!("confine.dest.run {} {} {}", super::comps(out.to_str().unwrap()), if bundled { 1 } else { 0 }, rep_arg.join(";")));
        let abs = |set: &BTreeSet<String>| set.iter().map(|p| segs_of(&root.join(p))).collect::<BTreeSet<String>>();
        checks.push((case, root.clone(), abs(&files), abs(&dirs)));
    }
    let ans = run_model(&reqs, &rep.workdir, "dest_html");
    for (i, (case, root, files, dirs)) in checks.iter().enumerate() {
        let a = &ans[i];
        let (paths, dups) = match a.rsplit_once(" dups=") {
            Some((p, d)) => (p, d),
            None => {
                rep.fail("disagreement", None, format!("model answered {}", a), case.clone());
                continue;
            }
        };
        if dups != "0" {
            rep.count("html.collision_predicted");
        }
        let model: BTreeSet<String> = paths.split(';').filter(|s| !s.is_empty()).map(|s| s.to_string()).collect();
        // existing ancestors count as directories too
        let mut is_dir = dirs.clone();
        let mut p = root.join("l1/l2/l3/out");
        loop {
            is_dir.insert(segs_of(&p));
            if !p.pop() {
                break;
            }
        }
        let extra: Vec<&String> = files.iter().filter(|f| !model.contains(*f)).collect();
        let missing: Vec<&String> = model.iter().filter(|m| !files.contains(*m) && !is_dir.contains(*m)).collect();
        if model.iter().any(|m| is_dir.contains(m)) {
            rep.count("html.destination_is_a_directory");
        }
        if !extra.is_empty() || !missing.is_empty() {
            rep.disagreements_checked += 1;
            rep.fail(
                "disagreement",
                None,
                format!("files created by output_html differ from Confine.dests: not predicted {:?}, predicted but absent {:?}", extra, missing),
                json!({"op": "dest.html", "case": case, "request": reqs[i]}),
            );
        }
    }
    let pans = run_model(&preqs, &rep.workdir, "dest_html_panic");
    for i in 0..preqs.len() {
        if pans[i] != pwant[i].1 {
            rep.disagreements_checked += 1;
            rep.fail("disagreement", None, format!("std says gen_html panics on {:?}, the model says {}", pwant[i].0, pans[i]), json!({"op": "dest.html.panic", "rel": pwant[i].0, "request": preqs[i]}));
        }
    }
}

struct Sf {
    sf: &'static str,
    file: Option<&'static str>,
    rel: Option<&'static str>, // reported relative path whose page must exist
}

fn cli_case(rep: &mut Report, rng: &mut Rng, c: u64, fixed: Option<&serde_json::Value>, reqs: &mut Vec<String>, checks: &mut Vec<(serde_json::Value, PathBuf, BTreeSet<String>, Vec<String>)>) {
    let witness = fixed.is_some();
    let case_dir = rep.workdir.join(format!("destB{}{}", if witness { "w" } else { "" }, c));
    let _ = std::fs::remove_dir_all(&case_dir);
    for d in ["in", "tmp", "cwd", "bait", "o0"] {
        std::fs::create_dir_all(case_dir.join(d)).unwrap();
    }
    let case_abs = std::fs::canonicalize(&case_dir).unwrap();
    let long: &'static str = Box::leak(("L".repeat(200) + ".c").into_boxed_str());
    let pool = vec![
        Sf { sf: "src/a.c", file: Some("src/a.c"), rel: Some("src/a.c") },
        Sf { sf: "./src//b.c", file: Some("src/b.c"), rel: Some("src/b.c") },
        Sf { sf: "src/../src/c.c", file: Some("src/c.c"), rel: Some("src/c.c") },
        Sf { sf: ".bashrc", file: Some(".bashrc"), rel: Some(".bashrc") },
        Sf { sf: "noext", file: Some("noext"), rel: Some("noext") },
        Sf { sf: "deep/trail.", file: Some("deep/trail."), rel: Some("deep/trail.") },
        Sf { sf: "a.b.c", file: Some("a.b.c"), rel: Some("a.b.c") },
        Sf { sf: "index.html", file: Some("index.html"), rel: Some("index.html") },
        Sf { sf: "badges/flat.svg", file: Some("badges/flat.svg"), rel: Some("badges/flat.svg") },
        Sf { sf: "coverage.json", file: Some("coverage.json"), rel: Some("coverage.json") },
        Sf { sf: "src/index.html", file: Some("src/index.html"), rel: Some("src/index.html") },
        Sf { sf: "src/index", file: Some("src/index"), rel: Some("src/index") },
        Sf { sf: "ü/ñ.c", file: Some("ü/ñ.c"), rel: Some("ü/ñ.c") },
        Sf { sf: long, file: Some(long), rel: Some(long) },
        Sf { sf: "..c", file: Some("..c"), rel: None },
        Sf { sf: "d/..x", file: Some("d/..x"), rel: None },
        Sf { sf: "../../outside.c", file: None, rel: None },
        Sf { sf: "a/../../../esc.c", file: None, rel: None },
        Sf { sf: "../bait/abs_src.c", file: None, rel: None },
        Sf { sf: "src\\bs.c", file: Some("src/bs.c"), rel: Some("src/bs.c") },
        Sf { sf: "..\\..\\bs_up.c", file: None, rel: None },
        Sf { sf: "gone/missing.c", file: None, rel: None },
    ];
    std::fs::write(case_dir.join("bait/abs_src.c"), "int z;\n").unwrap();
    let mut info = String::from("TN:\n");
    let mut sfs = vec![];
    let mut must: Vec<String> = vec![];
    let mut hostile = false;
    if let Some(f) = fixed {
        // a corpus case (corpus/C19/*.json, op dest.cli.corpus): a minimised past failure
        if let Some(m) = f["mapping"].as_str() {
            std::fs::write(case_dir.join("in/linked-files-map.json"), m).unwrap();
        }
        for name in f["files"].as_array().cloned().unwrap_or_default() {
            let p = case_dir.join("cwd").join(name.as_str().unwrap());
            std::fs::create_dir_all(p.parent().unwrap()).unwrap();
            std::fs::write(&p, "int pwn;\n").unwrap();
        }
        for sf in f["sf"].as_array().cloned().unwrap_or_default() {
            info.push_str(&format!("SF:{}\nDA:1,1\nend_of_record\n", sf.as_str().unwrap()));
            sfs.push(sf.as_str().unwrap().to_string());
        }
        hostile = true;
    } else {
        let k = rng.range(2, 7);
        let mut seen = BTreeSet::new();
        for _ in 0..k {
            let i = rng.below(pool.len() as u64) as usize;
            if !seen.insert(i) {
                continue;
            }
            let e = &pool[i];
            if let Some(f) = e.file {
                let p = case_dir.join("cwd").join(f);
                std::fs::create_dir_all(p.parent().unwrap()).unwrap();
                std::fs::write(&p, "int a;\nint b;\n").unwrap();
            }
            info.push_str(&format!("SF:{}\nDA:1,1\nDA:2,0\nend_of_record\n", e.sf));
            sfs.push(e.sf.to_string());
            if let Some(r) = e.rel {
                must.push(r.to_string());
            }
            if e.rel.map(|r| r != e.sf).unwrap_or(true) {
                hostile = true;
            }
        }
        if rng.chance(1, 3) {
            let abs = format!("{}/bait/abs_src.c", case_abs.display());
            info.push_str(&format!("SF:{}\nDA:1,1\nend_of_record\n", abs));
            sfs.push("<bait>/abs_src.c".into());
            hostile = true;
        }
    }
    std::fs::write(case_dir.join("in/a.info"), &info).unwrap();
    // output: a nested directory that does not exist yet (html creates it), or an existing one
    let out_rel: String = match fixed {
        Some(f) => f["out"].as_str().unwrap_or("o0/o1/o2/o3/html").to_string(),
        None => (if rng.chance(2, 3) { "o0/o1/o2/o3/html" } else { "o0/html" }).to_string(),
    };
    let out_rel = out_rel.as_str();
    let with_s = match fixed {
        Some(f) => f["source_dir"].as_bool().unwrap_or(false),
        None => rng.chance(4, 5),
    };
    let run = |ty: &str, out: &str, case_dir: &Path| {
        let mut extra: Vec<String> = vec!["-t".into(), ty.into(), "-o".into(), format!("../{}", out)];
        if with_s {
            extra.extend(["-s".to_string(), ".".to_string()]);
        }
        std::env::set_var("TMPDIR", case_abs.join("tmp"));
        let cfg = RunCfg { dir: &case_dir.join("cwd"), args: vec!["../in".into()], threads: 2, perturb: None, fault: None, limit: Duration::from_secs(60), extra };
        let o = run_grcov(&cfg);
        std::env::remove_var("TMPDIR");
        let _ = std::fs::remove_file(case_dir.join("cwd/events.log"));
        o
    };
    // the report's relative paths, from the binary itself
    let fo = run("files", "files.txt", &case_dir);
    let rels: Vec<String> = std::fs::read_to_string(case_dir.join("files.txt")).unwrap_or_default().lines().map(|l| l.to_string()).collect();
    let before = super::snapshot(&case_dir);
    let ho = run("html", out_rel, &case_dir);
    let after = super::snapshot(&case_dir);
    let (files, dirs, other) = created_files(&before, &after);
    let case = match fixed {
        Some(f) => {
            let mut v = f.clone();
            v["op"] = json!("dest.cli");
            v["rels"] = json!(rels);
            v["exit"] = json!([fo.exit, ho.exit]);
            v
        }
        None => json!({"op": "dest.cli", "sf": sfs, "out": out_rel, "source_dir": with_s, "rels": rels, "exit": [fo.exit, ho.exit]}),
    };
    rep.case(&format!("cli {:?} {} {}", sfs, out_rel, with_s), hostile);
    rep.count(&format!("cli.exit.{}", ho.exit.map(|c| c.to_string()).unwrap_or("timeout".into())));
    rep.count(if out_rel.contains("o1") { "cli.out_nested_missing" } else { "cli.out_parent_exists" });
    if c == 0 && !witness {
        rep.sample(case.clone());
    }
    // ---- oracle: confinement, independent of the model ----
    let mut bad: Vec<String> = other.clone();
    let allowed_dir = |p: &str| out_rel.starts_with(&format!("{}/", p)) || p == out_rel;
    for p in &dirs {
        if !(allowed_dir(p) || p.starts_with(&format!("{}/", out_rel))) && !(p.starts_with("tmp/") && ho.exit != Some(0)) {
            bad.push(format!("created dir: {}", p));
        }
    }
    for p in &files {
        if !p.starts_with(&format!("{}/", out_rel)) && !(p.starts_with("tmp/") && ho.exit != Some(0)) {
            bad.push(format!("created: {}", p));
        }
    }
    if ho.exit == Some(0) && after.keys().any(|p| p.starts_with("tmp/")) {
        bad.push("temp dir not removed after a normal exit".into());
    }
    if ho.exit.is_none() {
        bad.push("did not terminate".into());
    }
    if !bad.is_empty() {
        bad.truncate(8);
        let finding: Option<&str> = None;
        rep.fail("oracle", finding, format!("grcov -t html touched the file system outside the output directory: {:?}", bad), case.clone());
    }
    // ---- model: the set of created files ----
    let out_abs = case_abs.join(out_rel);
    let rep_arg: Vec<String> = rels.iter().map(|s| format!("{}:1", hex(s.as_bytes()))).collect();
    reqs.push(format!("confine.dest.run {} 1 {}", super::comps(out_abs.to_str().unwrap()), rep_arg.join(";")));
    let abs_files: BTreeSet<String> = files.iter().map(|p| segs_of(&case_abs.join(p))).collect();
    let must_pages: Vec<String> = if ho.exit == Some(0) {
        must.iter().map(|r| segs_of(&out_abs.join(add_html_ext_std(Path::new(r))))).collect()
    } else {
        vec![]
    };
    checks.push((case, case_abs, abs_files, must_pages));
}

fn stream_cli(rep: &mut Report, rng: &mut Rng) {
    let n = rep.budget(36, 5);
    let mut reqs = vec![];
    let mut checks = vec![];
    // corpus first: minimised past failures
    let mut corpus: Vec<PathBuf> = std::fs::read_dir("/verif/corpus/C19").map(|d| d.flatten().map(|e| e.path()).collect()).unwrap_or_default();
    corpus.sort();
    for (i, p) in corpus.iter().enumerate() {
        if let Some(v) = std::fs::read_to_string(p).ok().and_then(|t| serde_json::from_str::<serde_json::Value>(&t).ok()) {
            if v["op"] == "dest.cli.corpus" {
                rep.count("cli.corpus_case");
                cli_case(rep, rng, i as u64, Some(&v), &mut reqs, &mut checks);
            }
        }
    }
    for c in 0..n {
        cli_case(rep, rng, c, None, &mut reqs, &mut checks);
    }
    let ans = run_model(&reqs, &rep.workdir, "dest_cli");
    for (i, (case, _root, files, must)) in checks.iter().enumerate() {
        let paths = ans[i].rsplit_once(" dups=").map(|x| x.0).unwrap_or("");
        if ans[i].contains(" dups=") && !ans[i].ends_with(" dups=0") {
            rep.count("cli.collision_predicted");
        }
        let model: BTreeSet<String> = paths.split(';').filter(|s| !s.is_empty()).map(|s| s.to_string()).collect();
        let extra: Vec<&String> = files.iter().filter(|f| !model.contains(*f)).collect();
        let missing: Vec<&String> = must.iter().filter(|m| !files.contains(*m) || !model.contains(*m)).collect();
        if !extra.is_empty() || !missing.is_empty() {
            rep.disagreements_checked += 1;
            rep.fail(
                "disagreement",
                None,
                format!("files created by `grcov -t html` differ from Confine.dests of the reported paths: not predicted {:?}, expected page absent {:?}", extra, missing),
                json!({"op": "dest.cli", "case": case, "request": reqs[i]}),
            );
        }
    }
}

/// `-t lcov|covdir|files -o <path>`: a file in a missing nested directory (nothing is created, the
/// run fails), an existing directory (`<dir>/<fixed name>`), a plain file
fn stream_outfile(rep: &mut Report, rng: &mut Rng) {
    let n = rep.budget(18, 4);
    let mut reqs = vec![];
    let mut want = vec![];
    let mut cases = vec![];
    for c in 0..n {
        let case_dir = rep.workdir.join(format!("destC{}", c));
        let _ = std::fs::remove_dir_all(&case_dir);
        for d in ["in", "tmp", "cwd", "o0/existing"] {
            std::fs::create_dir_all(case_dir.join(d)).unwrap();
        }
        let case_abs = std::fs::canonicalize(&case_dir).unwrap();
        std::fs::write(case_dir.join("in/a.info"), "TN:\nSF:src/a.c\nDA:1,1\nend_of_record\nSF:../../up.c\nDA:1,1\nend_of_record\n").unwrap();
        let (ty, fixed) = *rng.pick(&[("lcov", "lcov"), ("covdir", "covdir"), ("files", "files"), ("markdown", "markdown.md"), ("cobertura", "cobertura.xml"), ("ade", "activedata"), ("coveralls+", "coveralls+")]);
        let (out_rel, mode) = *rng.pick(&[("o0/some/nested/new/dir/file", "missing_parent"), ("o0/existing", "is_dir"), ("o0/existing/report.out", "file"), ("o0/existing/../existing/r2", "dotdot_file")]);
        // the user's own files named after the output (C19-5): beside a file output, and inside + beside a directory output
        match mode {
            "file" | "dotdot_file" => super::plant_beside_output(&case_dir.join("o0/existing"), out_rel.rsplit('/').next().unwrap()),
            "is_dir" => {
                super::plant_beside_output(&case_dir.join("o0/existing"), fixed);
                super::plant_beside_output(&case_dir.join("o0"), "existing");
            }
            _ => {}
        }
        let before = super::snapshot(&case_dir);
        std::env::set_var("TMPDIR", case_abs.join("tmp"));
        let mut extra: Vec<String> = vec!["-t".into(), ty.into(), "-o".into(), format!("../{}", out_rel)];
        if ty.starts_with("coveralls") {
            extra.extend(["--token".to_string(), "t".to_string(), "--commit-sha".into(), "c".into()]);
        }
        let cfg = RunCfg { dir: &case_dir.join("cwd"), args: vec!["../in".into()], threads: 1, perturb: None, fault: None, limit: Duration::from_secs(60), extra };
        let o = run_grcov(&cfg);
        std::env::remove_var("TMPDIR");
        let _ = std::fs::remove_file(case_dir.join("cwd/events.log"));
        let after = super::snapshot(&case_dir);
        let (files, dirs, other) = created_files(&before, &after);
        let case = json!({"op": "dest.outfile", "type": ty, "out": out_rel, "exit": o.exit});
        rep.case(&format!("outfile {} {}", ty, out_rel), mode != "file");
        rep.count(&format!("outfile.{}", mode));
        // oracle
        let tmp_left: Vec<&String> = files.iter().chain(dirs.iter()).filter(|p| p.starts_with("tmp/")).collect();
        let created: Vec<&String> = files.iter().chain(dirs.iter()).filter(|p| !p.starts_with("tmp/")).collect();
        let mut bad = other.clone();
        if mode == "missing_parent" {
            if !created.is_empty() {
                bad.push(format!("created although the parent directory is missing: {:?}", created));
            }
            if o.exit == Some(0) {
                bad.push("exit 0 although the report could not be written".into());
            }
        } else if o.exit == Some(0) && !tmp_left.is_empty() {
            bad.push("temp dir not removed after a normal exit".into());
        }
        if !dirs.iter().all(|d| d.starts_with("tmp/")) {
            bad.push(format!("directories created: {:?}", dirs));
        }
        if !bad.is_empty() {
            rep.fail("oracle", None, format!("-t {} -o {}: {:?}", ty, out_rel, bad), case.clone());
        }
        // model: the one file
        let is_dir = mode == "is_dir";
        reqs.push(format!("confine.dest.outfile {} {} {}", super::comps(case_abs.join(out_rel).to_str().unwrap()), if is_dir { 1 } else { 0 }, hex(fixed.as_bytes())));
        let got: BTreeSet<String> = created.iter().map(|p| segs_of(&case_abs.join(p))).collect();
        want.push((got, mode));
        cases.push(case);
    }
    let ans = run_model(&reqs, &rep.workdir, "dest_outfile");
    for i in 0..reqs.len() {
        let (got, mode) = &want[i];
        let expect: BTreeSet<String> = if *mode == "missing_parent" { BTreeSet::new() } else { [ans[i].clone()].into_iter().collect() };
        if *got != expect {
            rep.disagreements_checked += 1;
            rep.fail("disagreement", None, format!("report file: created {:?}, model {:?}", got, expect), json!({"op": "dest.outfile", "case": cases[i], "request": reqs[i]}));
        }
    }
}

pub fn run(rep: &mut Report) {
    rep.rule.push_str(
        "; part Dest: hostile path strings against std::path (ext), hand-made html reports with hostile relative \
         paths through the real output_html in a sandbox (created files = Confine.dests), CLI html runs on lcov \
         inputs with hostile SF paths over a generated source tree into nested missing output directories \
         (snapshot oracle + created files predicted), report files into missing/existing directories; \
         non-trivial = the case contains a path that is not a clean relative path",
    );
    let mut rng = Rng::new(rep.seed ^ 0xC19D);
    stream_ext(rep, &mut rng);
    stream_html(rep, &mut rng);
    stream_cli(rep, &mut rng);
    stream_outfile(rep, &mut rng);
    stream_llvm(rep, &mut rng);
}

pub fn replay(rep: &mut Report, case: &serde_json::Value) {
    rep.notes.push(format!(
        "part Dest replays: the case names its stream ({}); re-run ./check C19 with the same seed — the paths are in the replay file",
        case["op"].as_str().unwrap_or("?")
    ));
    // a corpus case carries everything needed: run it again
    if case["mapping"].is_string() || case["files"].is_array() {
        let mut rng = Rng::new(rep.seed ^ 0xC19D);
        let mut reqs = vec![];
        let mut checks = vec![];
        cli_case(rep, &mut rng, 0, Some(case), &mut reqs, &mut checks);
    }
}

const PROFDATA_STUB: &str = r#"#!/bin/sh
# recording stand-in for llvm-profdata: logs argv (with the -o path) and the content of every
# profile listed on stdin, then writes the merged profile where it is told to
out=""
prev=""
for a in "$@"; do
  if [ "$prev" = "-o" ]; then out="$a"; fi
  prev="$a"
done
{
  printf 'OUT %s\n' "$out"
  while IFS= read -r line; do
    # since fix 4f2eb74 an entry is `<weight>,<path>` (the tool splits at the FIRST comma)
    case "$line" in
      [0-9]*,*) line="${line#*,}" ;;
    esac
    if [ -f "$line" ]; then printf 'PROFILE %s\n' "$(cat "$line")"; else printf 'PROFILE missing:%s\n' "$line"; fi
  done
  printf 'END\n'
} >> "$STUB_LOG.$$"
cat "$STUB_LOG.$$" >> "$STUB_LOG"; rm -f "$STUB_LOG.$$"
echo merged > "$out"
exit 0
"#;

const COV_STUB: &str = r#"#!/bin/sh
# recording stand-in for llvm-cov: `export <binary> --instr-profile <p> --format lcov`
printf 'COV %s %s\n' "$(basename "$2")" "$4" >> "$STUB_LOG"
if [ -f "$4" ]; then :; else printf 'COVMISSING %s\n' "$4" >> "$STUB_LOG"; fi
cat "$2.lcov"
exit 0
"#;

fn write_exec(path: &Path, text: &str) {
    std::fs::write(path, text).unwrap();
    use std::os::unix::fs::PermissionsExt;
    std::fs::set_permissions(path, std::fs::Permissions::from_mode(0o755)).unwrap();
}

/// Source-based (LLVM) path with profiles given as PLAIN FILE ARGUMENTS (exactly one `.profdata`,
/// one `.profraw`, several of each), inside a directory, inside a zip: snapshots of every input
/// and of the temp dir around a CLI run with recording stub tools; the `-o` path handed to
/// llvm-profdata is compared with `profdataPath (workerDir tmp i)` of the model.
fn stream_llvm(rep: &mut Report, rng: &mut Rng) {
    let n = rep.budget(30, 5);
    let stubs = rep.workdir.join("dest_stubs");
    std::fs::create_dir_all(&stubs).unwrap();
    write_exec(&stubs.join("llvm-profdata"), PROFDATA_STUB);
    write_exec(&stubs.join("llvm-cov"), COV_STUB);
    let mut reqs = vec![];
    let mut want = vec![];
    let mut cases = vec![];
    for c in 0..n {
        let case_dir = rep.workdir.join(format!("destL{}", c));
        let _ = std::fs::remove_dir_all(&case_dir);
        for d in ["in", "tmp", "cwd", "out", "bins", "log"] {
            std::fs::create_dir_all(case_dir.join(d)).unwrap();
        }
        let case_abs = std::fs::canonicalize(&case_dir).unwrap();
        let layout = match c % 7 {
            0 => "one_plain_profdata",
            1 => "one_plain_profraw",
            2 => "several_plain",
            3 => "directory",
            4 => "zip",
            5 => "one_plain_profdata_relative_dotdot",
            _ => "mixed",
        };
        let mut args: Vec<String> = vec![];
        let mut ids: Vec<String> = vec![];
        let next = |ids: &mut Vec<String>| {
            let id = format!("profile-{}-{}", c, ids.len());
            ids.push(id.clone());
            id
        };
        let mut zip_entries: Vec<(String, String)> = vec![];
        let put_plain = |name: &str, ids: &mut Vec<String>, args: &mut Vec<String>, via: &str| {
            let id = next(ids);
            std::fs::write(case_dir.join("in").join(name), &id).unwrap();
            args.push(format!("{}{}", via, name));
        };
        match layout {
            "one_plain_profdata" => put_plain("app.profdata", &mut ids, &mut args, "../in/"),
            "one_plain_profraw" => put_plain("default.profraw", &mut ids, &mut args, "../in/"),
            "one_plain_profdata_relative_dotdot" => put_plain("app.profdata", &mut ids, &mut args, "../cwd/../in/./"),
            "several_plain" => {
                for i in 0..rng.range(2, 4) {
                    put_plain(&format!("p{}.profdata", i), &mut ids, &mut args, "../in/");
                }
                for i in 0..rng.range(1, 3) {
                    let via = format!("{}/in/", case_abs.display());
                    put_plain(&format!("r{}.profraw", i), &mut ids, &mut args, &via);
                }
            }
            "directory" => {
                std::fs::create_dir_all(case_dir.join("in/d/svc")).unwrap();
                let only_one = rng.chance(1, 2);
                for (i, name) in ["d/app.profdata", "d/svc/default.profraw", "d/svc/other.profdata"].iter().enumerate() {
                    if only_one && i > 0 {
                        break;
                    }
                    let id = next(&mut ids);
                    std::fs::write(case_dir.join("in").join(name), &id).unwrap();
                }
                args.push("../in/d".into());
            }
            "zip" => {
                let only_one = rng.chance(1, 2);
                for (i, name) in ["app.profdata", "z/default.profraw", "z/default.profdata"].iter().enumerate() {
                    if only_one && i > 0 {
                        break;
                    }
                    zip_entries.push((name.to_string(), next(&mut ids)));
                }
            }
            _ => {
                put_plain("app.profdata", &mut ids, &mut args, "../in/");
                std::fs::create_dir_all(case_dir.join("in/d")).unwrap();
                let id = next(&mut ids);
                std::fs::write(case_dir.join("in/d/app.profdata"), &id).unwrap();
                args.push("../in/d".into());
                zip_entries.push(("app.profdata".into(), next(&mut ids)));
            }
        }
        if !zip_entries.is_empty() {
            let f = std::fs::File::create(case_dir.join("in/profiles.zip")).unwrap();
            let mut z = zip::ZipWriter::new(f);
            let o = zip::write::SimpleFileOptions::default().compression_method(zip::CompressionMethod::Stored);
            for (name, id) in &zip_entries {
                use std::io::Write;
                z.start_file(name.as_str(), o).unwrap();
                z.write_all(id.as_bytes()).unwrap();
            }
            z.finish().unwrap();
            args.push("../in/profiles.zip".into());
        }
        // one binary with a canned export
        let mut elf = vec![0x7f, b'E', b'L', b'F', 2, 1, 1, 0];
        elf.extend_from_slice(&[0u8; 200]);
        std::fs::write(case_dir.join("bins/app"), &elf).unwrap();
        std::fs::write(case_dir.join("bins/app.lcov"), "SF:src/a.rs\nDA:1,1\nend_of_record\n").unwrap();
        let threads = *rng.pick(&[1usize, 2, 3]);
        let log = case_abs.join("log/stub.log");
        std::env::set_var("STUB_LOG", &log);
        std::env::set_var("TMPDIR", case_abs.join("tmp"));
        let before = super::snapshot(&case_dir);
        let out = run_grcov(&RunCfg {
            dir: &case_dir.join("cwd"),
            args: args.clone(),
            threads,
            perturb: None,
            fault: None,
            limit: Duration::from_secs(60),
            extra: vec!["-t".into(), "lcov".into(), "-o".into(), "../out/r.info".into(), "--binary-path".into(), "../bins".into(),
                "--llvm-path".into(), stubs.to_str().unwrap().into()],
        });
        std::env::remove_var("TMPDIR");
        std::env::remove_var("STUB_LOG");
        let _ = std::fs::remove_file(case_dir.join("cwd/events.log"));
        let after = super::snapshot(&case_dir);
        let case = json!({"op": "dest.llvm", "layout": layout, "args": args, "profiles": ids, "threads": threads, "exit": out.exit});
        rep.case(&format!("llvm {} {:?} {}", layout, args, threads), true);
        rep.count(&format!("llvm.layout.{}", layout));
        if c == 0 {
            rep.sample(case.clone());
        }
        // ---- oracle: every input byte for byte and entry for entry as before; nothing outside out/; temp dir empty
        let mut bad = vec![];
        for (p, v) in &before {
            match after.get(p) {
                None => bad.push(format!("deleted: {}", p)),
                Some(a) if a != v => bad.push(format!("modified: {}", p)),
                _ => {}
            }
        }
        for p in after.keys() {
            if !before.contains_key(p) && !(p == "out/r.info" || p.starts_with("log/")) && !(p.starts_with("tmp/") && out.exit != Some(0)) {
                bad.push(format!("created: {}", p));
            }
        }
        if out.exit != Some(0) {
            bad.push(format!("exit {:?}: {}", out.exit, out.stderr.lines().last().unwrap_or("")));
        }
        let logtext = std::fs::read_to_string(&log).unwrap_or_default();
        let mut seen: Vec<String> = logtext.lines().filter_map(|l| l.strip_prefix("PROFILE ")).map(|s| s.to_string()).collect();
        seen.sort();
        let mut want_ids = ids.clone();
        want_ids.sort();
        if seen != want_ids {
            bad.push(format!("profiles read by the merge tool {:?}, expected {:?}", seen, want_ids));
        }
        if logtext.lines().any(|l| l.starts_with("COVMISSING")) {
            bad.push("llvm-cov was given a merged profile that does not exist".into());
        }
        if !bad.is_empty() {
            bad.truncate(8);
            rep.fail("oracle", None, format!("LLVM path with {}: {:?}", layout, bad), case.clone());
        }
        // ---- model: the -o path is <tmp dir>/<worker>/grcov.profdata
        for l in logtext.lines().filter_map(|l| l.strip_prefix("OUT ")) {
            let p = Path::new(l);
            let wd = p.parent().unwrap_or(Path::new("/"));
            let tmpd = wd.parent().unwrap_or(Path::new("/"));
            let worker = wd.file_name().and_then(|n| n.to_str()).and_then(|n| n.parse::<usize>().ok());
            let in_tmp = tmpd.parent() == Some(case_abs.join("tmp").as_path());
            match worker {
                Some(w) if w < threads && in_tmp => {
                    reqs.push(format!("confine.dest.profdata {} {}", super::comps(tmpd.to_str().unwrap()), w));
                    want.push(segs_of(p));
                    cases.push(case.clone());
                    rep.count("llvm.merge_invocation");
                }
                _ => rep.fail("oracle", None, format!("llvm-profdata -o {} is not <temp dir>/<worker index>/…", l), case.clone()),
            }
        }
    }
    let ans = run_model(&reqs, &rep.workdir, "dest_llvm");
    for i in 0..reqs.len() {
        if ans[i] != want[i] {
            rep.disagreements_checked += 1;
            rep.fail("disagreement", None, format!("merged profile path: impl {} model {}", want[i], ans[i]), json!({"op": "dest.llvm", "case": cases[i], "request": reqs[i]}));
        }
    }
}
