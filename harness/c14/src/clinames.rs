//! C14, part CliNames (review 2, item 10) — the real BINARY on inputs whose names are not UTF-8.
//!
//! Before /repo 7f9b2b3 a gcno (or a gcov text report) whose file or function name is not valid
//! UTF-8 came out of the readers as an invalid `String` and `rewrite_paths` panicked: the whole run
//! died (exit 101, no report) and the valid inputs beside it were lost. C14 observed `Gcno::compute`
//! at library level only. This stream runs `grcov <dir> --llvm -t lcov -o <file>` on directories that
//! hold LLVM gcno/gcda pairs with arbitrary name bytes NEXT TO a control pair: the run must end with
//! exit code 0, the report must be a readable tracefile, and it must contain the control's record
//! exactly as the run on the control alone reports it. The witness of the review is corpus case
//! corpus/C14/cli-nonutf8-names.json. The gcov TEXT reader has no CLI entry of its own (the binary
//! only meets gcov text behind a gcov tool): `parse_gcov` → `rewrite_paths` → `output_lcov` run
//! in-process on reports with non-UTF-8 `file:` / `function:` names next to a valid section.
use corrlib::*;
use serde_json::{json, Value};
use std::path::{Path, PathBuf};
use std::process::Command;

fn u32le(x: u32) -> Vec<u8> {
    x.to_le_bytes().to_vec()
}
/// gcov string: length in words, bytes, zero padding (at least one zero byte)
fn gstr(b: &[u8]) -> Vec<u8> {
    let n = b.len() / 4 + 1;
    let mut o = u32le(n as u32);
    o.extend_from_slice(b);
    o.extend(std::iter::repeat(0u8).take(4 * n - b.len()));
    o
}
/// one function `name` in `file`: entry -> block 2 (lines 10, 11) -> block 3 (line 12) -> exit
fn gcno(file: &[u8], name: &[u8]) -> Vec<u8> {
    let mut o = b"oncg*804".to_vec();
    o.extend(u32le(7));
    let mut pay = [u32le(1), u32le(11), u32le(22)].concat();
    pay.extend(gstr(name));
    pay.extend(gstr(file));
    pay.extend(u32le(10));
    o.extend(u32le(0x0100_0000));
    o.extend(u32le(pay.len() as u32 / 4));
    o.extend(pay);
    o.extend(u32le(0x0141_0000));
    o.extend(u32le(4));
    o.extend([0u8; 16]);
    for (src, dst, fl) in [(0u32, 2u32, 1u32), (2, 3, 0), (3, 1, 1)] {
        o.extend(u32le(0x0143_0000));
        o.extend(u32le(3));
        o.extend(u32le(src));
        o.extend(u32le(dst));
        o.extend(u32le(fl));
    }
    for (blk, lines) in [(2u32, vec![10u32, 11]), (3, vec![12])] {
        let mut pay = [u32le(blk), u32le(0)].concat();
        pay.extend(gstr(file));
        for l in lines {
            pay.extend(u32le(l));
        }
        pay.extend([0u8; 8]);
        o.extend(u32le(0x0145_0000));
        o.extend(u32le(pay.len() as u32 / 4));
        o.extend(pay);
    }
    o.extend([0u8; 8]);
    o
}
fn gcda(count: u64) -> Vec<u8> {
    let mut o = b"adcg*804".to_vec();
    o.extend(u32le(7));
    o.extend([u32le(0x0100_0000), u32le(3), u32le(1), u32le(11), u32le(22)].concat());
    o.extend(u32le(0x01a1_0000));
    o.extend(u32le(2));
    o.extend(count.to_le_bytes());
    o.extend([0u8; 8]);
    o
}

fn ensure_binary() -> Result<PathBuf, String> {
    let out = Command::new("cargo")
        .args(["build", "--offline", "--manifest-path", "/repo/Cargo.toml", "--bin", "grcov", "--target-dir", "/verif/harness/target-grcov"])
        .env("RUSTFLAGS", "--cfg mozilla_grcov_verif")
        .env("CARGO_NET_OFFLINE", "true")
        .output()
        .map_err(|e| format!("cargo cannot be started: {}", e))?;
    if out.status.success() {
        Ok(PathBuf::from("/verif/harness/target-grcov/debug/grcov"))
    } else {
        Err(String::from_utf8_lossy(&out.stderr).chars().rev().take(1200).collect::<String>().chars().rev().collect())
    }
}

/// run the binary on a directory; (exit code or -1 for a signal / timeout, report bytes, stderr tail)
fn run_cli(bin: &Path, dir: &Path, out: &Path, threads: u32) -> (i32, Vec<u8>, String) {
    let _ = std::fs::remove_file(out);
    let mut child = Command::new(bin)
        .arg(dir)
        .args(["--llvm", "-t", "lcov", "--threads", &threads.to_string(), "-o"])
        .arg(out)
        .stdout(std::process::Stdio::null())
        .stderr(std::process::Stdio::piped())
        .spawn()
        .expect("cannot start grcov");
    let t0 = std::time::Instant::now();
    let code = loop {
        match child.try_wait() {
            Ok(Some(st)) => break st.code().unwrap_or(-1),
            Ok(None) if t0.elapsed().as_secs() > 60 => {
                let _ = child.kill();
                let _ = child.wait();
                break -1;
            }
            Ok(None) => std::thread::sleep(std::time::Duration::from_millis(5)),
            Err(_) => break -1,
        }
    };
    let mut err = String::new();
    if let Some(mut e) = child.stderr.take() {
        use std::io::Read;
        let _ = e.read_to_string(&mut err);
    }
    (code, std::fs::read(out).unwrap_or_default(), err.chars().rev().take(400).collect::<String>().chars().rev().collect())
}

/// the record of the file whose SF line ends with `name`: its lines up to end_of_record, sorted
fn record_of(report: &[u8], name: &str) -> Option<Vec<String>> {
    let t = String::from_utf8_lossy(report);
    let mut cur: Option<Vec<String>> = None;
    for l in t.lines() {
        if let Some(f) = l.strip_prefix("SF:") {
            // the control's own file: the path is `name` itself or ends with `/name` (a generated name such
            // as `src/psr\u{fffd}ok.c` merely ends with the same letters)
            cur = if f == name || f.ends_with(&format!("/{}", name)) { Some(vec![]) } else { None };
        } else if l == "end_of_record" {
            if let Some(mut v) = cur.take() {
                v.sort();
                return Some(v);
            }
        } else if let Some(v) = cur.as_mut() {
            v.push(l.to_string());
        }
    }
    None
}

struct Dir {
    what: String,
    /// (file name on disk, bytes)
    files: Vec<(String, Vec<u8>)>,
    control: String,
    /// file stem of the control pair on disk (`zz` for generated directories, `t3` in the corpus witness)
    control_stem: String,
}

fn judge(rep: &mut Report, bin: &Path, d: &Dir, tag: &str) {
    let root = rep.workdir.join(format!("clinames.{}", tag));
    let _ = std::fs::remove_dir_all(&root);
    let (mixed, alone) = (root.join("mixed"), root.join("alone"));
    std::fs::create_dir_all(&mixed).unwrap();
    std::fs::create_dir_all(&alone).unwrap();
    let stem = d.control_stem.clone();
    for (n, b) in &d.files {
        std::fs::write(mixed.join(n), b).unwrap();
        if n.trim_end_matches(".gcno").trim_end_matches(".gcda") == stem {
            std::fs::write(alone.join(n), b).unwrap();
        }
    }
    let case = json!({"op": "clinames.case", "what": d.what, "control": d.control, "control_stem": d.control_stem,
        "files": d.files.iter().map(|(n, b)| json!({"name": n, "hex": hex(b)})).collect::<Vec<_>>()});
    let (c0, r0, e0) = run_cli(bin, &alone, &root.join("alone.lcov"), 1);
    let want = record_of(&r0, &d.control);
    rep.case(&format!("clinames {} {}", d.what, d.files.iter().map(|f| hex(&f.1)).collect::<Vec<_>>().join(" ")), true);
    if c0 != 0 || want.as_ref().map(|w| w.is_empty()).unwrap_or(true) {
        rep.fail("oracle", None, format!("clinames: the control pair alone is not reported ({}): exit {}, {}", d.what, c0, e0), case);
        return;
    }
    for threads in [1u32, 2] {
        let (c, r, e) = run_cli(bin, &mixed, &root.join("mixed.lcov"), threads);
        rep.count(&format!("clinames.exit.{}", c));
        if c != 0 {
            rep.fail("oracle", None, format!("clinames: the run on inputs with non-UTF-8 names next to a valid input did not end normally ({}; {} threads): exit {}, {}", d.what, threads, c, e), case.clone());
            return;
        }
        let b = r.clone();
        let readable = matches!(guarded(move || grcov::parse_lcov(b, true)), Ok(Ok(_)));
        if !readable {
            rep.fail("oracle", None, format!("clinames: the report of the run is not a readable tracefile ({})", d.what), case.clone());
            return;
        }
        if record_of(&r, &d.control) != want {
            rep.fail("oracle", None, format!("clinames: the valid input's coverage is not reported as the run on it alone reports it ({}): {:?} instead of {:?}", d.what, record_of(&r, &d.control), want), case.clone());
            return;
        }
        // every input got a record (names decoded lossily, none dropped)
        let records = String::from_utf8_lossy(&r).lines().filter(|l| *l == "end_of_record").count();
        let pairs = d.files.iter().filter(|f| f.0.ends_with(".gcno")).count();
        if records > pairs || records == 0 {
            rep.fail("oracle", None, format!("clinames: {} records for {} gcno files ({})", records, pairs, d.what), case.clone());
            return;
        }
        rep.count("clinames.ok");
    }
    let _ = std::fs::remove_dir_all(&root);
}

fn corpus_dirs() -> Vec<Dir> {
    let mut v = vec![];
    let mut files: Vec<PathBuf> = std::fs::read_dir("/verif/corpus/C14").map(|rd| rd.flatten().map(|e| e.path()).collect()).unwrap_or_default();
    files.sort();
    for p in files {
        let Some(j) = std::fs::read_to_string(&p).ok().and_then(|t| serde_json::from_str::<Value>(&t).ok()) else { continue };
        if j["case"]["op"] == "clinames.corpus" {
            v.push(dir_of(&j["case"]));
        }
    }
    v
}

fn dir_of(case: &Value) -> Dir {
    Dir {
        what: case["what"].as_str().unwrap_or("corpus").to_string(),
        control: case["control"].as_str().unwrap_or("ok.c").to_string(),
        control_stem: case["control_stem"].as_str().unwrap_or("zz").to_string(),
        files: case["files"].as_array().map(|a| a.iter().map(|f| (f["name"].as_str().unwrap_or("x").to_string(), unhex(f["hex"].as_str().unwrap_or("")))).collect()).unwrap_or_default(),
    }
}

fn bad_name(rng: &mut Rng) -> Vec<u8> {
    let mut v: Vec<u8> = (0..rng.range(1, 9)).map(|_| b'a' + rng.below(26) as u8).collect();
    for _ in 0..rng.range(1, 4) {
        let i = rng.below(v.len() as u64 + 1) as usize;
        let b = *rng.pick(&[0x80u8, 0xBF, 0xC0, 0xC3, 0xE9, 0xED, 0xF0, 0xF5, 0xFE, 0xFF]);
        v.insert(i, b);
    }
    if rng.chance(1, 2) {
        v.extend_from_slice(b".c");
    }
    if rng.chance(1, 4) {
        let mut d = b"src/".to_vec();
        d.extend(v);
        v = d;
    }
    v
}

fn gcov_text(rep: &mut Report, rng: &mut Rng) {
    // in-process: parse_gcov -> rewrite_paths -> output_lcov on a report with a non-UTF-8 name next to a valid section
    for k in 0..rep.budget(12, 8) {
        let mut t = b"file:".to_vec();
        t.extend(bad_name(rng));
        t.extend_from_slice(b"\nfunction:1,1,");
        t.extend(bad_name(rng));
        t.extend_from_slice(b"\nlcount:1,1\nfile:ok.c\nfunction:3,1,main\nlcount:3,7\nlcount:4,0\n");
        if k == 0 {
            t = b"file:src/caf\xe9.c\nlcount:1,1\nfile:ok.c\nfunction:3,1,main\nlcount:3,7\nlcount:4,0\n".to_vec();
        }
        let p = rep.workdir.join("clinames.gcov");
        std::fs::write(&p, &t).unwrap();
        let out = rep.workdir.join("clinames.gcov.lcov");
        let (p2, out2) = (p.clone(), out.clone());
        let r = guarded(move || {
            let rs = grcov::parse_gcov(&p2)?;
            let mut m: grcov::CovResultMap = Default::default();
            for (n, c) in rs {
                m.insert(n, c);
            }
            let empty: [&str; 0] = [];
            let v = grcov::rewrite_paths(m, None, None, None, false, &empty, &empty, None, Default::default());
            grcov::output_lcov(&v, Some(&out2), false);
            Ok::<usize, grcov::ParserError>(v.len())
        });
        rep.case(&format!("clinames gcov {}", hex(&t)), true);
        let case = json!({"op": "clinames.gcov", "text_hex": hex(&t)});
        match r {
            Ok(Ok(2)) => {
                let rec = record_of(&std::fs::read(&out).unwrap_or_default(), "ok.c");
                let mut want = vec!["DA:3,7".to_string(), "DA:4,0".to_string(), "FN:3,main".to_string(), "FNDA:1,main".to_string(), "FNF:1".to_string(), "FNH:1".to_string(), "LF:2".to_string(), "LH:1".to_string()];
                want.sort();
                let got: Option<Vec<String>> = rec.map(|v| v.into_iter().filter(|l| !l.starts_with("BRF") && !l.starts_with("BRH")).collect());
                if got.as_ref() != Some(&want) {
                    rep.fail("oracle", None, format!("clinames: the valid section of a gcov text report with a non-UTF-8 name beside it is not reported: {:?}", got), case);
                } else {
                    rep.count("clinames.gcov.ok");
                }
            }
            other => rep.fail("oracle", None, format!("clinames: parse_gcov / rewrite_paths / output_lcov on a gcov text report with a non-UTF-8 name: {:?}", other.map(|x| x.map_err(|_| "error"))), case),
        }
    }
}

pub fn run(rep: &mut Report) {
    rep.rule.push_str("; clinames: the real binary on directories of LLVM gcno/gcda pairs with non-UTF-8 file and function names next to a control pair (exit 0, readable report, the control's record as on its own), and parse_gcov -> rewrite_paths -> output_lcov on gcov text with such names");
    let mut rng = Rng::new(rep.seed ^ 0xC14_C11);
    gcov_text(rep, &mut rng);
    let bin = match ensure_binary() {
        Ok(b) => b,
        Err(e) => {
            rep.notes.push(format!("clinames: CLI runs skipped, /repo's grcov binary does not build with the hooks on: {}", e));
            rep.count("clinames.binary_missing");
            return;
        }
    };
    for (i, d) in corpus_dirs().iter().enumerate() {
        rep.count("clinames.corpus.cases");
        judge(rep, &bin, d, &format!("corpus{}", i));
    }
    for k in 0..rep.budget(6, 10) {
        let mut files = vec![];
        let n = rng.range(1, 4);
        for i in 0..n {
            let (f, g) = (bad_name(&mut rng), bad_name(&mut rng));
            files.push((format!("t{}.gcno", i), gcno(&f, &g)));
            files.push((format!("t{}.gcda", i), gcda(1 + rng.below(9))));
        }
        let fname = if rng.chance(1, 2) { bad_name(&mut rng) } else { b"main".to_vec() };
        files.push(("zz.gcno".into(), gcno(b"ok.c", &fname)));
        files.push(("zz.gcda".into(), gcda(3)));
        judge(rep, &bin, &Dir { what: format!("{} generated pairs with non-UTF-8 names and the control", n), files, control: "ok.c".into(), control_stem: "zz".into() }, &format!("gen{}", k));
    }
}

pub fn replay(rep: &mut Report, case: &Value) {
    if case["op"] == "clinames.gcov" {
        let mut rng = Rng::new(rep.seed ^ 0xC14_C11);
        return gcov_text(rep, &mut rng);
    }
    match ensure_binary() {
        Ok(bin) => judge(rep, &bin, &dir_of(case), "replay"),
        Err(e) => rep.fail("oracle", None, format!("clinames replay: no binary: {}", e), case.clone()),
    }
}
