//! C14, part TextCost — "in time and memory bounded by a modest multiple of the input size" for the
//! TEXT readers (parse_lcov, parse_gcov, parse_gcov_gz, parse_jacoco_xml_report).
//!
//! Every case runs the REAL reader in a child process (address-space limit 2 GiB, wall-clock limit)
//! which reports the outcome class, the SIZE of the result (files, map entries, Vec<bool> slots,
//! name bytes, largest count, longest vector) and the time of the call. The same input goes to the
//! Lean cost view (`c14.text.*` ops of gmodel) which answers with the same sizes plus its cost
//! counters. Compared: outcome class and every size, exactly. Independent oracles (no model):
//! the linear bounds of Props/C14Text.lean restated on the real output, and a coarse time oracle
//! (nanoseconds per byte against the median of ordinary documents of the same reader).
//! Streams: tie (generated documents, truncations, byte mutations, adversarial shapes of moderate
//! size) and scale (large adversarial shapes, real code only: sizes + time).
use corrlib::*;
use grcov::{parse_gcov, parse_gcov_gz, parse_jacoco_xml_report, parse_lcov, CovResult};
use serde_json::{json, Value};
use std::collections::BTreeMap;
use std::io::{BufReader, Cursor, Read, Write};
use std::path::PathBuf;
use std::process::Command;

/// user + system CPU time consumed by this process (all its threads), in microseconds
fn thread_cpu_micros() -> u128 {
    let mut ts = libc::timespec { tv_sec: 0, tv_nsec: 0 };
    unsafe { libc::clock_gettime(libc::CLOCK_PROCESS_CPUTIME_ID, &mut ts) };
    ts.tv_sec as u128 * 1_000_000 + ts.tv_nsec as u128 / 1000
}

const KINDS: [&str; 4] = ["lcov", "gcov", "gcovjson", "jacoco"];

#[derive(Clone, Default)]
struct Meta {
    /// Σ (branch number + 1) over the BRDA records / Σ (cb + mb) over the <line> elements the
    /// generator wrote; `None` when the bytes were mutated afterwards
    slot_budget: Option<u64>,
    /// largest branch number written
    max_no: Option<u64>,
    /// largest number of attributes of one element (JaCoCo)
    max_attrs: u64,
    /// JSON: nesting depth of the document
    depth: u64,
    /// the input repeats a line number / demangled name (gcov JSON) or an attribute name (JaCoCo):
    /// counted, so that the evidence shows these shapes are generated and tied
    repeats: bool,
}

#[derive(Clone)]
struct Case {
    kind: &'static str,
    what: String,
    /// what the real reader gets (gcovjson: the JSON text; it is gzip-compressed for the child)
    data: Vec<u8>,
    /// request for the Lean driver; empty = real code only (scale stream)
    model: String,
    meta: Meta,
    adversarial: bool,
}

#[derive(Clone, Default, Debug)]
struct Obs {
    outcome: String, // ok | err Kind | panic … | timeout | crash
    sizes: BTreeMap<String, u64>,
    micros: u64,
}

// ------------------------------------------------------------------------------------------------
// sizes of a real result

fn sizes_of(v: &[(String, CovResult)]) -> String {
    let files = v.len();
    let mut entries = 0usize;
    let mut slots = 0usize;
    let mut names = 0usize;
    let mut maxcount = 0u64;
    let mut maxvec = 0usize;
    for (n, r) in v {
        entries += r.lines.len() + r.functions.len() + r.branches.len();
        names += n.len();
        for f in r.functions.keys() {
            names += f.len();
        }
        for c in r.lines.values() {
            maxcount = maxcount.max(*c);
        }
        for b in r.branches.values() {
            slots += b.len();
            maxvec = maxvec.max(b.len());
        }
    }
    format!("files={} entries={} slots={} names={} maxcount={} maxvec={}", files, entries, slots, names, maxcount, maxvec)
}

fn kv(s: &str) -> BTreeMap<String, u64> {
    let mut m = BTreeMap::new();
    for t in s.split(' ') {
        if let Some((k, v)) = t.split_once('=') {
            if let Ok(n) = v.parse::<u64>() {
                m.insert(k.to_string(), n);
            }
        }
    }
    m
}

fn class_of(answer: &str) -> String {
    let mut it = answer.split(' ');
    match it.next() {
        Some("ok") => "ok".into(),
        Some("err") => format!("err {}", it.next().unwrap_or("")),
        Some(x) => x.to_string(),
        None => String::new(),
    }
}

// ------------------------------------------------------------------------------------------------
// child: `c14 --textcost-child <cases> <out>`

pub fn child(cases: &str, out: &str) {
    unsafe {
        let lim = libc::rlimit { rlim_cur: 2 << 30, rlim_max: 2 << 30 };
        libc::setrlimit(libc::RLIMIT_AS, &lim);
    }
    install_panic_hook();
    let tmp = PathBuf::from(format!("{}.tmp", out));
    std::fs::create_dir_all(&tmp).unwrap();
    let mut rd = BufReader::new(std::fs::File::open(cases).unwrap());
    let mut f = std::fs::OpenOptions::new().create(true).append(true).open(out).unwrap();
    let mut i = 0usize;
    loop {
        let mut k = [0u8; 1];
        if rd.read_exact(&mut k).is_err() {
            break;
        }
        let mut l = [0u8; 4];
        rd.read_exact(&mut l).unwrap();
        let mut data = vec![0u8; u32::from_le_bytes(l) as usize];
        rd.read_exact(&mut data).unwrap();
        let kind = KINDS[k[0] as usize];
        writeln!(f, "BEGIN {}", i).unwrap();
        f.flush().unwrap();
        let _ = std::fs::write("/proc/self/clear_refs", "5");
        let path = tmp.join(if kind == "gcovjson" { "x.gcov.json.gz" } else { "x.gcov" });
        if kind == "gcov" || kind == "gcovjson" {
            std::fs::write(&path, &data).unwrap();
        }
        // CPU time of this thread, not wall time: a loaded machine must not turn into a verdict
        let t0 = thread_cpu_micros();
        let r = match kind {
            "lcov" => guarded(move || parse_lcov(data, true)),
            "gcov" => guarded(move || parse_gcov(&path)),
            "gcovjson" => guarded(move || parse_gcov_gz(&path)),
            _ => guarded(move || parse_jacoco_xml_report(BufReader::new(Cursor::new(data)))),
        };
        let us = thread_cpu_micros().saturating_sub(t0);
        let line = match &r {
            Ok(Ok(v)) => format!("ok {}", sizes_of(v)),
            Ok(Err(e)) => format!(
                "err {}",
                match e {
                    grcov::ParserError::Io(_) => "Io",
                    grcov::ParserError::Parse(_) => "Parse",
                    grcov::ParserError::InvalidRecord(_) => "InvalidRecord",
                    grcov::ParserError::InvalidData(_) => "InvalidData",
                }
            ),
            Err(p) => format!("panic {}", p.replace('\n', " ")),
        };
        drop(r);
        // peak resident set of THIS case: VmHWM of /proc/self/status (reset before the case; ru_maxrss
        // is of no use here, it survives fork + exec and so carries the parent's size)
        let rss = std::fs::read_to_string("/proc/self/status")
            .ok()
            .and_then(|t| t.lines().find(|l| l.starts_with("VmHWM:")).and_then(|l| l.split_whitespace().nth(1).and_then(|x| x.parse::<u64>().ok())))
            .unwrap_or(0);
        writeln!(f, "END {} {} {} rsskb={}", i, us, line, rss).unwrap();
        i += 1;
    }
    let _ = std::fs::remove_dir_all(&tmp);
}

fn gz(data: &[u8]) -> Vec<u8> {
    let mut e = flate2::write::GzEncoder::new(Vec::new(), flate2::Compression::fast());
    e.write_all(data).unwrap();
    e.finish().unwrap()
}

/// run the real readers on a batch in children; a case the child dies in is `crash`/`timeout`
fn run_real(rep: &Report, cases: &[Case], tag: &str) -> Vec<Obs> {
    let mut out: Vec<Obs> = vec![Obs::default(); cases.len()];
    let mut start = 0usize;
    let mut round = 0;
    while start < cases.len() {
        let cf = rep.workdir.join(format!("{}.{}.cases", tag, round));
        let of = rep.workdir.join(format!("{}.{}.out", tag, round));
        let _ = std::fs::remove_file(&of);
        let mut total = 0usize;
        {
            let mut f = std::io::BufWriter::new(std::fs::File::create(&cf).unwrap());
            for c in &cases[start..] {
                let k = KINDS.iter().position(|x| *x == c.kind).unwrap() as u8;
                let d = if c.kind == "gcovjson" { gz(&c.data) } else { c.data.clone() };
                total += d.len();
                f.write_all(&[k]).unwrap();
                f.write_all(&(d.len() as u32).to_le_bytes()).unwrap();
                f.write_all(&d).unwrap();
            }
        }
        let exe = std::env::current_exe().unwrap();
        // generous: 10 s + 20 ms per case + 2 µs per byte, and never less than the quadratic family needs
        let limit = std::time::Duration::from_millis(60_000 + 20 * (cases.len() - start) as u64 + (total / 500) as u64);
        let mut child = Command::new(exe).arg("--textcost-child").arg(&cf).arg(&of).spawn().unwrap();
        let t0 = std::time::Instant::now();
        let mut timed_out = false;
        loop {
            match child.try_wait() {
                Ok(Some(_)) => break,
                Ok(None) => {
                    if t0.elapsed() > limit {
                        let _ = child.kill();
                        let _ = child.wait();
                        timed_out = true;
                        break;
                    }
                    std::thread::sleep(std::time::Duration::from_millis(3));
                }
                Err(_) => break,
            }
        }
        let text = std::fs::read_to_string(&of).unwrap_or_default();
        let mut last_begin: Option<usize> = None;
        let mut done = 0usize;
        for l in text.lines() {
            if let Some(r) = l.strip_prefix("BEGIN ") {
                last_begin = r.parse().ok();
            } else if let Some(r) = l.strip_prefix("END ") {
                let p: Vec<&str> = r.splitn(3, ' ').collect();
                let i: usize = p[0].parse().unwrap();
                out[start + i] = Obs { outcome: class_of(p[2]), sizes: kv(p[2]), micros: p[1].parse().unwrap_or(0) };
                if p[2].starts_with("panic") {
                    out[start + i].outcome = p[2].chars().take(200).collect();
                }
                done = i + 1;
                last_begin = None;
            }
        }
        if let Some(i) = last_begin {
            out[start + i].outcome = if timed_out { "timeout".into() } else { "crash (abort, OOM or stack overflow)".into() };
            start += i + 1;
        } else {
            start += done.max(1);
            if done == 0 {
                break;
            }
        }
        round += 1;
        let _ = std::fs::remove_file(&cf);
    }
    out
}

// ------------------------------------------------------------------------------------------------
// generators

fn name(rng: &mut Rng, max: u64) -> Vec<u8> {
    let n = rng.range(1, max.max(2));
    let mut v = vec![];
    for _ in 0..n {
        let c = match rng.below(40) {
            0 => b' ',
            1 => b',',
            2 => b':',
            3 => 0xC3, // may or may not be followed by a continuation byte
            4 => 0xA9,
            5 => 0xFF,
            6 => b'/',
            _ => b'a' + rng.below(26) as u8,
        };
        v.push(c);
    }
    v
}

fn lcov_doc(rng: &mut Rng, sections: u64, recs: u64, clean: bool) -> (Vec<u8>, Meta) {
    let mut o: Vec<u8> = vec![];
    let mut meta = Meta { slot_budget: Some(0), ..Default::default() };
    let eol: &[u8] = if rng.chance(1, 6) { b"\r\n" } else { b"\n" };
    for s in 0..sections {
        o.extend_from_slice(b"SF:");
        o.extend(name(rng, 30));
        o.extend_from_slice(format!("{}", s).as_bytes());
        o.extend_from_slice(eol);
        let mut fns: Vec<Vec<u8>> = vec![];
        let mut pending: Vec<Vec<u8>> = vec![];
        for _ in 0..rng.range(0, recs + 1) {
            match rng.below(12) {
                0 | 1 => {
                    // FNDA first, FN later
                    let f = name(rng, 12);
                    o.extend_from_slice(format!("FNDA:{},", rng.below(3)).as_bytes());
                    o.extend(&f);
                    o.extend_from_slice(eol);
                    pending.push(f);
                }
                2 | 3 => {
                    let f = if !pending.is_empty() && rng.chance(2, 3) { pending.pop().unwrap() } else { name(rng, 12) };
                    o.extend_from_slice(format!("FN:{},", rng.below(5000)).as_bytes());
                    o.extend(&f);
                    o.extend_from_slice(eol);
                    fns.push(f);
                }
                4 => {
                    if let Some(f) = fns.last() {
                        o.extend_from_slice(format!("FNDA:{},", rng.below(100)).as_bytes());
                        o.extend(f);
                        o.extend_from_slice(eol);
                    }
                }
                5 | 6 | 7 => {
                    let c = match rng.below(8) {
                        0 => "-1".to_string(),
                        1 => "18446744073709551615".to_string(),
                        2 => format!("{},Xchecksum", rng.below(1000)),
                        _ => format!("{}", rng.below(100000)),
                    };
                    o.extend_from_slice(format!("DA:{},{}", rng.below(3000), c).as_bytes());
                    o.extend_from_slice(eol);
                }
                8 | 9 => {
                    let no = match rng.below(20) {
                        0 => rng.below(3000),
                        1 => rng.below(60),
                        _ => rng.below(6),
                    };
                    let taken = *rng.pick(&["-", "0", "1", "7"]);
                    o.extend_from_slice(format!("BRDA:{},{},{},{}", rng.below(300), rng.below(4), no, taken).as_bytes());
                    o.extend_from_slice(eol);
                    meta.slot_budget = meta.slot_budget.map(|b| b + no + 1);
                    meta.max_no = Some(meta.max_no.unwrap_or(0).max(no));
                }
                10 => {
                    const JUNK: &[&[u8]] = &[b"TN:", b"LF:3", b"LH:1", b"BRF:2", b"", b"#x", b"FNF:1", b"zzz"];
                    let j: &&[u8] = rng.pick(JUNK);
                    o.extend_from_slice(j);
                    o.extend_from_slice(eol);
                }
                _ => {
                    o.extend_from_slice(format!("DA:{},{}", rng.below(3000), rng.below(9)).as_bytes());
                    o.extend_from_slice(eol);
                }
            }
        }
        // the FN records of what is still pending (mostly), so that the section is accepted
        for f in pending {
            if clean || rng.chance(19, 20) {
                o.extend_from_slice(b"FN:1,");
                o.extend(&f);
                o.extend_from_slice(eol);
            }
        }
        if s + 1 < sections || rng.chance(9, 10) {
            o.extend_from_slice(b"end_of_record");
            o.extend_from_slice(eol);
        }
    }
    (o, meta)
}

fn gcov_doc(rng: &mut Rng, files: u64, recs: u64) -> Vec<u8> {
    let o = gcov_doc_raw(rng, files, recs);
    // one document in five keeps its invalid UTF-8 bytes (names are decoded lossily since 7f9b2b3)
    if rng.chance(1, 5) {
        o
    } else {
        o.into_iter().map(|c| if c >= 0x80 { b'x' } else { c }).collect()
    }
}

fn gcov_doc_raw(rng: &mut Rng, files: u64, recs: u64) -> Vec<u8> {
    let mut o: Vec<u8> = vec![];
    let eol: &[u8] = if rng.chance(1, 6) { b"\r\n" } else { b"\n" };
    for s in 0..files {
        if s > 0 || rng.chance(19, 20) {
            o.extend_from_slice(b"file:");
            o.extend(name(rng, 30));
            o.extend_from_slice(eol);
        }
        for _ in 0..rng.range(0, recs + 1) {
            match rng.below(10) {
                0 | 1 => {
                    o.extend_from_slice(format!("function:{},{},", rng.below(5000), rng.below(3)).as_bytes());
                    o.extend(name(rng, 14));
                }
                2 | 3 | 4 => {
                    let c = match rng.below(10) {
                        0 => "-3".to_string(),
                        1 => "18446744073709551615".to_string(),
                        2 => "0".to_string(),
                        _ => format!("{}", rng.below(100000)),
                    };
                    o.extend_from_slice(format!("lcount:{},{}", rng.below(3000), c).as_bytes());
                }
                5 | 6 | 7 => {
                    let t = *rng.pick(&["taken", "nottaken", "notexec"]);
                    o.extend_from_slice(format!("branch:{},{}", rng.below(40), t).as_bytes());
                }
                8 => {
                    const OTHER: &[&[u8]] = &[b"version:7.3", b"x:y", b"cwd:/tmp", b"lcount8:1,2,0"];
                    let j: &&[u8] = rng.pick(OTHER);
                    o.extend_from_slice(j)
                }
                _ => o.extend_from_slice(format!("lcount:{},{}", rng.below(50), rng.below(9)).as_bytes()),
            }
            o.extend_from_slice(eol);
        }
    }
    if rng.chance(1, 5) && o.ends_with(b"\n") {
        o.pop();
    }
    o
}

/// JSON value tree with the text of every number kept (the model gets the exact value)
#[derive(Clone)]
enum J {
    Null,
    Bool(bool),
    /// text, tree syntax
    Num(&'static str, &'static str),
    Int(u64),
    Str(Vec<u8>),
    Arr(Vec<J>),
    Obj(Vec<(String, J)>),
}

const NUMS: &[(&str, &str)] = &[
    ("2.5", "d+5p-1;"),
    ("1e3", "d+1000p+0;"),
    ("0.0", "d+0p+0;"),
    ("-0.0", "d-0p+0;"),
    ("-1", "m1;"),
    ("-2.5", "d-5p-1;"),
    ("18446744073709551615", "i18446744073709551615;"),
    ("18446744073709551616", "d+1p+64;"),
    ("1e20", "d+95367431640625p+20;"),
    ("4294967296", "i4294967296;"),
];

impl J {
    fn text(&self, o: &mut Vec<u8>) {
        match self {
            J::Null => o.extend_from_slice(b"null"),
            J::Bool(b) => o.extend_from_slice(if *b { b"true" } else { b"false" }),
            J::Num(t, _) => o.extend_from_slice(t.as_bytes()),
            J::Int(n) => o.extend_from_slice(n.to_string().as_bytes()),
            J::Str(s) => {
                o.push(b'"');
                o.extend(s);
                o.push(b'"');
            }
            J::Arr(xs) => {
                o.push(b'[');
                for (i, x) in xs.iter().enumerate() {
                    if i > 0 {
                        o.push(b',');
                    }
                    x.text(o);
                }
                o.push(b']');
            }
            J::Obj(kvs) => {
                o.push(b'{');
                for (i, (k, v)) in kvs.iter().enumerate() {
                    if i > 0 {
                        o.push(b',');
                    }
                    o.push(b'"');
                    o.extend_from_slice(k.as_bytes());
                    o.extend_from_slice(b"\":");
                    v.text(o);
                }
                o.push(b'}');
            }
        }
    }
    fn tree(&self, o: &mut String) {
        match self {
            J::Null => o.push('n'),
            J::Bool(b) => o.push(if *b { 't' } else { 'f' }),
            J::Num(_, t) => o.push_str(t),
            J::Int(n) => o.push_str(&format!("i{};", n)),
            J::Str(s) => o.push_str(&format!("s{};", hex(s))),
            J::Arr(xs) => {
                o.push('[');
                for x in xs {
                    x.tree(o);
                }
                o.push(']');
            }
            J::Obj(kvs) => {
                o.push('{');
                for (k, v) in kvs {
                    o.push_str(&format!("s{};", hex(k.as_bytes())));
                    v.tree(o);
                }
                o.push('}');
            }
        }
    }
    fn depth(&self) -> usize {
        match self {
            J::Arr(xs) => 1 + xs.iter().map(|x| x.depth()).max().unwrap_or(0),
            J::Obj(kvs) => 1 + kvs.iter().map(|x| x.1.depth()).max().unwrap_or(0),
            _ => 0,
        }
    }
}

fn jname(rng: &mut Rng, max: u64) -> Vec<u8> {
    (0..rng.range(0, max)).map(|_| *rng.pick(b"abcdefghij/._$ ")).collect()
}

fn jnum(rng: &mut Rng, small: u64, clean: bool) -> J {
    // line numbers (small = 400, 500, 600) rarely get a number of another class, counters often
    let den = if small == 400 || small == 500 || small == 600 { 300 } else { 25 };
    if !clean && rng.chance(1, den) {
        let (t, tr) = *rng.pick(NUMS);
        J::Num(t, tr)
    } else {
        J::Int(rng.below(small))
    }
}

/// an object; sometimes noise members, a missing or a duplicated member, or the positional form
fn jstruct(rng: &mut Rng, fields: Vec<(&str, J)>, noise: bool) -> J {
    if noise && rng.chance(1, 25) {
        return J::Arr(fields.into_iter().map(|f| f.1).collect());
    }
    let mut kvs: Vec<(String, J)> = fields.into_iter().map(|(k, v)| (k.to_string(), v)).collect();
    if noise && rng.chance(1, 8) {
        let extra = match rng.below(3) {
            0 => J::Arr(vec![J::Int(1), J::Obj(vec![("z".into(), J::Null)])]),
            1 => J::Str(b"ignored".to_vec()),
            _ => J::Null,
        };
        let at = rng.below(kvs.len() as u64 + 1) as usize;
        kvs.insert(at, ("extra_key".into(), extra));
    }
    if noise && rng.chance(1, 500) && !kvs.is_empty() {
        let i = rng.below(kvs.len() as u64) as usize;
        if rng.chance(1, 2) {
            kvs.remove(i);
        } else {
            let d = kvs[i].clone();
            kvs.push(d);
        }
    }
    if rng.chance(1, 3) {
        rng.shuffle(&mut kvs);
    }
    J::Obj(kvs)
}

fn json_doc(rng: &mut Rng, files: u64, lines: u64, brs: u64, clean: bool) -> J {
    let mut fs = vec![];
    for _ in 0..files {
        let mut ls = vec![];
        for _ in 0..rng.range(0, lines + 1) {
            let nb = if rng.chance(1, 3) { rng.range(0, brs + 1) } else { 0 };
            let mut bs: Vec<J> = vec![];
            for _ in 0..nb {
                let (c, ft, noise) = (jnum(rng, 3, clean), rng.chance(1, 2), !clean && rng.chance(1, 2));
                bs.push(jstruct(rng, vec![("count", c), ("throw", J::Bool(false)), ("fallthrough", J::Bool(ft))], noise));
            }
            let ln = jnum(rng, 400, clean);
            let mut f = vec![("line_number", ln)];
            if rng.chance(2, 3) {
                let v = if rng.chance(1, 5) { J::Null } else { J::Str(jname(rng, 8)) };
                f.push(("function_name", v));
            }
            let (cn, ub) = (jnum(rng, 1000, clean), rng.chance(1, 4));
            f.push(("count", cn));
            f.push(("unexecuted_block", J::Bool(ub)));
            f.push(("branches", J::Arr(bs)));
            ls.push(jstruct(rng, f, !clean));
        }
        let mut fns = vec![];
        for _ in 0..rng.range(0, 4) {
            let fields = vec![
                ("name", J::Str(jname(rng, 10))),
                ("demangled_name", J::Str(jname(rng, 14))),
                ("start_line", jnum(rng, 500, clean)),
                ("start_column", J::Int(1)),
                ("end_line", jnum(rng, 600, clean)),
                ("end_column", J::Int(2)),
                ("blocks", J::Int(rng.below(9))),
                ("blocks_executed", J::Int(rng.below(9))),
                ("execution_count", jnum(rng, 5, clean)),
            ];
            fns.push(jstruct(rng, fields, !clean));
        }
        let fields = vec![("file", J::Str(jname(rng, 20))), ("functions", J::Arr(fns)), ("lines", J::Arr(ls))];
        fs.push(jstruct(rng, fields, !clean));
    }
    let mut top = vec![("format_version", J::Str(b"1".to_vec())), ("gcc_version", J::Str(b"10.2".to_vec()))];
    if rng.chance(3, 4) {
        let v = if rng.chance(1, 6) { J::Null } else { J::Str(b"/w".to_vec()) };
        top.push(("current_working_directory", v));
    }
    top.push(("data_file", J::Str(b"a.gcda".to_vec())));
    top.push(("files", J::Arr(fs)));
    jstruct(rng, top, !clean)
}

fn nested(depth: usize) -> J {
    let mut j = J::Int(1);
    for _ in 0..depth {
        j = J::Arr(vec![j]);
    }
    j
}

/// member `key` of a struct given as an object (last occurrence) or positionally
fn jfield<'a>(j: &'a J, key: &str, pos: usize) -> Option<&'a J> {
    match j {
        J::Obj(kvs) => kvs.iter().rev().find(|kv| kv.0 == key).map(|kv| &kv.1),
        J::Arr(xs) => xs.get(pos),
        _ => None,
    }
}

/// some file of the document lists a line number or a demangled function name twice
fn json_has_repeats(doc: &J) -> bool {
    let files = match jfield(doc, "files", 4) {
        Some(J::Arr(fs)) => fs,
        _ => return false,
    };
    for f in files {
        let mut seen = std::collections::BTreeSet::new();
        if let Some(J::Arr(ls)) = jfield(f, "lines", 2) {
            for l in ls {
                let mut t = String::new();
                if let Some(n) = jfield(l, "line_number", 0) {
                    n.tree(&mut t);
                }
                if !seen.insert(t) {
                    return true;
                }
            }
        }
        let mut seen = std::collections::BTreeSet::new();
        if let Some(J::Arr(fns)) = jfield(f, "functions", 1) {
            for g in fns {
                let mut t = String::new();
                if let Some(n) = jfield(g, "demangled_name", 1) {
                    n.tree(&mut t);
                }
                if !seen.insert(t) {
                    return true;
                }
            }
        }
    }
    false
}

fn json_case(what: &str, j: &J, adversarial: bool) -> Case {
    let mut text = vec![];
    j.text(&mut text);
    let mut tree = String::new();
    j.tree(&mut tree);
    // deep nesting only occurs in members the reader ignores: serde_json skips those without recursion
    // (`ignore_value` keeps its own stack), so the recursion limit of 128 never applies to them
    let model = format!("c14.text.gcovjson {}", tree);
    Case { kind: "gcovjson", what: what.into(), data: text, model, meta: Meta { depth: j.depth() as u64, repeats: json_has_repeats(j), ..Default::default() }, adversarial }
}

fn xml_escape(v: &[u8]) -> Vec<u8> {
    let mut o = vec![];
    for &c in v {
        match c {
            b'&' => o.extend_from_slice(b"&amp;"),
            b'<' => o.extend_from_slice(b"&lt;"),
            b'"' => o.extend_from_slice(b"&quot;"),
            _ => o.push(c),
        }
    }
    o
}

fn xname(rng: &mut Rng, max: u64) -> Vec<u8> {
    (0..rng.range(1, max)).map(|_| *rng.pick(b"abcdefghijABC/$_.&<")).collect()
}

fn jacoco_doc(rng: &mut Rng, packages: u64, items: u64, lines: u64, clean: bool) -> (Vec<u8>, Meta) {
    let mut o: Vec<u8> = vec![];
    let mut meta = Meta { slot_budget: Some(0), ..Default::default() };
    let nl = rng.chance(1, 2);
    let sep = |o: &mut Vec<u8>| {
        if nl {
            o.push(b'\n');
        }
    };
    if rng.chance(2, 3) {
        o.extend_from_slice(b"<?xml version=\"1.0\" encoding=\"UTF-8\"?>");
        sep(&mut o);
    }
    if rng.chance(1, 2) {
        o.extend_from_slice(b"<!DOCTYPE report PUBLIC \"-//JACOCO//DTD Report 1.1//EN\" \"report.dtd\">");
        sep(&mut o);
    }
    o.extend_from_slice(b"<report name=\"r\">");
    sep(&mut o);
    o.extend_from_slice(b"<sessioninfo id=\"s\" start=\"1\" dump=\"2\"/>");
    sep(&mut o);
    let counter = |rng: &mut Rng, o: &mut Vec<u8>, ty: &str| {
        let cov = match if clean { 9 } else { rng.below(20) } {
            0 => "x".to_string(),
            1 => "4294967296".to_string(),
            _ => format!("{}", rng.below(3)),
        };
        o.extend_from_slice(format!("<counter type=\"{}\" missed=\"{}\" covered=\"{}\"/>", ty, rng.below(3), cov).as_bytes());
    };
    for _ in 0..packages {
        o.extend_from_slice(b"<package name=\"");
        o.extend(xml_escape(&xname(rng, 12)));
        o.extend_from_slice(b"\">");
        sep(&mut o);
        for _ in 0..rng.range(0, items + 1) {
            if rng.chance(1, 2) {
                o.extend_from_slice(b"<class name=\"");
                o.extend(xml_escape(&xname(rng, 16)));
                o.push(b'"');
                if rng.chance(3, 4) {
                    o.extend_from_slice(b" sourcefilename=\"");
                    o.extend(xml_escape(&xname(rng, 10)));
                    o.extend_from_slice(b".java\"");
                }
                o.push(b'>');
                sep(&mut o);
                for _ in 0..rng.range(0, 4) {
                    o.extend_from_slice(b"<method name=\"");
                    o.extend(xml_escape(&xname(rng, 8)));
                    o.extend_from_slice(b"\" desc=\"()V\"");
                    if clean || rng.chance(29, 30) {
                        o.extend_from_slice(format!(" line=\"{}\"", rng.below(900)).as_bytes());
                    }
                    o.push(b'>');
                    for _ in 0..rng.range(0, 4) {
                        let ty = *rng.pick(&["INSTRUCTION", "LINE", "METHOD", "BRANCH"]);
                        counter(rng, &mut o, ty);
                    }
                    o.extend_from_slice(b"</method>");
                    sep(&mut o);
                }
                counter(rng, &mut o, "CLASS");
                o.extend_from_slice(b"</class>");
                sep(&mut o);
            } else {
                o.extend_from_slice(b"<sourcefile name=\"");
                o.extend(xml_escape(&xname(rng, 10)));
                o.extend_from_slice(b".java\">");
                sep(&mut o);
                for _ in 0..rng.range(0, lines + 1) {
                    let (mb, cb) = match rng.below(12) {
                        0 => (rng.below(4), rng.below(4)),
                        1 => (rng.below(40), 0),
                        2 => (0, rng.below(700)),
                        _ => (0, 0),
                    };
                    let nr = if !clean && rng.chance(1, 80) { "4294967296".to_string() } else { format!("{}", rng.below(2000)) };
                    let mut attrs = vec![
                        format!("nr=\"{}\"", nr),
                        format!("mi=\"{}\"", rng.below(5)),
                        format!("ci=\"{}\"", rng.below(5)),
                        format!("mb=\"{}\"", mb),
                        format!("cb=\"{}\"", cb),
                    ];
                    if !clean && rng.chance(1, 70) {
                        attrs.remove(rng.below(5) as usize);
                    }
                    if !clean && rng.chance(1, 70) {
                        let d = attrs[rng.below(attrs.len() as u64) as usize].clone();
                        attrs.push(d);
                    }
                    if rng.chance(1, 5) {
                        rng.shuffle(&mut attrs);
                    }
                    meta.slot_budget = meta.slot_budget.map(|b| b + mb + cb);
                    o.extend_from_slice(format!("<line {}/>", attrs.join(" ")).as_bytes());
                    sep(&mut o);
                }
                counter(rng, &mut o, "LINE");
                o.extend_from_slice(b"</sourcefile>");
                sep(&mut o);
            }
        }
        if rng.chance(1, 6) {
            o.extend_from_slice(b"<!-- c -->");
        }
        o.extend_from_slice(b"</package>");
        sep(&mut o);
    }
    o.extend_from_slice(b"</report>");
    sep(&mut o);
    meta.max_attrs = 6;
    (o, meta)
}

/// the events quick-xml's tokenizer reads from the text (attribute checks off), in the encoding
/// of the model driver; `None`: an attribute list it cannot split (not generated here)
fn qx_events(xml: &[u8]) -> Option<Vec<String>> {
    use quick_xml::events::Event;
    let mut r = quick_xml::Reader::from_reader(xml);
    let c = r.config_mut();
    c.expand_empty_elements = false;
    c.trim_text(false);
    let mut buf = Vec::new();
    let mut out = vec![];
    fn enc(kind: &str, e: &quick_xml::events::BytesStart<'_>) -> Option<String> {
        let mut s = format!("{},{}", kind, hex(e.name().into_inner()));
        for a in e.attributes().with_checks(false) {
            let a = a.ok()?;
            s.push(',');
            s.push_str(&hex(a.key.into_inner()));
            s.push('=');
            s.push_str(&hex(&a.value));
        }
        Some(s)
    }
    loop {
        match r.read_event_into(&mut buf) {
            Ok(Event::Eof) => break,
            Err(_) => {
                out.push("x".to_string());
                break;
            }
            Ok(Event::Start(ref e)) => out.push(enc("s", e)?),
            Ok(Event::Empty(ref e)) => out.push(enc("e", e)?),
            Ok(Event::End(ref e)) => out.push(format!("c,{}", hex(e.name().into_inner()))),
            Ok(Event::Text(_)) => out.push("t".into()),
            Ok(_) => out.push("o".into()),
        }
        buf.clear();
    }
    Some(out)
}

fn jacoco_case(what: &str, xml: Vec<u8>, meta: Meta, adversarial: bool, tie: bool) -> Option<Case> {
    let mut meta = meta;
    let model = if tie {
        let evs = qx_events(&xml)?;
        let repeated = evs.iter().any(|e| {
            let keys: Vec<&str> = e.split(',').skip(2).map(|kv| kv.split('=').next().unwrap_or("")).collect();
            let set: std::collections::BTreeSet<&&str> = keys.iter().collect();
            set.len() != keys.len()
        });
        meta.repeats = repeated;
        format!("c14.text.jacoco 1000000000000 {}", evs.join(" "))
    } else {
        String::new()
    };
    Some(Case { kind: "jacoco", what: what.into(), data: xml, model, meta, adversarial })
}

fn many_attrs(n: usize) -> Vec<u8> {
    let mut x = String::from("<report><package ");
    for i in 0..n {
        x.push_str(&format!("a{:06}=\"\" ", i));
    }
    x.push_str("name=\"p\"></package></report>");
    x.into_bytes()
}

fn mutate(rng: &mut Rng, d: &[u8], alphabet: &[u8]) -> Vec<u8> {
    let mut d = d.to_vec();
    for _ in 0..rng.range(1, 4) {
        if d.is_empty() {
            break;
        }
        let i = rng.below(d.len() as u64) as usize;
        match rng.below(4) {
            0 => d[i] = *rng.pick(alphabet),
            1 => {
                d.remove(i);
            }
            2 => d.insert(i, *rng.pick(alphabet)),
            _ => d.truncate(i),
        }
    }
    d
}

fn lcov_case(what: &str, data: Vec<u8>, meta: Meta, adversarial: bool, tie: bool) -> Case {
    let model = if tie { format!("c14.text.lcov 1 {}", hex(&data)) } else { String::new() };
    Case { kind: "lcov", what: what.into(), data, model, meta, adversarial }
}
fn gcov_case(what: &str, data: Vec<u8>, adversarial: bool, tie: bool) -> Case {
    let model = if tie { format!("c14.text.gcov {}", hex(&data)) } else { String::new() };
    Case { kind: "gcov", what: what.into(), data, model, meta: Meta::default(), adversarial }
}

fn build_cases(rep: &Report, rng: &mut Rng) -> Vec<Case> {
    let mut cs: Vec<Case> = vec![];
    let n = rep.budget(60, 12);
    let unknown = Meta { slot_budget: None, ..Default::default() };
    // ---- ordinary documents, their truncations and mutations (tie)
    for i in 0..n {
        let (a, b) = (1 + rng.below(6), 4 + rng.below(60));
        let (d, m) = lcov_doc(rng, a, b, false);
        if i % 3 == 0 {
            cs.push(lcov_case("lcov mutated", mutate(rng, &d, b"SDFBNAR:,-0189e\n\r \xff"), unknown.clone(), false, true));
        }
        cs.push(lcov_case("lcov generated", d, m, false, true));
        let (a, b) = (1 + rng.below(5), 4 + rng.below(60));
        let d = gcov_doc(rng, a, b);
        if i % 3 == 0 {
            cs.push(gcov_case("gcov mutated", mutate(rng, &d, b"filecountbrah:,-0189\n\r +"), false, true));
        }
        cs.push(gcov_case("gcov generated", d, false, true));
        let (a, b) = (1 + rng.below(4), rng.below(30));
        let j = json_doc(rng, a, b, 4, false);
        cs.push(json_case("gcovjson generated", &j, false));
        let (a, b, l) = (1 + rng.below(3), rng.below(6), rng.below(30));
        let (x, m) = jacoco_doc(rng, a, b, l, false);
        if i % 3 == 0 {
            let cut = rng.below(x.len() as u64 + 1) as usize;
            if let Some(c) = jacoco_case("jacoco truncated", x[..cut].to_vec(), unknown.clone(), false, true) {
                cs.push(c);
            }
        }
        if let Some(c) = jacoco_case("jacoco generated", x, m, false, true) {
            cs.push(c);
        }
    }
    // documents of some size: the base of the time oracle
    for _ in 0..6 {
        let (d, m) = lcov_doc(rng, 40, 120, true);
        cs.push(lcov_case("lcov generated (large)", d, m, false, false));
        cs.push(gcov_case("gcov generated (large)", gcov_doc(rng, 40, 120), false, false));
        let j = json_doc(rng, 12, 120, 4, true);
        let mut c = json_case("gcovjson generated (large)", &j, false);
        c.model = String::new();
        cs.push(c);
        let (x, m) = jacoco_doc(rng, 6, 12, 120, true);
        cs.push(jacoco_case("jacoco generated (large)", x, m, false, false).unwrap());
    }
    // ---- adversarial shapes, moderate size (tie)
    let k = rep.budget(1, 3) as usize;
    // many tiny records
    let mut d = b"SF:a\n".to_vec();
    for i in 0..1500 * k {
        d.extend_from_slice(format!("DA:{},1\n", i).as_bytes());
    }
    d.extend_from_slice(b"end_of_record\n");
    cs.push(lcov_case("lcov many tiny DA records", d, Meta { slot_budget: Some(0), ..Default::default() }, true, true));
    let mut d = vec![];
    for i in 0..400 * k {
        d.extend_from_slice(format!("SF:f{}\nend_of_record\n", i).as_bytes());
    }
    cs.push(lcov_case("lcov many empty sections", d, Meta { slot_budget: Some(0), ..Default::default() }, true, true));
    // pending FNDA map: all FNDA first, then all FN, then many sections
    let mut d = b"SF:a\n".to_vec();
    for i in 0..600 * k {
        d.extend_from_slice(format!("FNDA:1,g{}\n", i).as_bytes());
    }
    for i in 0..600 * k {
        d.extend_from_slice(format!("FN:1,g{}\n", i).as_bytes());
    }
    d.extend_from_slice(b"end_of_record\n");
    cs.push(lcov_case("lcov FNDA before FN (pending map)", d, Meta { slot_budget: Some(0), ..Default::default() }, true, true));
    // long names
    let mut d = b"SF:".to_vec();
    d.extend(std::iter::repeat(b'n').take(4000));
    d.extend_from_slice(b"\nFN:1,");
    d.extend(std::iter::repeat(0xFFu8).take(1500));
    d.extend_from_slice(b"\nend_of_record\n");
    cs.push(lcov_case("lcov long names (one invalid UTF-8 byte = three bytes)", d, Meta { slot_budget: Some(0), ..Default::default() }, true, true));
    // huge numbers
    for (w, t) in [
        ("count 2^64-1 twice (saturates)", "SF:a\nDA:1,18446744073709551615\nDA:1,18446744073709551615\nend_of_record\n"),
        ("count 2^64", "SF:a\nDA:1,18446744073709551616\nend_of_record\n"),
        ("line 2^32", "SF:a\nDA:4294967296,1\nend_of_record\n"),
        ("line 2^32-1", "SF:a\nDA:4294967295,1\nFN:4294967295,f\nBRDA:4294967295,0,0,1\nend_of_record\n"),
        ("digits without end", "SF:a\nDA:1,11111111111111111111111111111111111111111111111111111111\n"),
    ] {
        cs.push(lcov_case(&format!("lcov huge numbers: {}", w), t.as_bytes().to_vec(), Meta { slot_budget: Some(1), max_no: Some(0), ..Default::default() }, true, true));
    }
    // one large branch number (a gap), and the quadratic family under the guard
    let no = 60_000u64;
    cs.push(lcov_case(
        "lcov one branch number 60000 (gap)",
        format!("SF:a\nBRDA:1,0,{},1\nBRDA:1,0,3,1\nend_of_record\n", no).into_bytes(),
        Meta { slot_budget: Some(no + 1 + 4), max_no: Some(no), ..Default::default() },
        true,
        true,
    ));
    let (lines, no) = (60u64, 3000u64);
    let mut d = b"SF:a\n".to_vec();
    for i in 0..lines {
        d.extend_from_slice(format!("BRDA:{},0,{},1\n", i, no).as_bytes());
    }
    d.extend_from_slice(b"end_of_record\n");
    cs.push(lcov_case(
        "lcov many lines each with branch number 3000 (slots = lines x 3001)",
        d,
        Meta { slot_budget: Some(lines * (no + 1)), max_no: Some(no), ..Default::default() },
        true,
        true,
    ));
    // gcov text
    let mut d = b"file:a\n".to_vec();
    for i in 0..1500 * k {
        d.extend_from_slice(format!("lcount:{},1\n", i).as_bytes());
    }
    cs.push(gcov_case("gcov many tiny lcount records", d, true, true));
    let mut d = b"file:a\nlcount:1,1\n".to_vec();
    for _ in 0..1500 * k {
        d.extend_from_slice(b"branch:1,taken\n");
    }
    cs.push(gcov_case("gcov one line with many branch records", d, true, true));
    let mut d = vec![];
    for i in 0..500 * k {
        d.extend_from_slice(format!("file:f{}\nlcount:1,1\n", i).as_bytes());
    }
    cs.push(gcov_case("gcov many files", d, true, true));
    let mut d = b"file:".to_vec();
    d.extend(std::iter::repeat(b'n').take(5000));
    d.extend_from_slice(b"\nfunction:1,1,");
    d.extend(std::iter::repeat(b'f').take(5000));
    d.extend_from_slice(b"\nlcount:1,1\n");
    cs.push(gcov_case("gcov long names", d, true, true));
    for (w, t) in [
        ("count 2^64-1", "file:a\nlcount:1,18446744073709551615\n"),
        ("count 2^64", "file:a\nlcount:1,18446744073709551616\n"),
        ("line 2^32", "file:a\nlcount:4294967296,1\n"),
        ("no trailing newline, CRLF", "file:a\r\nlcount:4294967295,7\r\nbranch:4294967295,taken"),
    ] {
        cs.push(gcov_case(&format!("gcov huge numbers: {}", w), t.as_bytes().to_vec(), true, true));
    }
    // gcov text: malformed records on LONG lines (200-600 bytes) made of 2-, 3-, 4-byte characters or
    // invalid bytes (each becomes the 3 bytes of U+FFFD), shifted by 0..3 bytes so that a character
    // straddles every byte offset around 256: whatever the reader does with the rejected line (echo it
    // in the error, cut it) must end in an error value (seeded change C14-5: `&l[..256]`)
    {
        let fills: [(&str, Vec<u8>); 5] = [
            ("2-byte", "\u{e9}".as_bytes().to_vec()),
            ("3-byte", "\u{8a9e}".as_bytes().to_vec()),
            ("4-byte", "\u{1d6fc}".as_bytes().to_vec()),
            ("invalid", vec![0xFF]),
            ("mixed", "a\u{e9}\u{8a9e}\u{1d6fc}".as_bytes().iter().copied().chain([0xF0u8, 0x9F]).collect()),
        ];
        // (name, text before the fill, text after it)
        let shapes: [(&str, &str, &str); 9] = [
            ("no colon", "", ""),
            ("function: start line is no number", "function:", ",1,f"),
            ("function: name missing", "function:12,", ""),
            ("function: 20-digit start line", "function:99999999999999999999,1,", ""),
            ("lcount: line is no number", "lcount:", ",1"),
            ("lcount: count is no number", "lcount:7,", ""),
            ("lcount: count missing", "lcount:", ""),
            ("branch: 20-digit line", "branch:99999999999999999999,", ""),
            ("branch: outcome missing", "branch:", ""),
        ];
        for (fname, unit) in &fills {
            for (sname, pre, post) in &shapes {
                for len in [200usize, 300, 600] {
                    for shift in 0..4usize {
                        let mut line: Vec<u8> = pre.as_bytes().to_vec();
                        line.extend(std::iter::repeat(b'x').take(shift));
                        while line.len() < len {
                            line.extend_from_slice(unit);
                        }
                        line.extend_from_slice(post.as_bytes());
                        let mut d = b"file:ok.c\nlcount:1,1\n".to_vec();
                        d.extend(line);
                        d.extend_from_slice(b"\nlcount:2,2\n");
                        cs.push(gcov_case(&format!("gcov malformed record on a long line ({}; {} fill; {} bytes; shift {})", sname, fname, len, shift), d, true, true));
                    }
                }
            }
        }
    }
    // gcov JSON
    let line = |n: u64, brs: usize| {
        J::Obj(vec![
            ("line_number".into(), J::Int(n)),
            ("count".into(), J::Int(1)),
            ("unexecuted_block".into(), J::Bool(false)),
            ("branches".into(), J::Arr((0..brs).map(|_| J::Obj(vec![("count".into(), J::Int(1)), ("throw".into(), J::Bool(false)), ("fallthrough".into(), J::Bool(true))])).collect())),
        ])
    };
    let doc = |files: Vec<J>, extra: Option<J>| {
        let mut top = vec![
            ("format_version".to_string(), J::Str(b"1".to_vec())),
            ("gcc_version".to_string(), J::Str(b"9".to_vec())),
            ("data_file".to_string(), J::Str(b"d".to_vec())),
            ("files".to_string(), J::Arr(files)),
        ];
        if let Some(e) = extra {
            top.insert(1, ("unknown".to_string(), e));
        }
        J::Obj(top)
    };
    let file = |nm: Vec<u8>, ls: Vec<J>| J::Obj(vec![("file".into(), J::Str(nm)), ("functions".into(), J::Arr(vec![])), ("lines".into(), J::Arr(ls))]);
    cs.push(json_case("gcovjson many lines", &doc(vec![file(b"a".to_vec(), (0..600 * k as u64).map(|i| line(i, 0)).collect())], None), true));
    cs.push(json_case("gcovjson one line with many branches", &doc(vec![file(b"a".to_vec(), vec![line(1, 900 * k)])], None), true));
    cs.push(json_case("gcovjson many files", &doc((0..300 * k).map(|i| file(format!("f{}", i).into_bytes(), vec![line(1, 1)])).collect(), None), true));
    cs.push(json_case("gcovjson long name", &doc(vec![file(std::iter::repeat(b'n').take(6000).collect(), vec![line(1, 0)])], None), true));
    cs.push(json_case("gcovjson unknown member nested 100 deep", &doc(vec![file(b"a".to_vec(), vec![line(1, 2)])], Some(nested(100))), true));
    cs.push(json_case("gcovjson unknown member nested 5000 deep", &doc(vec![file(b"a".to_vec(), vec![line(1, 2)])], Some(nested(5000))), true));
    cs.push(json_case("gcovjson the same line number 600 times", &doc(vec![file(b"a".to_vec(), (0..600).map(|_| line(7, 3)).collect())], None), true));
    // JaCoCo
    let wrap = |body: &str| format!("<report><package name=\"p\"><sourcefile name=\"A.java\">{}</sourcefile></package></report>", body).into_bytes();
    let mut b = String::new();
    for i in 0..800 * k {
        b.push_str(&format!("<line nr=\"{}\" mi=\"0\" ci=\"1\" mb=\"0\" cb=\"0\"/>", i));
    }
    cs.push(jacoco_case("jacoco many tiny line elements", wrap(&b), Meta { slot_budget: Some(0), max_attrs: 5, ..Default::default() }, true, true).unwrap());
    cs.push(
        jacoco_case(
            "jacoco cb = 50000",
            wrap("<line nr=\"1\" mi=\"0\" ci=\"0\" mb=\"7\" cb=\"50000\"/>"),
            Meta { slot_budget: Some(50007), max_attrs: 5, ..Default::default() },
            true,
            true,
        )
        .unwrap(),
    );
    let mut b = String::new();
    for i in 0..40 {
        b.push_str(&format!("<line nr=\"{}\" mi=\"0\" ci=\"0\" mb=\"1000\" cb=\"2000\"/>", i));
    }
    cs.push(jacoco_case("jacoco many lines each with 3000 branch slots", wrap(&b), Meta { slot_budget: Some(40 * 3000), max_attrs: 5, ..Default::default() }, true, true).unwrap());
    for (w, t) in [
        ("cb 2^64", "<line nr=\"1\" mi=\"0\" ci=\"0\" mb=\"0\" cb=\"18446744073709551616\"/>"),
        ("nr 2^32", "<line nr=\"4294967296\" mi=\"0\" ci=\"0\" mb=\"0\" cb=\"0\"/>"),
        ("ci 2^64-1", "<line nr=\"4294967295\" mi=\"0\" ci=\"18446744073709551615\" mb=\"0\" cb=\"0\"/>"),
    ] {
        cs.push(jacoco_case(&format!("jacoco huge numbers: {}", w), wrap(t), Meta { slot_budget: Some(0), max_attrs: 5, ..Default::default() }, true, true).unwrap());
    }
    let deep = 1500usize;
    let x = format!("<report><package name=\"p\">{}{}</package></report>", "<u>".repeat(deep), "</u>".repeat(deep)).into_bytes();
    cs.push(jacoco_case("jacoco unknown elements nested 1500 deep", x, Meta { slot_budget: Some(0), ..Default::default() }, true, true).unwrap());
    let longn: String = std::iter::repeat('n').take(5000).collect();
    let x = format!("<report><package name=\"{0}\"><class name=\"{0}\" sourcefilename=\"{0}\"><method name=\"{0}\" line=\"1\"></method></class></package></report>", longn).into_bytes();
    cs.push(jacoco_case("jacoco long names", x, Meta { slot_budget: Some(0), max_attrs: 2, ..Default::default() }, true, true).unwrap());
    // the package name is part of every file name of the package, the class name of every method name
    let pk: String = std::iter::repeat('p').take(300).collect();
    let mut b = String::new();
    for i in 0..40 {
        b.push_str(&format!("<sourcefile name=\"f{}.java\"></sourcefile>", i));
    }
    b.push_str(&format!("<class name=\"{}\" sourcefilename=\"A.java\">", pk));
    for i in 0..40 {
        b.push_str(&format!("<method name=\"m{}\" line=\"1\"></method>", i));
    }
    b.push_str("</class>");
    let x = format!("<report><package name=\"{}\">{}</package></report>", pk, b).into_bytes();
    cs.push(jacoco_case("jacoco long package and class name, many files and methods", x, Meta { slot_budget: Some(0), max_attrs: 2, ..Default::default() }, true, true).unwrap());
    for n in [40usize, 160] {
        cs.push(jacoco_case(&format!("jacoco element with {} attributes", n + 1), many_attrs(n), Meta { slot_budget: Some(0), max_attrs: n as u64 + 1, ..Default::default() }, true, true).unwrap());
    }
    cs
}


// ------------------------------------------------------------------------------------------------
// scaling families: the same shape at n, 2n, 4n, 8n

struct Fam {
    name: &'static str,
    kind: &'static str,
    /// n of the tie (the model runs n and 2n)
    small: usize,
    /// n of the scaling run (the real reader runs n, 2n, 4n, 8n)
    big: usize,
    /// the finding this family is the witness of, if any
    finding: Option<&'static str>,
}

const FAMILIES: &[Fam] = &[
    Fam { name: "lcov many DA records", kind: "lcov", small: 300, big: 25_000, finding: None },
    Fam { name: "lcov many sections", kind: "lcov", small: 60, big: 6_000, finding: None },
    Fam { name: "lcov FNDA block before FN block", kind: "lcov", small: 150, big: 7_500, finding: None },
    Fam { name: "lcov FNDA block, file ends there", kind: "lcov", small: 150, big: 15_000, finding: None },
    Fam { name: "lcov long names", kind: "lcov", small: 600, big: 100_000, finding: None },
    Fam { name: "lcov many BRDA records", kind: "lcov", small: 200, big: 20_000, finding: None },
    Fam { name: "gcov many lcount records", kind: "gcov", small: 300, big: 30_000, finding: None },
    Fam { name: "gcov many branch records on one line", kind: "gcov", small: 300, big: 30_000, finding: None },
    Fam { name: "gcov many functions", kind: "gcov", small: 200, big: 15_000, finding: None },
    Fam { name: "gcov long names", kind: "gcov", small: 600, big: 150_000, finding: None },
    Fam { name: "gcovjson many lines with branches", kind: "gcovjson", small: 60, big: 4_000, finding: None },
    Fam { name: "gcovjson many functions", kind: "gcovjson", small: 60, big: 3_000, finding: None },
    Fam { name: "gcovjson unknown member nested deep", kind: "gcovjson", small: 200, big: 100_000, finding: None },
    Fam { name: "gcovjson long names", kind: "gcovjson", small: 600, big: 150_000, finding: None },
    Fam { name: "gcovjson highly compressible", kind: "gcovjson", small: 100, big: 100_000, finding: Some("C14-gcov-json-gzip-amplification") },
    Fam { name: "jacoco many line elements", kind: "jacoco", small: 100, big: 7_000, finding: None },
    Fam { name: "jacoco many methods", kind: "jacoco", small: 60, big: 5_000, finding: None },
    Fam { name: "jacoco one element with many attributes", kind: "jacoco", small: 40, big: 3_000, finding: None },
    Fam { name: "jacoco unknown elements nested deep", kind: "jacoco", small: 200, big: 40_000, finding: None },
    Fam { name: "jacoco long package name, many source files", kind: "jacoco", small: 64, big: 500, finding: Some("C14-jacoco-name-prefix-amplification") },
];

fn fam_case(f: &Fam, n: usize, tie: bool) -> Case {
    let what = format!("family: {} (n = {})", f.name, n);
    let none = Meta { slot_budget: Some(0), ..Default::default() };
    let jline = |nr: u64, brs: usize| {
        J::Obj(vec![
            ("line_number".into(), J::Int(nr)),
            ("count".into(), J::Int(1)),
            ("unexecuted_block".into(), J::Bool(false)),
            ("branches".into(), J::Arr((0..brs).map(|_| J::Obj(vec![("count".into(), J::Int(1)), ("throw".into(), J::Bool(false)), ("fallthrough".into(), J::Bool(true))])).collect())),
        ])
    };
    let jfile = |nm: Vec<u8>, fns: Vec<J>, ls: Vec<J>| J::Obj(vec![("file".into(), J::Str(nm)), ("functions".into(), J::Arr(fns)), ("lines".into(), J::Arr(ls))]);
    let jdoc = |files: Vec<J>, extra: Option<J>| {
        let mut top = vec![
            ("format_version".to_string(), J::Str(b"1".to_vec())),
            ("gcc_version".to_string(), J::Str(b"9".to_vec())),
            ("data_file".to_string(), J::Str(b"d".to_vec())),
            ("files".to_string(), J::Arr(files)),
        ];
        if let Some(e) = extra {
            top.insert(1, ("unknown".to_string(), e));
        }
        J::Obj(top)
    };
    let json = |j: J| {
        let mut c = json_case(&what, &j, true);
        if !tie {
            c.model = String::new();
        }
        c
    };
    let xml = |body: String, max_attrs: u64, slots: u64| {
        jacoco_case(&what, body.into_bytes(), Meta { slot_budget: Some(slots), max_attrs, ..Default::default() }, true, tie).unwrap()
    };
    match f.name {
        "lcov many DA records" => {
            let mut d = b"SF:a\n".to_vec();
            for i in 0..n {
                d.extend_from_slice(format!("DA:{},1\n", i).as_bytes());
            }
            d.extend_from_slice(b"end_of_record\n");
            lcov_case(&what, d, none, true, tie)
        }
        "lcov many sections" => {
            let mut d = vec![];
            for i in 0..n {
                d.extend_from_slice(format!("SF:f{0}\nFNDA:1,g{0}\nFN:1,g{0}\nDA:{0},1\nBRDA:{0},0,1,1\nend_of_record\n", i).as_bytes());
            }
            lcov_case(&what, d, Meta { slot_budget: Some(2 * n as u64), max_no: Some(1), ..Default::default() }, true, tie)
        }
        "lcov FNDA block before FN block" | "lcov FNDA block, file ends there" => {
            let mut d = b"SF:a\n".to_vec();
            for i in 0..n {
                d.extend_from_slice(format!("FNDA:1,g{}\n", i).as_bytes());
            }
            if f.name == "lcov FNDA block before FN block" {
                for i in 0..n {
                    d.extend_from_slice(format!("FN:1,g{}\n", i).as_bytes());
                }
                d.extend_from_slice(b"end_of_record\n");
            }
            lcov_case(&what, d, none, true, tie)
        }
        "lcov long names" => {
            let mut d = b"SF:".to_vec();
            d.extend(std::iter::repeat(0xFFu8).take(n));
            d.extend_from_slice(b"\nFN:1,");
            d.extend(std::iter::repeat(b'f').take(n));
            d.extend_from_slice(b"\nend_of_record\n");
            lcov_case(&what, d, none, true, tie)
        }
        "lcov many BRDA records" => {
            let mut d = b"SF:a\n".to_vec();
            for i in 0..n {
                d.extend_from_slice(format!("BRDA:{},0,{},1\n", i / 4, i % 4).as_bytes());
            }
            d.extend_from_slice(b"end_of_record\n");
            lcov_case(&what, d, Meta { slot_budget: Some(n as u64 * 4), max_no: Some(3), ..Default::default() }, true, tie)
        }
        "gcov many lcount records" => {
            let mut d = b"file:a\n".to_vec();
            for i in 0..n {
                d.extend_from_slice(format!("lcount:{},1\n", i).as_bytes());
            }
            gcov_case(&what, d, true, tie)
        }
        "gcov many branch records on one line" => {
            let mut d = b"file:a\nlcount:1,1\n".to_vec();
            for _ in 0..n {
                d.extend_from_slice(b"branch:1,taken\n");
            }
            gcov_case(&what, d, true, tie)
        }
        "gcov many functions" => {
            let mut d = vec![];
            for i in 0..n {
                d.extend_from_slice(format!("file:f{0}\nfunction:1,1,g{0}\nlcount:{0},1\n", i).as_bytes());
            }
            gcov_case(&what, d, true, tie)
        }
        "gcov long names" => {
            let mut d = b"file:".to_vec();
            d.extend(std::iter::repeat(b'n').take(n));
            d.extend_from_slice(b"\nfunction:1,1,");
            d.extend(std::iter::repeat(b'f').take(n));
            d.extend_from_slice(b"\nlcount:1,1\n");
            gcov_case(&what, d, true, tie)
        }
        "gcovjson many lines with branches" => json(jdoc(vec![jfile(b"a".to_vec(), vec![], (0..n as u64).map(|i| jline(i, 2)).collect())], None)),
        "gcovjson many functions" => {
            let fns = (0..n)
                .map(|i| {
                    J::Obj(vec![
                        ("name".into(), J::Str(format!("_Z{}", i).into_bytes())),
                        ("demangled_name".into(), J::Str(format!("fn{}", i).into_bytes())),
                        ("start_line".into(), J::Int(i as u64)),
                        ("start_column".into(), J::Int(1)),
                        ("end_line".into(), J::Int(i as u64 + 1)),
                        ("end_column".into(), J::Int(2)),
                        ("blocks".into(), J::Int(3)),
                        ("blocks_executed".into(), J::Int(1)),
                        ("execution_count".into(), J::Int(i as u64 % 3)),
                    ])
                })
                .collect();
            json(jdoc(vec![jfile(b"a".to_vec(), fns, vec![jline(1, 0)])], None))
        }
        "gcovjson unknown member nested deep" => {
            if tie {
                json(jdoc(vec![jfile(b"a".to_vec(), vec![], vec![jline(1, 2)])], Some(nested(n))))
            } else {
                // the text directly: a value tree this deep must not be walked recursively here
                let mut c = json(jdoc(vec![jfile(b"a".to_vec(), vec![], vec![jline(1, 2)])], Some(J::Str(b"@".to_vec()))));
                let t = String::from_utf8(c.data).unwrap().replace("\"@\"", &format!("{}1{}", "[".repeat(n), "]".repeat(n)));
                c.data = t.into_bytes();
                c
            }
        }
        "gcovjson long names" => {
            let f1 = J::Obj(vec![
                ("name".into(), J::Str(b"x".to_vec())),
                ("demangled_name".into(), J::Str(std::iter::repeat(b'd').take(n).collect())),
                ("start_line".into(), J::Int(1)),
                ("start_column".into(), J::Int(1)),
                ("end_line".into(), J::Int(2)),
                ("end_column".into(), J::Int(2)),
                ("blocks".into(), J::Int(3)),
                ("blocks_executed".into(), J::Int(1)),
                ("execution_count".into(), J::Int(1)),
            ]);
            json(jdoc(vec![jfile(std::iter::repeat(b'n').take(n).collect(), vec![f1], vec![jline(1, 0)])], None))
        }
        "gcovjson highly compressible" => {
            // n identical positional lines `[1,null,0,false,[]]`: the text shrinks ~400 : 1 under gzip
            if tie {
                let l = J::Arr(vec![J::Int(1), J::Null, J::Int(0), J::Bool(false), J::Arr(vec![])]);
                json(jdoc(vec![jfile(b"a".to_vec(), vec![], (0..n).map(|_| l.clone()).collect())], None))
            } else {
                let mut t = b"{\"format_version\":\"1\",\"gcc_version\":\"9\",\"data_file\":\"d\",\"files\":[{\"file\":\"a\",\"functions\":[],\"lines\":[".to_vec();
                for i in 0..n {
                    if i > 0 {
                        t.push(b',');
                    }
                    t.extend_from_slice(b"[1,null,0,false,[]]");
                }
                t.extend_from_slice(b"]}]}");
                Case { kind: "gcovjson", what: what.clone(), data: t, model: String::new(), meta: Meta::default(), adversarial: true }
            }
        }
        "jacoco many line elements" => {
            let mut b = String::from("<report><package name=\"p\"><sourcefile name=\"A.java\">");
            for i in 0..n {
                b.push_str(&format!("<line nr=\"{}\" mi=\"0\" ci=\"1\" mb=\"1\" cb=\"1\"/>\n", i));
            }
            b.push_str("</sourcefile></package></report>");
            xml(b, 5, 2 * n as u64)
        }
        "jacoco many methods" => {
            let mut b = String::from("<report><package name=\"p\"><class name=\"p/A\" sourcefilename=\"A.java\">");
            for i in 0..n {
                b.push_str(&format!("<method name=\"m{}\" desc=\"()V\" line=\"{}\"><counter type=\"METHOD\" missed=\"0\" covered=\"1\"/></method>", i, i));
            }
            b.push_str("</class></package></report>");
            xml(b, 3, 0)
        }
        "jacoco one element with many attributes" => {
            let c = jacoco_case(&what, many_attrs(n), Meta { slot_budget: Some(0), max_attrs: n as u64 + 1, ..Default::default() }, true, tie).unwrap();
            c
        }
        "jacoco unknown elements nested deep" => xml(format!("<report><package name=\"p\">{}{}</package></report>", "<u>".repeat(n), "</u>".repeat(n)), 1, 0),
        _ => {
            // a package name of 40 n bytes and n source files: names = n x 40 n
            let pk: String = std::iter::repeat('p').take(40 * n).collect();
            let mut b = format!("<report><package name=\"{}\">", pk);
            for i in 0..n {
                b.push_str(&format!("<sourcefile name=\"f{}.java\"></sourcefile>", i));
            }
            b.push_str("</package></report>");
            xml(b, 1, 0)
        }
    }
}

/// what the reader is given: the compressed file for gcov JSON
fn input_len(c: &Case) -> u64 {
    if c.kind == "gcovjson" {
        gz(&c.data).len() as u64
    } else {
        c.data.len() as u64
    }
}

fn scaling(rep: &mut Report) {
    let factor = rep.budget(1, 2) as usize;
    // ---- the tie at n and 2n, and the cost counters of the model must double at most
    let mut tie_cases = vec![];
    for f in FAMILIES {
        tie_cases.push(fam_case(f, f.small, true));
        tie_cases.push(fam_case(f, 2 * f.small, true));
    }
    let obs = run_real(rep, &tie_cases, "textcost.fam");
    let reqs: Vec<String> = tie_cases.iter().map(|c| c.model.clone()).collect();
    let answers = run_model(&reqs, &rep.workdir, "textcost.fam");
    let model: BTreeMap<usize, String> = answers.iter().cloned().enumerate().collect();
    evaluate(rep, &tie_cases, &obs, &model);
    for (i, f) in FAMILIES.iter().enumerate() {
        let (a, b) = (kv(&answers[2 * i]), kv(&answers[2 * i + 1]));
        for key in ["next", "mapops", "keybytes", "copied", "grown", "reads", "lines", "pushed", "size", "convops", "attrs", "alloc"] {
            if !a.contains_key(key) {
                continue;
            }
            let (x, y) = (get(&a, key), get(&b, key));
            rep.count("textcost.family.counter_doubling_checked");
            // the input does not exactly double (decimal numbers get longer): allow the byte ratio + 25 %
            let (l1, l2) = (tie_cases[2 * i].data.len() as u64, tie_cases[2 * i + 1].data.len() as u64);
            if y * l1 * 4 > x * l2 * 5 + 64 * l1 * 4 {
                rep.fail("disagreement", None, format!("textcost: the cost counter {} of the cost view is not linear on the family {}: {} at n, {} at 2n", key, f.name, x, y), json!({"op": "textcost.family", "family": f.name, "n": answers[2 * i], "2n": answers[2 * i + 1]}));
            }
        }
    }
    // ---- the real readers at n, 2n, 4n, 8n: one child per case (peak RSS is per process)
    let mut base_rss = u64::MAX;
    let mut runs: Vec<(usize, Vec<(Case, Obs)>)> = vec![];
    for (i, f) in FAMILIES.iter().enumerate() {
        let mut v = vec![];
        for k in [1usize, 2, 4, 8] {
            let t0 = std::time::Instant::now();
            let c = fam_case(f, f.big * factor * k, false);
            let t1 = t0.elapsed();
            let o = run_real(rep, &[c.clone()], "textcost.scale").remove(0);
            if std::env::var("TEXTCOST_TRACE").is_ok() {
                eprintln!("{} k={} gen {:?} total {:?} real {}us", f.name, k, t1, t0.elapsed(), o.micros);
            }
            base_rss = base_rss.min(get(&o.sizes, "rsskb"));
            v.push((c, o));
        }
        runs.push((i, v));
    }
    for (i, v) in &runs {
        let f = &FAMILIES[*i];
        let cases: Vec<Case> = v.iter().map(|x| x.0.clone()).collect();
        let obs: Vec<Obs> = v.iter().map(|x| x.1.clone()).collect();
        // outcome and the per-case size oracles (no tie at this size)
        let nofail_names = f.finding == Some("C14-jacoco-name-prefix-amplification");
        for (c, o) in v {
            rep.case(&format!("textcost scale {} {}", c.what, c.data.len()), true);
            rep.count(&format!("textcost.scale.{}", c.kind));
            if !(o.outcome == "ok" || o.outcome.starts_with("err")) {
                // the two amplification families end in an allocation failure when they are scaled up
                // (whatever form the exhaustion takes on the machine at hand: allocation failure,
                // the child's address-space limit, the time limit, a kill by the kernel)
                let fd = f.finding;
                rep.fail("oracle", fd, format!("textcost: the {} reader did not return a value ({}): {}", c.kind, c.what, o.outcome), case_json(c, o, ""));
            } else if let Some(w) = size_oracle(c, o) {
                if !(nofail_names && w.starts_with("NAMES")) {
                    rep.fail("oracle", None, format!("textcost: the result of the {} reader is not linear in its input ({}): {}", c.kind, c.what, w), case_json(c, o, ""));
                }
            }
        }
        let (c1, o1) = (&cases[0], &obs[0]);
        let (c8, o8) = (&cases[3], &obs[3]);
        if !(o1.outcome == o8.outcome && (o8.outcome == "ok" || o8.outcome.starts_with("err"))) {
            continue;
        }
        let (b1, b8) = (input_len(c1).max(1), input_len(c8).max(1));
        let line = format!(
            "textcost scaling: {}: bytes {} -> {}, us {} -> {}, rss kB {} -> {}, entries {} -> {}, slots {} -> {}, names {} -> {}",
            f.name, b1, b8, o1.micros, o8.micros, get(&o1.sizes, "rsskb"), get(&o8.sizes, "rsskb"),
            get(&o1.sizes, "files") + get(&o1.sizes, "entries"), get(&o8.sizes, "files") + get(&o8.sizes, "entries"),
            get(&o1.sizes, "slots"), get(&o8.sizes, "slots"), get(&o1.sizes, "names"), get(&o8.sizes, "names")
        );
        rep.notes.push(line.clone());
        let case = json!({"op": "textcost.family", "family": f.name, "n": f.big * factor, "measured": line});
        // 1. the result grows with the input: 8 x the input, at most 8 x the result (+ slack)
        for key in ["files", "entries", "slots", "names"] {
            let (x, y) = (get(&o1.sizes, key), get(&o8.sizes, key));
            if y * b1 * 4 > x * b8 * 5 + 1000 * b1 * 4 {
                let fd = if key == "names" { f.finding.filter(|x| *x == "C14-jacoco-name-prefix-amplification") } else { None };
                rep.fail("oracle", fd, format!("textcost: the {} of the result grow faster than the input on the family {}: {} at n, {} at 8n", key, f.name, x, y), case.clone());
            }
        }
        // 2. time: t(8n)/t(n) <= 4 x bytes(8n)/bytes(n), judged only above an absolute floor
        let ratio_x100 = o8.micros * 100 / o1.micros.max(1);
        let key = format!("textcost.scaling.{}.t8_over_t1_x100.max", f.kind);
        if ratio_x100 > *rep.distribution.get(&key).unwrap_or(&0) {
            rep.distribution.insert(key, ratio_x100);
        }
        // a measurement that fails is taken again: the verdict needs both to fail
        let time_fails = |a: &Obs, b: &Obs| b.micros > 300_000 && b.micros * b1 > 4 * a.micros.max(1) * b8;
        let confirmed = time_fails(o1, o8) && {
            let again = run_real(rep, &[c1.clone(), c8.clone()], "textcost.scale.again");
            rep.count("textcost.scaling.time_remeasured");
            time_fails(&again[0], &again[1])
        };
        if confirmed {
            // copying the amplified names takes the time it takes
            let fd = f.finding.filter(|x| *x == "C14-jacoco-name-prefix-amplification");
            rep.fail("oracle", fd, format!("textcost: the time of the {} reader grows faster than its input on the family {}: {} us for {} bytes, {} us for {} bytes", f.kind, f.name, o1.micros, b1, o8.micros, b8), case.clone());
        }
        // 3. memory: peak RSS above the smallest child <= 16 MiB + 200 bytes per input byte
        let extra = get(&o8.sizes, "rsskb").saturating_sub(base_rss) * 1024;
        if extra > (16 << 20) + 200 * b8 {
            rep.fail("oracle", f.finding, format!("textcost: the memory of the {} reader is not a modest multiple of its input on the family {}: {} MiB above the baseline for {} input bytes", f.kind, f.name, extra >> 20, b8), case.clone());
        }
    }
}

// ------------------------------------------------------------------------------------------------

fn case_json(c: &Case, o: &Obs, model: &str) -> Value {
    let small = c.data.len() <= 20_000;
    json!({"op": format!("textcost.{}", c.kind), "kind": c.kind, "what": c.what, "bytes": c.data.len(),
           "data_hex": if small { hex(&c.data) } else { String::new() },
           "data_head": String::from_utf8_lossy(&c.data[..c.data.len().min(160)]),
           "model_req": if small { c.model.clone() } else { String::new() },
           "impl": format!("{} {:?} {}us", o.outcome, o.sizes, o.micros), "model": model.chars().take(400).collect::<String>()})
}

fn get(m: &BTreeMap<String, u64>, k: &str) -> u64 {
    *m.get(k).unwrap_or(&0)
}

/// the size clauses of Props/C14Text.lean restated on the real output
fn size_oracle(c: &Case, o: &Obs) -> Option<String> {
    if o.outcome != "ok" {
        return None;
    }
    let s = &o.sizes;
    let (files, entries, slots, names, maxvec) = (get(s, "files"), get(s, "entries"), get(s, "slots"), get(s, "names"), get(s, "maxvec"));
    let n = c.data.len() as u64;
    match c.kind {
        "lcov" => {
            let eols = c.data.iter().filter(|&&b| b == b'\n' || b == b'\r').count() as u64;
            if files + entries > eols + 1 {
                return Some(format!("{} files + {} entries from {} lines", files, entries, eols + 1));
            }
            if names > 3 * n {
                return Some(format!("{} name bytes from {} input bytes", names, n));
            }
            if let Some(b) = c.meta.slot_budget {
                if slots > b {
                    return Some(format!("{} branch slots, the BRDA records ask for at most {}", slots, b));
                }
                if maxvec > c.meta.max_no.map(|m| m + 1).unwrap_or(0) {
                    return Some(format!("a branch vector of {} slots, largest branch number {:?}", maxvec, c.meta.max_no));
                }
            }
        }
        "gcov" => {
            let lf = c.data.iter().filter(|&&b| b == b'\n').count() as u64;
            if files + entries > lf + 1 || slots > lf + 1 || names > 3 * n {
                return Some(format!("{} files + {} entries, {} slots, {} name bytes from {} lines / {} bytes", files, entries, slots, names, lf + 1, n));
            }
        }
        "gcovjson" => {
            if files + entries + slots + names > 4 * n {
                return Some(format!("{} files + {} entries + {} slots + {} name bytes from {} bytes of JSON", files, entries, slots, names, n));
            }
        }
        _ => {
            let tags = c.data.iter().filter(|&&b| b == b'<').count() as u64;
            if names > 100 * n {
                return Some(format!("NAMES {} name bytes from {} input bytes", names, n));
            }
            if files + entries > 4 * tags {
                return Some(format!("{} files + {} entries from {} tags", files, entries, tags));
            }
            if let Some(b) = c.meta.slot_budget {
                if slots > b {
                    return Some(format!("{} branch slots, the line elements ask for {}", slots, b));
                }
            }
        }
    }
    None
}

fn median(v: &mut Vec<u64>) -> u64 {
    if v.is_empty() {
        return 0;
    }
    v.sort();
    v[v.len() / 2]
}

fn evaluate(rep: &mut Report, cases: &[Case], obs: &[Obs], model: &BTreeMap<usize, String>) {
    // base of the time oracle: ns per byte of ordinary documents of at least 20 kB
    let mut base: BTreeMap<&str, u64> = BTreeMap::new();
    for k in KINDS {
        let mut v: Vec<u64> = cases
            .iter()
            .zip(obs)
            .filter(|(c, o)| c.kind == k && !c.adversarial && c.data.len() >= 20_000 && o.outcome == "ok")
            .map(|(c, o)| o.micros * 1000 / c.data.len() as u64)
            .collect();
        let m = median(&mut v).max(1);
        base.insert(k, m);
        rep.notes.push(format!("textcost: {} ordinary documents: median {} ns/byte over {} documents of >= 20 kB", k, m, v.len()));
    }
    let mut shown = 0;
    for (i, (c, o)) in cases.iter().zip(obs).enumerate() {
        let m = model.get(&i).cloned().unwrap_or_default();
        rep.case(&format!("textcost {} {} {}", c.kind, c.data.len(), fnv64(&c.data)), true);
        rep.count(&format!("textcost.{}.{}", c.kind, o.outcome.split(' ').take(2).collect::<Vec<_>>().join("_")));
        if c.adversarial {
            rep.count(&format!("textcost.{}.adversarial", c.kind));
        }
        if shown < 2 && c.adversarial && !m.is_empty() {
            rep.sample(json!({"stream": "textcost", "what": c.what, "bytes": c.data.len(), "impl": format!("{} {:?}", o.outcome, o.sizes), "model": m.chars().take(300).collect::<String>(), "us": o.micros}));
            shown += 1;
        }
        // 1. the reader returned a value
        if !(o.outcome == "ok" || o.outcome.starts_with("err")) {
            rep.fail("oracle", None, format!("textcost: the {} reader did not return a value ({}): {}", c.kind, c.what, o.outcome), case_json(c, o, &m));
            continue;
        }
        // 2. sizes: independent oracle
        if let Some(w) = size_oracle(c, o) {
            // the package name is repeated in every file name of the package, the class name in every method name
            let finding = if c.kind == "jacoco" && w.starts_with("NAMES") { Some("C14-jacoco-name-prefix-amplification") } else { None };
            rep.fail("oracle", finding, format!("textcost: the result of the {} reader is not linear in its input ({}): {}", c.kind, c.what, w), case_json(c, o, &m));
            continue;
        }
        // 3. time: coarse, against the ordinary documents of the same reader
        let nspb = o.micros * 1000 / (c.data.len() as u64).max(1);
        let b = *base.get(c.kind).unwrap_or(&1);
        if c.adversarial && c.data.len() >= 20_000 {
            let key = format!("textcost.{}.time_ratio_x100.max", c.kind);
            let r = nspb * 100 / b;
            let cur = *rep.distribution.get(&key).unwrap_or(&0);
            if r > cur {
                rep.distribution.insert(key, r);
            }
            rep.notes.push(format!("textcost: {} ({} bytes): {} us, {} ns/byte = {:.1} x ordinary", c.what, c.data.len(), o.micros, nspb, nspb as f64 / b as f64));
        }
        if o.micros > 400_000 && nspb > 100 * b {
            rep.fail(
                "oracle",
                None,
                format!("textcost: the {} reader needs {} ms for {} bytes ({}): {} ns/byte, ordinary documents {} ns/byte", c.kind, o.micros / 1000, c.data.len(), c.what, nspb, b),
                case_json(c, o, &m),
            );
            continue;
        }
        // 4. the tie
        if m.is_empty() {
            continue;
        }
        rep.count(&format!("textcost.{}.tied", c.kind));
        if c.meta.repeats {
            rep.count(&format!("textcost.{}.tied_with_repeated_key", c.kind));
        }
        if c.kind == "gcov" && std::str::from_utf8(&c.data).is_err() {
            rep.count("textcost.gcov.tied_with_invalid_utf8");
        }
        let mc = class_of(&m);
        let ms = kv(&m);
        let mut diff: Option<String> = None;
        if mc != o.outcome {
            diff = Some(format!("outcome {} vs {}", o.outcome, mc));
        } else if mc == "ok" {
            let keys: &[&str] = if c.kind == "jacoco" { &["files", "entries", "slots", "names", "maxvec"] } else { &["files", "entries", "slots", "names", "maxcount", "maxvec"] };
            for k in keys {
                if get(&ms, k) != get(&o.sizes, k) {
                    diff = Some(format!("{}: real {} model {}", k, get(&o.sizes, k), get(&ms, k)));
                    break;
                }
            }
        }
        if let Some(d) = diff {
            rep.disagreements_checked += 1;
            rep.fail("disagreement", None, format!("textcost: the {} reader and its cost view differ ({}): {}", c.kind, c.what, d), case_json(c, o, &m));
            continue;
        }
        // 5. the cost counters against what the harness knows about the input
        let bad = match c.kind {
            "lcov" => {
                let eols = c.data.iter().filter(|&&b| b == b'\n' || b == b'\r').count() as u64;
                (mc == "ok" && get(&ms, "next") != c.data.len() as u64)
                    || get(&ms, "next") > c.data.len() as u64
                    || get(&ms, "mapops") > 3 * (eols + 1)
                    || get(&ms, "eols") != eols
                    || get(&ms, "grown") < get(&ms, "slots")
                    || (c.meta.slot_budget.is_some() && mc == "ok" && m.contains("maxno=") && !m.contains("maxno=-") && Some(get(&ms, "maxno")) != c.meta.max_no)
            }
            "gcov" => (mc == "ok" && get(&ms, "reads") != c.data.len() as u64) || get(&ms, "mapops") > get(&ms, "lines") || get(&ms, "pushed") < get(&ms, "slots"),
            "gcovjson" => mc == "ok" && (get(&ms, "size") > 2 * c.data.len() as u64 || get(&ms, "convops") > 2 * get(&ms, "size")),
            _ => {
                let n = c.meta.max_attrs;
                get(&ms, "alloc") < get(&ms, "slots")
                    || get(&ms, "reads") > 2 * get(&ms, "events") + 1
                    || get(&ms, "attrs") > 2 * get(&ms, "attrcount")
                    || (c.what.starts_with("jacoco element with") && get(&ms, "attrs") != n)
            }
        };
        if bad {
            rep.fail("disagreement", None, format!("textcost: the cost counters of the {} cost view contradict the input ({})", c.kind, c.what), case_json(c, o, &m));
        }
    }
}

pub fn run(rep: &mut Report) {
    rep.rule.push_str(
        "; textcost: generated lcov / gcov / gcov-JSON / JaCoCo documents, their truncations and 1-3 point byte mutations, \
         adversarial shapes (many tiny records, long names, huge numbers, deep nesting, many attributes, large branch numbers) \
         tied size for size to the Lean cost view, and large adversarial shapes on the real code only (sizes and ns/byte \
         against ordinary documents)",
    );
    let mut rng = Rng::new(rep.seed ^ 0xC14_7E87);
    let cases = build_cases(rep, &mut rng);
    let obs = run_real(rep, &cases, "textcost");
    let mut reqs = vec![];
    let mut idx = vec![];
    for (i, c) in cases.iter().enumerate() {
        if !c.model.is_empty() {
            reqs.push(c.model.clone());
            idx.push(i);
        }
    }
    let answers = run_model(&reqs, &rep.workdir, "textcost");
    let model: BTreeMap<usize, String> = idx.into_iter().zip(answers).collect();
    evaluate(rep, &cases, &obs, &model);
    scaling(rep);
}

pub fn replay(rep: &mut Report, case: &Value) {
    // `{"op": "textcost.all"}`: the whole stream, alone (development aid)
    if case["op"].as_str() == Some("textcost.all") {
        return run(rep);
    }
    // a scaling family is rebuilt from its name
    if case["op"].as_str() == Some("textcost.family") {
        return scaling(rep);
    }
    let kind: &'static str = match case["kind"].as_str().unwrap_or("") {
        "lcov" => "lcov",
        "gcov" => "gcov",
        "gcovjson" => "gcovjson",
        _ => "jacoco",
    };
    let data = unhex(case["data_hex"].as_str().unwrap_or(""));
    let what = case["what"].as_str().unwrap_or("replay").to_string();
    let mut meta = Meta::default();
    if what.contains("attributes") {
        meta.max_attrs = 100_000;
    }
    // a case too large to be stored: rebuild the quadratic family from its description
    let data = if data.is_empty() && what.starts_with("jacoco scale: element with") { many_attrs(24_000) } else { data };
    let c = Case { kind, what, data, model: case["model_req"].as_str().unwrap_or("").to_string(), meta, adversarial: true };
    let obs = run_real(rep, &[c.clone()], "textcost.replay");
    let mut model = BTreeMap::new();
    if !c.model.is_empty() {
        model.insert(0usize, run_model(&[c.model.clone()], &rep.workdir, "textcost.replay").remove(0));
    }
    // the time oracle needs a base: a replayed case is judged against 50 ns/byte
    let o = &obs[0];
    let nspb = o.micros * 1000 / (c.data.len() as u64).max(1);
    if o.micros > 400_000 && nspb > 5000 {
        rep.case(&hex(&c.data[..c.data.len().min(64)]), true);
        rep.fail("oracle", None,
            format!("textcost replay: {} ms for {} bytes", o.micros / 1000, c.data.len()), case.clone());
        return;
    }
    evaluate(rep, &[c], &obs, &model);
}
