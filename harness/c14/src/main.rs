//! C14 — malformed input is rejected with an error, never a crash, hang or memory blow-up.
//! The quantifier text executed literally: every (sampled, on quick) prefix of every corpus file,
//! single 32-bit-word substitutions by boundary values in gcno/gcda, single-token substitutions in
//! text inputs, random multi-point corruption. Every case runs in a child process with an
//! address-space limit and a wall-clock limit proportional to the batch; the outcome must be a
//! result or an error. lcov cases are also tied to the Lean byte machine; a truncated gcda must
//! give an error or the result of one of its record prefixes.
use corrlib::lcov::show_outcome;
use corrlib::*;
use grcov::{parse_gcov, parse_gcov_gz, parse_jacoco_xml_report, parse_lcov, Gcno};
use serde_json::json;
use std::io::{BufReader, Cursor, Write};
use std::path::{Path, PathBuf};
use std::process::Command;

mod gcnodepth;
mod gcnosafe;
mod textcost;
mod clinames;

const KINDS: [&str; 7] = ["lcov", "jacoco", "gcovtext", "gcovjson", "gcno", "gcda", "gcno2m"];

#[derive(Clone)]
struct Case {
    kind: &'static str, // lcov | gcovtext | gcovjson | jacoco | gcno | gcda
    what: String,       // how it was derived
    data: Vec<u8>,
    aux: Vec<u8>, // for gcda cases: the (valid) gcno; for gcno cases: a valid gcda
}

fn outcome_of(c: &Case, tmp: &Path) -> String {
    match c.kind {
        "lcov" => {
            let b = c.data.clone();
            show_outcome(&guarded(move || parse_lcov(b, true)))
        }
        "jacoco" => {
            let b = c.data.clone();
            let r = guarded(move || parse_jacoco_xml_report(BufReader::new(Cursor::new(b))));
            kind_only(&show_outcome(&r))
        }
        "gcovtext" => {
            let p = tmp.join("x.gcov");
            std::fs::write(&p, &c.data).unwrap();
            kind_only(&show_outcome(&guarded(move || parse_gcov(&p))))
        }
        "gcovjson" => {
            let p = tmp.join("x.gcov.json.gz");
            std::fs::write(&p, &c.data).unwrap();
            kind_only(&show_outcome(&guarded(move || parse_gcov_gz(&p))))
        }
        "gcno" => {
            let (g, d) = (c.data.clone(), c.aux.clone());
            let r = guarded(move || Gcno::compute("stem", g, vec![d], true));
            match r {
                Ok(Ok(v)) => format!("ok {}", show_results(&v)),
                Ok(Err(_)) => "err Reader".into(),
                Err(p) => format!("panic {}", p),
            }
        }
        "gcda" => {
            let (g, d) = (c.aux.clone(), c.data.clone());
            let r = guarded(move || Gcno::compute("stem", g, vec![d], true));
            match r {
                Ok(Ok(v)) => format!("ok {}", show_results(&v)),
                Ok(Err(_)) => "err Reader".into(),
                Err(p) => format!("panic {}", p),
            }
        }
        "gcno2m" => gcnodepth::outcome_2m(c.data.clone(), c.aux.clone()),
        _ => "bad-kind".into(),
    }
}

/// keep `ok`/`err Kind`/`panic <site>`; drop result payloads that the other checks compare
fn kind_only(s: &str) -> String {
    if s.starts_with("ok") {
        "ok".into()
    } else if s == "panic" {
        let site = corrlib::lcov::LAST_PANIC_SITE.with(|c| c.borrow().clone());
        format!("panic {}", site)
    } else {
        s.to_string()
    }
}

// ------------------------------------------------------------------------------------------------
// child mode: `c14 --child <cases file> <out file>`; one line per case: kind hex(data) hex(aux)
fn child(cases: &str, out: &str) {
    unsafe {
        let lim = libc::rlimit { rlim_cur: 2 << 30, rlim_max: 2 << 30 };
        libc::setrlimit(libc::RLIMIT_AS, &lim);
    }
    install_panic_hook();
    let tmp = PathBuf::from(format!("{}.tmp", out));
    std::fs::create_dir_all(&tmp).unwrap();
    let mut rd = BufReader::new(std::fs::File::open(cases).unwrap());
    let mut f = std::fs::OpenOptions::new().create(true).append(true).open(out).unwrap();
    let mut i = 0usize;
    loop {
        use std::io::Read;
        let mut k = [0u8; 1];
        if rd.read_exact(&mut k).is_err() {
            break;
        }
        let mut read_blob = |rd: &mut BufReader<std::fs::File>| -> Vec<u8> {
            let mut l = [0u8; 4];
            rd.read_exact(&mut l).unwrap();
            let mut v = vec![0u8; u32::from_le_bytes(l) as usize];
            rd.read_exact(&mut v).unwrap();
            v
        };
        let data = read_blob(&mut rd);
        let aux = read_blob(&mut rd);
        let kind: &'static str = KINDS[k[0] as usize];
        let c = Case { kind, what: String::new(), data, aux };
        // progress marker first, so that a crash or a timeout is attributed to this case
        writeln!(f, "BEGIN {}", i).unwrap();
        f.flush().unwrap();
        // CPU time of this thread (not wall time: the limit below must not depend on the machine's load)
        let t0 = thread_cpu_millis();
        let o = outcome_of(&c, &tmp);
        let o = if c.kind == "lcov" && o == "panic" {
            format!("panic {}", corrlib::lcov::LAST_PANIC_SITE.with(|c| c.borrow().clone()))
        } else {
            o
        };
        writeln!(f, "END {} {} {}", i, thread_cpu_millis().saturating_sub(t0), o).unwrap();
        i += 1;
    }
    let _ = std::fs::remove_dir_all(&tmp);
}

/// run a batch in a child; returns per-case outcomes ("timeout"/"crash" for the case the child died in)
fn run_batch(rep: &Report, cases: &[Case], tag: &str) -> Vec<(String, u128)> {
    let mut out: Vec<(String, u128)> = vec![(String::new(), 0); cases.len()];
    let mut start = 0usize;
    let mut round = 0;
    while start < cases.len() {
        let cf = rep.workdir.join(format!("{}.{}.cases", tag, round));
        let of = rep.workdir.join(format!("{}.{}.out", tag, round));
        let _ = std::fs::remove_file(&of);
        {
            let mut f = std::io::BufWriter::new(std::fs::File::create(&cf).unwrap());
            for c in &cases[start..] {
                let k = KINDS.iter().position(|x| *x == c.kind).unwrap() as u8;
                f.write_all(&[k]).unwrap();
                f.write_all(&(c.data.len() as u32).to_le_bytes()).unwrap();
                f.write_all(&c.data).unwrap();
                f.write_all(&(c.aux.len() as u32).to_le_bytes()).unwrap();
                f.write_all(&c.aux).unwrap();
            }
        }
        let exe = std::env::current_exe().unwrap();
        let limit = std::time::Duration::from_millis(20_000 + 50 * (cases.len() - start) as u64);
        let mut child = Command::new(exe).arg("--child").arg(&cf).arg(&of).spawn().unwrap();
        let t0 = std::time::Instant::now();
        let mut timed_out = false;
        loop {
            match child.try_wait() {
                Ok(Some(_)) => break,
                Ok(None) => {
                    if t0.elapsed() > limit {
                        let _ = child.kill();
                        let _ = child.wait();
                        timed_out = true;
                        break;
                    }
                    std::thread::sleep(std::time::Duration::from_millis(5));
                }
                Err(_) => break,
            }
        }
        let text = std::fs::read_to_string(&of).unwrap_or_default();
        let mut last_begin: Option<usize> = None;
        let mut done = 0usize;
        for l in text.lines() {
            if let Some(r) = l.strip_prefix("BEGIN ") {
                last_begin = r.parse().ok();
            } else if let Some(r) = l.strip_prefix("END ") {
                let p: Vec<&str> = r.splitn(3, ' ').collect();
                let i: usize = p[0].parse().unwrap();
                out[start + i] = (p[2].to_string(), p[1].parse().unwrap_or(0));
                done = i + 1;
                last_begin = None;
            }
        }
        if let Some(i) = last_begin {
            out[start + i] = (if timed_out { "timeout".into() } else { "crash (abort, OOM or stack overflow)".into() }, 0);
            start += i + 1;
        } else {
            start += done.max(1);
            if done == 0 {
                break;
            }
        }
        round += 1;
        let _ = std::fs::remove_file(&cf);
    }
    out
}

// ------------------------------------------------------------------------------------------------
fn corpus() -> Vec<Case> {
    let mut v = vec![];
    // text corpus files are cut to their first ~6 kB (at a line end): the derived cases are
    // quadratic in the file size
    let t = |p: &str| {
        std::fs::read(format!("/repo/test/{}", p)).ok().map(|b| {
            let textual = !(p.ends_with(".gcno") || p.ends_with(".gcda") || p.ends_with(".gz"));
            if textual && b.len() > 6000 {
                let cut = b[..6000].iter().rposition(|&c| c == b'\n').map(|i| i + 1).unwrap_or(6000);
                b[..cut].to_vec()
            } else {
                b
            }
        })
    };
    for f in ["prova.info", "prova2.info", "prova_fn_with_commas.info", "empty_line.info", "invalid_DA_record.info", "relative_path/relative_path.info"] {
        if let Some(b) = t(f) {
            v.push(Case { kind: "lcov", what: f.into(), data: b, aux: vec![] });
        }
    }
    for f in ["jacoco/basic-report.xml", "jacoco/inner-classes.xml", "jacoco/multiple-top-level-classes.xml", "jacoco/kotlin-jacoco-report.xml"] {
        if let Some(b) = t(f) {
            v.push(Case { kind: "jacoco", what: f.into(), data: b, aux: vec![] });
        }
    }
    for f in ["prova.gcov", "negative_counts.gcov", "64bit_count.gcov", "intermediate_with_branches.gcov", "rust/generics_with_two_parameters_intermediate.gcov"] {
        if let Some(b) = t(f) {
            v.push(Case { kind: "gcovtext", what: f.into(), data: b, aux: vec![] });
        }
    }
    if let Some(b) = t("mozillavpn_serverconnection.gcno.gcov.json.gz") {
        v.push(Case { kind: "gcovjson", what: "mozillavpn_serverconnection.gcno.gcov.json.gz".into(), data: b, aux: vec![] });
    }
    for stem in ["llvm/file", "llvm/file_branch", "llvm/reader", "reader_gcc-7", "reader_gcc-8", "reader_gcc-10"] {
        if let (Some(g), Some(d)) = (t(&format!("{}.gcno", stem)), t(&format!("{}.gcda", stem))) {
            v.push(Case { kind: "gcno", what: format!("{}.gcno", stem), data: g.clone(), aux: d.clone() });
            v.push(Case { kind: "gcda", what: format!("{}.gcda", stem), data: d, aux: g });
        }
    }
    v
}

const TEXT_TOKENS: &[&str] = &["", "0", "-1", "4294967295", "4294967296", "18446744073709551615", "18446744073709551616",
    "99999999999999999999999999", "e", "end_of_record", "SF:", "\n", ",", ":", "-", "\u{0}", "<", ">", "\"", "&", "nottaken", "file", "lcount"];
const WORDS: &[u32] = &[
    0, 1, 2, 0x7fff_ffff, 0x8000_0000, 0xffff_ffff, 0xffff_fffe,
    // record tags: a word replaced by a tag makes a record appear where none belongs
    0x0100_0000, 0x0141_0000, 0x0143_0000, 0x0145_0000, 0x01a1_0000, 0xa100_0000, 0xa300_0000,
];

fn derive(rng: &mut Rng, base: &Case, budget: usize, exhaustive: bool) -> Vec<Case> {
    let mut out = vec![];
    let n = base.data.len();
    let mk = |what: String, data: Vec<u8>| Case { kind: base.kind, what, data, aux: base.aux.clone() };
    // prefixes
    let stride = if exhaustive { 1 } else { (n / (budget / 3).max(1)).max(1) };
    let mut k = 0;
    while k <= n {
        out.push(mk(format!("{} truncated at {}", base.what, k), base.data[..k].to_vec()));
        k += if exhaustive { 1 } else { 1 + rng.below(2 * stride as u64) as usize };
    }
    let binary = base.kind == "gcno" || base.kind == "gcda";
    if binary {
        let words = n / 4;
        let wstride = if exhaustive { 1 } else { (words * WORDS.len() / (budget / 3).max(1)).max(1) };
        let mut w = 0;
        while w < words {
            let orig = u32::from_le_bytes(base.data[4 * w..4 * w + 4].try_into().unwrap());
            for &val in WORDS.iter().chain([orig.wrapping_add(1), orig.wrapping_sub(1)].iter()) {
                if !exhaustive && rng.below(wstride as u64) != 0 {
                    continue;
                }
                // a huge block/edge count is an allocation request: keep the probe below the AS limit
                let mut d = base.data.clone();
                d[4 * w..4 * w + 4].copy_from_slice(&val.to_le_bytes());
                out.push(mk(format!("{} word {} := {:#x}", base.what, w, val), d));
            }
            w += 1;
        }
    } else if base.kind != "gcovjson" {
        // token substitution
        let mut toks: Vec<Vec<u8>> = vec![];
        let mut cur = vec![];
        for &c in &base.data {
            if c == b',' || c == b':' || c == b'\n' || c == b'"' || c == b'=' || c == b' ' {
                toks.push(std::mem::take(&mut cur));
                toks.push(vec![c]);
            } else {
                cur.push(c);
            }
        }
        toks.push(cur);
        let total = toks.len() * TEXT_TOKENS.len();
        let tstride = if exhaustive { 1 } else { (total / (budget / 3).max(1)).max(1) };
        for i in 0..toks.len() {
            for t in TEXT_TOKENS {
                if !exhaustive && rng.below(tstride as u64) != 0 {
                    continue;
                }
                let mut tt = toks.clone();
                tt[i] = t.as_bytes().to_vec();
                out.push(mk(format!("{} token {} := {:?}", base.what, i, t), tt.concat()));
            }
        }
    }
    // random multi-point corruption
    for r in 0..(budget / 6).max(4) {
        let mut d = base.data.clone();
        for _ in 0..rng.range(2, 6) {
            if d.is_empty() {
                break;
            }
            let i = rng.below(d.len() as u64) as usize;
            match rng.below(4) {
                0 => d[i] = rng.below(256) as u8,
                1 => {
                    d.remove(i);
                }
                2 => d.insert(i, rng.below(256) as u8),
                _ => {
                    let j = rng.below(d.len() as u64) as usize;
                    d.swap(i, j);
                }
            }
        }
        out.push(mk(format!("{} random corruption #{}", base.what, r), d));
    }
    out
}

/// gcda record boundaries (tag, length, data): positions at which a record ends
fn gcda_boundaries(d: &[u8]) -> Vec<usize> {
    let mut v = vec![];
    let mut pos = 12; // magic, version, stamp
    if d.len() < 12 {
        return v;
    }
    v.push(pos);
    while pos + 8 <= d.len() {
        let len = u32::from_le_bytes(d[pos + 4..pos + 8].try_into().unwrap()) as usize;
        let tag = u32::from_le_bytes(d[pos..pos + 4].try_into().unwrap());
        if tag == 0 {
            break;
        }
        pos += 8 + 4 * len;
        if pos > d.len() {
            break;
        }
        v.push(pos);
    }
    v
}

/// some BRDA record asks for a branch slot beyond 10^7
fn huge_brda_branch(d: &[u8]) -> bool {
    String::from_utf8_lossy(d).lines().any(|l| {
        l.strip_prefix("BRDA:")
            .and_then(|r| {
                r.split(',').nth(2).map(|b| {
                    let digits: String = b.chars().take_while(|c| c.is_ascii_digit()).collect();
                    digits.parse::<u64>().map(|n| n > 10_000_000).unwrap_or(false)
                })
            })
            .unwrap_or(false)
    })
}

/// some <line> has a cb/mb counter above 10^7
fn huge_jacoco_counter(d: &[u8]) -> bool {
    let t = String::from_utf8_lossy(d);
    for key in ["cb=\"", "mb=\""] {
        let mut rest: &str = &t;
        while let Some(i) = rest.find(key) {
            rest = &rest[i + key.len()..];
            let digits: String = rest.chars().take_while(|c| c.is_ascii_digit()).collect();
            if digits.len() > 20 || digits.parse::<u128>().map(|n| n > 10_000_000).unwrap_or(false) {
                return true;
            }
        }
    }
    false
}


/// review item 31: a real arithmetic-overflow panic of the gcno/gcda reader is the recorded
/// finding C14-gcno-counter-overflow only if it is an ADD overflow and the Lean model of
/// `Gcno::compute` crashes at its `overflow` site (the u64 counter sums) on the same bytes; any
/// other overflow panic (a subtraction, a multiplication, an index computation) is a new defect
pub fn counter_overflow_confirmed(rep: &mut Report, panic_text: &str, gcno: &[u8], gcdas: &[Vec<u8>]) -> bool {
    if !(panic_text.contains("reader.rs") && panic_text.contains("attempt to add with overflow")) {
        rep.count("overflow_matcher.not_an_add_overflow_in_reader");
        return false;
    }
    let tok = |b: &[u8]| if b.is_empty() { "-".to_string() } else { hex(b) };
    let mut req = format!("c14.gcno.crashsite 1 {}", tok(gcno));
    for d in gcdas {
        req.push(' ');
        req.push_str(&tok(d));
    }
    let a = run_model(&[req], &rep.workdir, "c14crashsite").remove(0);
    rep.count(&format!("overflow_matcher.model.{}", a.replace(' ', "_")));
    a == "crash overflow"
}

/// review item 31: a crash on an input with a huge BRDA branch number / JaCoCo cb,mb counter is the
/// recorded allocation finding only if the same input with those numbers clamped to 1 is read
/// without a crash (then the allocation size is what killed the reader)
fn clamped(kind: &str, d: &[u8]) -> Vec<u8> {
    let t = String::from_utf8_lossy(d).into_owned();
    let mut out = String::new();
    if kind == "jacoco" {
        let mut rest: &str = &t;
        loop {
            let next = ["cb=\"", "mb=\""].iter().filter_map(|k| rest.find(k).map(|i| (i, k.len()))).min();
            match next {
                Some((i, kl)) => {
                    out.push_str(&rest[..i + kl]);
                    rest = &rest[i + kl..];
                    let digits: String = rest.chars().take_while(|c| c.is_ascii_digit()).collect();
                    let big = digits.len() > 20 || digits.parse::<u128>().map(|n| n > 10_000_000).unwrap_or(false);
                    out.push_str(if big { "1" } else { &digits });
                    rest = &rest[digits.len()..];
                }
                None => {
                    out.push_str(rest);
                    break;
                }
            }
        }
    } else {
        for l in t.split_inclusive('\n') {
            if let Some(r) = l.strip_prefix("BRDA:") {
                let mut f: Vec<String> = r.split(',').map(|x| x.to_string()).collect();
                if f.len() >= 3 {
                    let digits: String = f[2].chars().take_while(|c| c.is_ascii_digit()).collect();
                    if digits.parse::<u64>().map(|n| n > 10_000_000).unwrap_or(false) {
                        f[2] = format!("1{}", &f[2][digits.len()..]);
                    }
                }
                out.push_str("BRDA:");
                out.push_str(&f.join(","));
            } else {
                out.push_str(l);
            }
        }
    }
    out.into_bytes()
}

fn alloc_confirmed(rep: &mut Report, c: &Case) -> bool {
    let cl = Case { kind: c.kind, what: "clamped".into(), data: clamped(c.kind, &c.data), aux: vec![] };
    let o = run_batch(rep, &[cl], "clamped").remove(0).0;
    let fine = o.starts_with("ok") || o.starts_with("err");
    rep.count(if fine { "alloc_matcher.clamped_rerun.fine" } else { "alloc_matcher.clamped_rerun.still_fails" });
    fine
}


/// the lcov model tie is skipped only for what the recorded finding C14-lcov-branch-number-alloc needs:
/// some BRDA record whose BRANCH field the reader would read as a number in [10^6, 2^32-1] (a vector
/// of that length on both sides). The fields are scanned the way `parse_lcov` scans them (key, one
/// byte, line digits, one byte, optional `e`, block digits, one byte, branch digits), at every
/// occurrence of the key (an over-approximation of "at a line start").
fn brda_branch_alloc(d: &[u8]) -> bool {
    let digits = |i: &mut usize| -> Option<u128> {
        let mut v: u128 = 0;
        let mut n = 0;
        while *i < d.len() && d[*i].is_ascii_digit() {
            v = v.saturating_mul(10).saturating_add((d[*i] - b'0') as u128);
            *i += 1;
            n += 1;
        }
        if n > 30 { Some(u128::MAX) } else { Some(v) }
    };
    let mut p = 0;
    while p + 4 <= d.len() {
        if &d[p..p + 4] == b"BRDA" {
            let mut i = p + 4;
            while i < d.len() && d[i].is_ascii_uppercase() {
                i += 1;
            }
            i += 1; // the byte that ends the key
            let _ = digits(&mut i);
            i += 1;
            if i < d.len() && d[i] == b'e' {
                i += 1;
            }
            let _ = digits(&mut i);
            i += 1;
            if let Some(b) = digits(&mut i) {
                if (1_000_000..=u32::MAX as u128).contains(&b) {
                    return true;
                }
            }
        }
        p += 1;
    }
    false
}

/// boundary numbers in the three numeric fields of a BRDA record (mutation campaign mutM1, P27 P40 P41:
/// a field read in a wider or narrower type): the record is followed by an ordinary one on line 1 so
/// that a wrapped line or branch number shows in the result
fn brda_boundaries() -> Vec<(String, Vec<u8>)> {
    let mut v = vec![];
    let mk = |line: &str, block: &str, branch: &str| format!("SF:a\nBRDA:{},{},{},1\nBRDA:1,0,1,-\nDA:1,1\nend_of_record\n", line, block, branch).into_bytes();
    for l in ["4294967295", "4294967296", "4294967297"] {
        v.push((format!("BRDA line {}", l), mk(l, "0", "2")));
    }
    for b in ["4294967295", "4294967296", "18446744073709551615", "18446744073709551616", "e4294967296", "e18446744073709551616"] {
        v.push((format!("BRDA block {}", b), mk("7", b, "2")));
    }
    for n in ["4294967296", "4294967297", "18446744073709551616"] {
        v.push((format!("BRDA branch {}", n), mk("7", "0", n)));
    }
    v
}

fn panic_site(o: &str) -> Option<String> {
    // "panic /repo/src/reader.rs:244 message" -> "reader.rs:244"
    let rest = o.strip_prefix("panic ")?;
    let loc = rest.split(' ').next()?;
    Some(loc.rsplit('/').next()?.to_string())
}

pub fn run(rep: &mut Report) {
    rep.rule = "corpus files of every input format; every prefix (sampled with a random stride on quick, all on \
                thorough), single 32-bit-word substitutions by {0,1,2,2^31-1,2^31,2^32-1,2^32-2,n+1,n-1} in gcno/gcda, \
                single-token substitutions in text inputs, random 2-6 point corruptions; each case in a child process \
                under RLIMIT_AS = 2 GiB and a wall-clock limit; non-trivial = the case differs from its corpus file; \
                distinct = distinct bytes"
        .to_string();
    gcnosafe::corpus(rep);
    let mut rng = Rng::new(rep.seed ^ 0xC14);
    let exhaustive = rep.thorough();
    let per_file = rep.budget(450, 1) as usize;
    let base = corpus();
    rep.count_n("corpus.files", base.len() as u64);
    let mut cases: Vec<Case> = vec![];
    // fixed witnesses of repaired / recorded defects first
    let wit = |kind: &'static str, what: &str, data: &[u8]| Case { kind, what: what.into(), data: data.to_vec(), aux: vec![] };
    cases.push(wit("lcov", "witness: e outside a section", b"e\n"));
    cases.push(wit("lcov", "witness: DA count missing", b"SF:a\nDA:1,\nend_of_record\n"));
    cases.push(wit("lcov", "witness: number too large", b"SF:a\nDA:99999999999,1\nend_of_record\n"));
    cases.push(wit("lcov", "witness: duplicated FN before any SF", b"FN:1,f\nFN:1,f\n"));
    cases.push(wit("gcovtext", "witness: lcount without file", b"lcount:1,1\n"));
    cases.push(wit("gcovjson", "witness: not gzip", b"{}"));
    cases.push(wit("jacoco", "witness: eof inside class", b"<report><package name=\"p\"><class name=\"A\">"));
    for (w, d) in brda_boundaries() {
        cases.push(Case { kind: "lcov", what: format!("boundary: {}", w), data: d, aux: vec![] });
    }
    for b in &base {
        cases.push(b.clone());
        cases.extend(derive(&mut rng, b, per_file, exhaustive));
    }
    let outs = run_batch(rep, &cases, "batch");
    // lcov tie
    let mut reqs = vec![];
    let mut idx = vec![];
    for (i, c) in cases.iter().enumerate() {
        if c.kind == "lcov" && !outs[i].0.is_empty() && !brda_branch_alloc(&c.data) {
            reqs.push(format!("lcov.parse 1 {}", hex(&c.data)));
            idx.push(i);
        }
    }
    rep.count_n("lcov.tied", reqs.len() as u64);
    let model = run_model(&reqs, &rep.workdir, "c14lcov");
    for (k, &i) in idx.iter().enumerate() {
        let impl_o = if outs[i].0.starts_with("panic") { "panic".to_string() } else { outs[i].0.clone() };
        if model[k] != impl_o {
            rep.disagreements_checked += 1;
            rep.fail("disagreement", None, "parse_lcov differs from Lcov.parse on a corrupted tracefile".into(),
                json!({"op": "lcov", "what": cases[i].what, "input_hex": hex(&cases[i].data), "impl": outs[i].0, "model": model[k]}));
        }
    }
    let mut shown = 0;
    for (i, c) in cases.iter().enumerate() {
        let (o, ms) = &outs[i];
        rep.case(&format!("{} {}", c.kind, hex(&c.data)), true);
        let class = if o.starts_with("ok") { "ok" } else if o.starts_with("err") { "err" } else if o.starts_with("panic") { "panic" } else { o.as_str() };
        rep.count(&format!("{}.{}", c.kind, class.split(' ').next().unwrap()));
        if shown < 3 && c.what.contains("truncated") {
            rep.sample(json!({"kind": c.kind, "what": c.what, "outcome": o.chars().take(120).collect::<String>(), "ms": ms}));
            shown += 1;
        }
        let case = json!({"op": "case", "kind": c.kind, "what": c.what, "data_hex": hex(&c.data), "aux_hex": hex(&c.aux), "outcome": o.chars().take(300).collect::<String>()});
        if o.starts_with("panic") && c.kind == "jacoco" && o.contains("capacity overflow") && huge_jacoco_counter(&c.data) {
            rep.fail("oracle", Some("C14-jacoco-branch-vector-alloc"), format!("JaCoCo cb/mb counter used as a vector length ({})", c.what), case);
        } else if o.starts_with("panic") && (c.kind == "gcno" || c.kind == "gcda") && o.contains("with overflow") && {
            let (g, d) = if c.kind == "gcno" { (&c.data, &c.aux) } else { (&c.aux, &c.data) };
            counter_overflow_confirmed(rep, o, g, &[d.clone()])
        } {
            // known finding: counters near 2^64 overflow the u64 sums of the flow propagation (the model
            // crashes at the same site on the same bytes)
            rep.fail("oracle", Some("C14-gcno-counter-overflow"), format!("arithmetic overflow in the gcno/gcda reader ({}): {}", c.what, o.chars().take(120).collect::<String>()), case);
        } else if o.starts_with("panic") {
            let site = panic_site(o).unwrap_or_default();
            rep.fail("oracle", Some(&format!("C14-panic@{}", site)), format!("reader panicked on malformed {} input ({}): {}", c.kind, c.what, o.chars().take(160).collect::<String>()), case);
        } else if o == "timeout" || o.starts_with("crash") || o.is_empty() {
            // known finding: a BRDA branch number is an allocation size
            let finding = if c.kind == "lcov" && o.starts_with("crash") && huge_brda_branch(&c.data) && alloc_confirmed(rep, c) {
                Some("C14-lcov-branch-number-alloc")
            } else if c.kind == "jacoco" && o.starts_with("crash") && huge_jacoco_counter(&c.data) && alloc_confirmed(rep, c) {
                Some("C14-jacoco-branch-vector-alloc")
            } else {
                None
            };
            rep.fail("oracle", finding, format!("reader did not return a value on malformed {} input ({}): {}", c.kind, c.what, if o.is_empty() { "not run" } else { o }), case);
        } else if *ms > 2_000 {
            rep.fail("oracle", None, format!("reading {} bytes of {} took {} ms ({})", c.data.len(), c.kind, ms, c.what), case);
        }
    }
    // truncated gcda: error, or the result of a record prefix
    let mut checked = 0;
    for b in base.iter().filter(|b| b.kind == "gcda") {
        let bounds = gcda_boundaries(&b.data);
        let mut allowed: Vec<String> = vec![];
        // the complete records up to a boundary, as they are and closed by the terminating zero word
        let mut pref: Vec<Case> = vec![];
        for &p in &bounds {
            pref.push(Case { kind: "gcda", what: format!("record prefix {}", p), data: b.data[..p].to_vec(), aux: b.aux.clone() });
            let mut closed = b.data[..p].to_vec();
            closed.extend_from_slice(&[0, 0, 0, 0]);
            pref.push(Case { kind: "gcda", what: format!("record prefix {} + terminator", p), data: closed, aux: b.aux.clone() });
        }
        let pouts = run_batch(rep, &pref, "gcdapref");
        for (o, _) in &pouts {
            allowed.push(o.clone());
        }
        for (i, c) in cases.iter().enumerate() {
            if c.kind == "gcda" && c.what.starts_with(&b.what) && c.what.contains("truncated") {
                let o = &outs[i].0;
                checked += 1;
                if o.starts_with("ok") && !allowed.contains(o) {
                    rep.fail("oracle", None, format!("a truncated gcda yields counts that are not those of any record prefix ({})", c.what),
                        json!({"op": "case", "kind": "gcda", "what": c.what, "data_hex": hex(&c.data), "aux_hex": hex(&c.aux)}));
                }
            }
        }
    }
    rep.count_n("gcda.truncations_checked_against_record_prefixes", checked);
    alloc_findings(rep);
    gcnosafe::run(rep);
    gcnodepth::run(rep);
    textcost::run(rep);
    clinames::run(rep);
}

/// the two recorded allocation findings: a number in the input is an allocation size
fn alloc_findings(rep: &mut Report) {
    let c = Case { kind: "lcov", what: "BRDA branch number 30000000".into(), data: b"SF:a\nBRDA:1,0,30000000,1\nend_of_record\n".to_vec(), aux: vec![] };
    let b = c.data.clone();
    if let Ok(Ok(v)) = guarded(move || parse_lcov(b, true)) {
        let n: usize = v.iter().map(|(_, r)| r.branches.values().map(|x| x.len()).sum::<usize>()).sum();
        rep.case("alloc.lcov", true);
        if n > 1000 * c.data.len() {
            rep.fail("oracle", Some("C14-lcov-branch-number-alloc"), format!("a {}-byte tracefile produced a branch vector of {} entries", c.data.len(), n),
                json!({"op": "case", "kind": "lcov", "what": c.what, "data_hex": hex(&c.data), "aux_hex": ""}));
        }
    }
    let x = b"<report><package name=\"p\"><sourcefile name=\"A.java\"><line nr=\"1\" mi=\"0\" ci=\"0\" mb=\"0\" cb=\"30000000\"/></sourcefile></package></report>".to_vec();
    let xl = x.len();
    let x2 = x.clone();
    if let Ok(Ok(v)) = guarded(move || parse_jacoco_xml_report(BufReader::new(Cursor::new(x2)))) {
        let n: usize = v.iter().map(|(_, r)| r.branches.values().map(|x| x.len()).sum::<usize>()).sum();
        rep.case("alloc.jacoco", true);
        if n > 1000 * xl {
            rep.fail("oracle", Some("C14-jacoco-branch-vector-alloc"), format!("a {}-byte JaCoCo report produced a branch vector of {} entries", xl, n),
                json!({"op": "case", "kind": "jacoco", "what": "cb=30000000", "data_hex": hex(&x), "aux_hex": ""}));
        }
    }
}

pub fn replay(rep: &mut Report, case: &serde_json::Value) {
    if case["op"].as_str().unwrap_or("").starts_with("gcnosafe.") {
        return gcnosafe::replay(rep, case);
    }
    if case["op"].as_str().unwrap_or("").starts_with("clinames.") {
        return clinames::replay(rep, case);
    }
    if case["op"].as_str().unwrap_or("").starts_with("textcost.") {
        return textcost::replay(rep, case);
    }
    let kind: &'static str = match case["kind"].as_str().unwrap_or("") {
        "lcov" => "lcov",
        "jacoco" => "jacoco",
        "gcovtext" => "gcovtext",
        "gcovjson" => "gcovjson",
        "gcno" => "gcno",
        "gcno2m" => "gcno2m",
        _ => "gcda",
    };
    let data = unhex(case["data_hex"].as_str().or(case["input_hex"].as_str()).unwrap_or(""));
    let c = Case { kind, what: "replay".into(), data, aux: unhex(case["aux_hex"].as_str().unwrap_or("")) };
    let outs = run_batch(rep, &[c.clone()], "replay");
    rep.case(&hex(&c.data), true);
    let o = &outs[0].0;
    if !(o.starts_with("ok") || o.starts_with("err")) {
        rep.fail("oracle", None, format!("replayed case: {}", o), case.clone());
    }
}

/// user + system CPU time consumed by this process (all its threads), in milliseconds
fn thread_cpu_millis() -> u128 {
    let mut ts = libc::timespec { tv_sec: 0, tv_nsec: 0 };
    unsafe { libc::clock_gettime(libc::CLOCK_PROCESS_CPUTIME_ID, &mut ts) };
    ts.tv_sec as u128 * 1000 + ts.tv_nsec as u128 / 1_000_000
}

fn main() {
    let args: Vec<String> = std::env::args().collect();
    if args.len() == 4 && args[1] == "--child" {
        child(&args[2], &args[3]);
        return;
    }
    if args.len() == 4 && args[1] == "--textcost-child" {
        return textcost::child(&args[2], &args[3]);
    }
    corrlib::run_main("C14", run, replay);
}
