//! C14, part Gcno: streams that go with lean/GrcovModel/Props/C14Gcno.lean.
//!  (i)  every prefix (all of them for small files, a random stride for larger ones) of every corpus
//!       gcda and of a closed synthetic gcda, through the real `Gcno::compute` AND through the byte-level
//!       model (`c14.gcno.computeb`), answer by answer; independently, the oracle of the last sentence of
//!       C14 on the implementation: an accepted prefix gives the result of some prefix of the complete
//!       records (records found by an independent splitter);
//!  (ii) the record stream the model reads from every such prefix (`c14.gcno.gcdarecs`) against the
//!       record stream of the whole file computed by the independent splitter: the relation `TruncOf`
//!       of the theorem `C14_truncated_gcda_records`, re-stated in Rust;
//!  (iii) closed witnesses: the files of the Lean examples (`tinyGcno`, `tinyGcda`, `blocksGcno 6`),
//!       the counter overflow (known finding);
//!  (iv) corpus/C14/*.json (op `gcnosafe.corpus`), replayed first: the gcno files with repeated BLOCKS
//!       records (former finding C14-gcno-repeated-blocks-alloc, fixed in /repo ed627d5) in a child
//!       process under the address-space limit, then against the model.
use super::*;

fn w(v: &mut Vec<u8>, x: u32) {
    v.extend_from_slice(&x.to_le_bytes());
}

/// `tinyGcno` of Lemmas/GcnoSafeSize.lean
pub fn tiny_gcno() -> Vec<u8> {
    let mut v = vec![];
    v.extend_from_slice(b"oncg");
    v.extend_from_slice(b"*204");
    w(&mut v, 7);
    for x in [0x0100_0000u32, 0, 1, 2, 1] {
        w(&mut v, x);
    }
    v.extend_from_slice(b"f\0\0\0");
    w(&mut v, 1);
    v.extend_from_slice(b"a.c\0");
    w(&mut v, 1);
    for x in [0x0141_0000u32, 2, 0, 0] {
        w(&mut v, x);
    }
    for x in [0x0143_0000u32, 3, 0, 1, 0] {
        w(&mut v, x);
    }
    for x in [0x0145_0000u32, 0, 0, 0, 1] {
        w(&mut v, x);
    }
    v.extend_from_slice(b"a.c\0");
    for x in [5u32, 0, 0, 0] {
        w(&mut v, x);
    }
    v
}

/// `tinyGcda lo hi`
pub fn tiny_gcda(lo: u8, hi: u8) -> Vec<u8> {
    let mut v = vec![];
    v.extend_from_slice(b"adcg");
    v.extend_from_slice(b"*204");
    w(&mut v, 7);
    for x in [0x0100_0000u32, 2, 1, 2, 0x01a1_0000, 2] {
        w(&mut v, x);
    }
    v.extend_from_slice(&[lo, lo, lo, lo, hi, hi, hi, hi]);
    w(&mut v, 0);
    v
}

/// `loopGcno` / `loopGcda` of Lemmas/GcnoSafeSize.lean: line 5 in two blocks with a self loop
pub fn loop_pair() -> (Vec<u8>, Vec<u8>) {
    let mut v = vec![];
    v.extend_from_slice(b"oncg");
    v.extend_from_slice(b"*204");
    w(&mut v, 7);
    for x in [0x0100_0000u32, 0, 1, 2, 1] {
        w(&mut v, x);
    }
    v.extend_from_slice(b"f\0\0\0");
    w(&mut v, 1);
    v.extend_from_slice(b"a.c\0");
    w(&mut v, 1);
    for x in [0x0141_0000u32, 3, 0, 0, 0, 0x0143_0000, 3, 0, 1, 0, 0x0143_0000, 5, 1, 1, 0, 2, 0] {
        w(&mut v, x);
    }
    for x in [0x0145_0000u32, 0, 0, 0, 1] {
        w(&mut v, x);
    }
    v.extend_from_slice(b"a.c\0");
    for x in [5u32, 0, 0, 0x0145_0000, 0, 1, 0, 1] {
        w(&mut v, x);
    }
    v.extend_from_slice(b"a.c\0");
    for x in [5u32, 6, 0, 0, 0] {
        w(&mut v, x);
    }
    let mut d = vec![];
    d.extend_from_slice(b"adcg");
    d.extend_from_slice(b"*204");
    for x in [7u32, 0x0100_0000, 2, 1, 2, 0x01a1_0000, 6, 1, 0, 3, 0, 1, 0, 0] {
        w(&mut d, x);
    }
    (v, d)
}

/// the gcda of review probe round2/gcno/B.lean: two OBJECT_SUMMARY records whose run count is
/// 0xFFFFFFFF before the function record of `tiny_gcda` (76 bytes); before /repo 8b2da6c the u32 sum
/// `self.runcounts += …` overflowed (a panic with overflow checks on)
pub fn summary_overflow_gcda() -> Vec<u8> {
    let mut v = vec![];
    v.extend_from_slice(b"adcg");
    v.extend_from_slice(b"*204");
    for x in [7u32, 0xa100_0000, 2, 0xffff_ffff, 0, 0xa100_0000, 2, 0xffff_ffff, 0, 0x0100_0000, 2, 1, 2, 0x01a1_0000, 2, 1, 0, 0] {
        w(&mut v, x);
    }
    v
}

/// `blocksGcno k`: format 12, one function, `k` BLOCKS records each announcing as many blocks as bytes are left
pub fn blocks_gcno(k: usize) -> Vec<u8> {
    let mut v = vec![];
    v.extend_from_slice(b"oncg");
    v.extend_from_slice(b"*22B");
    for x in [7u32, 0, 0, 0x0100_0000, 0, 1, 0, 0, 1] {
        w(&mut v, x);
    }
    v.extend_from_slice(b"f\0\0\0");
    w(&mut v, 0);
    w(&mut v, 1);
    v.extend_from_slice(b"a.c\0");
    for x in [1u32, 1, 1, 1] {
        w(&mut v, x);
    }
    let mut left = 12 * k + 4;
    for _ in 0..k {
        left -= 12;
        w(&mut v, 0x0141_0000);
        w(&mut v, 1);
        w(&mut v, left as u32);
    }
    w(&mut v, 0);
    v
}

fn show_results_b(rs: &[(String, grcov::CovResult)]) -> String {
    let mut v: Vec<(&[u8], String)> = rs.iter().map(|(k, c)| (k.as_bytes(), format!("K{}={}", hex(k.as_bytes()), show_cov(c)))).collect();
    v.sort_by(|a, b| a.0.cmp(b.0));
    v.into_iter().map(|x| x.1).collect::<Vec<_>>().join(" ")
}

/// the real code, canonical: `ok <results>` | `err` | `panic <message>`
fn run_impl(gcno: &[u8], gcdas: &[Vec<u8>]) -> String {
    let (g, ds) = (gcno.to_vec(), gcdas.to_vec());
    match guarded(move || Gcno::compute("stem", g, ds, true)) {
        Ok(Ok(v)) => format!("ok {}", show_results_b(&v)).trim_end().to_string(),
        Ok(Err(_)) => "err".into(),
        Err(p) => format!("panic {}", p),
    }
}

fn tok(b: &[u8]) -> String {
    if b.is_empty() {
        "-".into()
    } else {
        hex(b)
    }
}

/// model answer reduced to the classes the implementation side shows
fn model_class(a: &str) -> String {
    if a.starts_with("err") {
        "err".into()
    } else {
        a.to_string()
    }
}

// ---- independent splitter: the records of a whole little-endian gcda -------------------------------
#[derive(Clone, Debug, PartialEq)]
enum R {
    Func(u32, u32, u32, u32),
    Arcs(u32, Vec<u64>),
    Other,
    Short,
    RecordLen,
}

fn show_r(r: &R) -> String {
    match r {
        R::Func(l, i, s, c) => format!("f{},{},{},{}", l, i, s, c),
        R::Arcs(l, vs) => format!("a{}{}", l, vs.iter().map(|v| format!(",{}", v)).collect::<String>()),
        R::Other => "o".into(),
        R::Short => "s".into(),
        R::RecordLen => "r".into(),
    }
}

/// version number of the four version bytes (little-endian file)
fn version_of(b: &[u8]) -> Option<u32> {
    if b[0] != b'*' {
        return None;
    }
    let d = |c: u8| u32::from(c.wrapping_sub(b'0'));
    Some(if b[3] >= b'A' { 100 * u32::from(b[3] - b'A') + 10 * d(b[2]) + d(b[1]) } else { 10 * d(b[3]) + d(b[1]) })
}

/// complete records of a well-formed little-endian gcda whose function records announce themselves
/// (`None` when the file is not of that kind: then the oracle does not apply). Returns (version,
/// checksum, records, byte offset after each record).
fn split_gcda(d: &[u8]) -> Option<(u32, u32, Vec<R>, Vec<usize>)> {
    if d.len() < 12 || &d[0..4] != b"adcg" {
        return None;
    }
    let version = version_of(&d[4..8])?;
    let rd = |p: usize| u32::from_le_bytes(d[p..p + 4].try_into().unwrap());
    let checksum = rd(8);
    let (mut recs, mut ends) = (vec![], vec![]);
    let mut pos = 12;
    let mut have_fn = false;
    while pos + 8 <= d.len() {
        let (tag, len) = (rd(pos), rd(pos + 4));
        if tag == 0 {
            break;
        }
        let end = pos + 8 + 4 * len as usize;
        if end >= d.len() {
            return None; // the whole file is itself cut: not a reference file
        }
        if tag == 0x0100_0000 {
            if len < 2 || (version >= 47 && len < 3) {
                return None;
            }
            recs.push(R::Func(len, rd(pos + 8), rd(pos + 12), if version >= 47 { rd(pos + 16) } else { 0 }));
            have_fn = true;
        } else if tag == 0x01a1_0000 {
            if !have_fn {
                pos = end;
                continue;
            }
            let vs = (0..(len / 2) as usize).map(|i| u64::from(rd(pos + 8 + 8 * i)) | (u64::from(rd(pos + 12 + 8 * i)) << 32)).collect();
            recs.push(R::Arcs(len, vs));
        } else {
            if (tag == 0xa100_0000 && len < 2) || (tag == 0xa300_0000 && len > 0 && len < 3) {
                return None;
            }
            recs.push(R::Other);
        }
        ends.push(end);
        pos = end;
    }
    Some((version, checksum, recs, ends))
}

/// `TruncOf t f` of Lemmas/GcnoSafeTrunc.lean
fn trunc_of(t: &[R], f: &[R]) -> bool {
    match (t, f) {
        ([], _) => true,
        ([R::Short], _) => true,
        ([R::Arcs(l1, v1), R::Short], [R::Arcs(l2, v2), ..]) if l1 == l2 && v2.starts_with(v1) => true,
        ([a, tt @ ..], [b, ff @ ..]) => a == b && trunc_of(tt, ff),
        _ => false,
    }
}

fn parse_model_recs(a: &str) -> Option<(u32, u32, Vec<R>)> {
    // "ok D<version>:<checksum>(;<rec>)*"
    let body = a.strip_prefix("ok D")?;
    let mut it = body.split(';');
    let head = it.next()?;
    let (v, c) = head.split_once(':')?;
    let mut recs = vec![];
    for r in it {
        let nums = |s: &str| -> Vec<u64> { s.split(',').filter(|x| !x.is_empty()).map(|x| x.parse().unwrap_or(0)).collect() };
        recs.push(match r.as_bytes().first()? {
            b'f' => {
                let n = nums(&r[1..]);
                R::Func(n[0] as u32, n[1] as u32, n[2] as u32, n[3] as u32)
            }
            b'a' => {
                let n = nums(&r[1..]);
                R::Arcs(n[0] as u32, n[1..].to_vec())
            }
            b'o' => R::Other,
            b's' => R::Short,
            b'r' => R::RecordLen,
            _ => return None,
        });
    }
    Some((v.parse().ok()?, c.parse().ok()?, recs))
}

pub fn run(rep: &mut Report) {
    let mut rng = Rng::new(rep.seed ^ 0xC14_6C40);
    // ---- the reference pairs: corpus + the closed synthetic pair
    let mut pairs: Vec<(String, Vec<u8>, Vec<u8>)> = vec![("tiny".into(), tiny_gcno(), tiny_gcda(1, 0))];
    for stem in ["llvm/file", "llvm/file_branch", "llvm/reader", "reader_gcc-7", "reader_gcc-8", "reader_gcc-10"] {
        if let (Ok(g), Ok(d)) = (std::fs::read(format!("/repo/test/{}.gcno", stem)), std::fs::read(format!("/repo/test/{}.gcda", stem))) {
            if g.len() + d.len() < 60_000 {
                pairs.push((stem.to_string(), g, d));
            }
        }
    }
    let per_file = rep.budget(70, 20) as usize;
    let mut reqs: Vec<String> = vec![];
    struct P {
        name: String,
        pair: usize,
        cut: usize,
        impl_out: String,
        kind: u8, // 0 = compute, 1 = records
    }
    let mut pend: Vec<P> = vec![];
    let mut allowed: Vec<Option<Vec<String>>> = vec![];
    let mut fulls: Vec<Option<(u32, u32, Vec<R>, Vec<usize>)>> = vec![];
    for (pi, (name, g, d)) in pairs.iter().enumerate() {
        // record prefixes on the implementation (independent splitter)
        let sp = split_gcda(d);
        let al = sp.as_ref().map(|(_, _, _, ends)| {
            let mut v = vec![];
            let mut bounds = vec![12usize];
            bounds.extend(ends.iter().copied());
            for &p in &bounds {
                let mut closed = d[..p].to_vec();
                closed.extend_from_slice(&[0, 0, 0, 0]);
                v.push(run_impl(g, &[closed]));
            }
            v
        });
        allowed.push(al);
        fulls.push(sp);
        let n = d.len();
        let all = n <= per_file || rep.thorough();
        let mut k = 0usize;
        while k <= n {
            let cut = d[..k].to_vec();
            let out = run_impl(g, &[cut.clone()]);
            rep.case(&format!("gcnosafe prefix {} {}", name, k), k < n);
            rep.count(&format!("gcnosafe.prefix.impl.{}", out.split(' ').next().unwrap_or("")));
            reqs.push(format!("c14.gcno.computeb 1 {} {}", tok(g), tok(&cut)));
            pend.push(P { name: name.clone(), pair: pi, cut: k, impl_out: out, kind: 0 });
            reqs.push(format!("c14.gcno.gcdarecs {}", tok(&cut)));
            pend.push(P { name: name.clone(), pair: pi, cut: k, impl_out: String::new(), kind: 1 });
            k += if all { 1 } else { 1 + rng.below((2 * n / per_file.max(1)) as u64 + 1) as usize };
        }
    }
    // ---- closed witnesses through both sides
    let wit: Vec<(&str, Vec<u8>, Vec<Vec<u8>>)> = vec![
        ("tiny pair", tiny_gcno(), vec![tiny_gcda(1, 0)]),
        ("tiny pair, two runs", tiny_gcno(), vec![tiny_gcda(1, 0), tiny_gcda(2, 0)]),
        ("loop pair (a line in two blocks with a self loop: cycle search)", loop_pair().0, vec![loop_pair().1]),
        ("counter overflow (two runs of 2^64-1)", tiny_gcno(), vec![tiny_gcda(255, 255), tiny_gcda(255, 255)]),
        ("six BLOCKS records (blocksGcno 6)", blocks_gcno(6), vec![]),
        ("two summary records with run count 2^32-1", tiny_gcno(), vec![summary_overflow_gcda()]),
        ("summary records with large run counts in two gcda", tiny_gcno(), vec![summary_overflow_gcda(), summary_overflow_gcda()]),
        ("gcda ends at a record boundary without terminator", tiny_gcno(), vec![tiny_gcda(1, 0)[..28].to_vec()]),
    ];
    let wit_base = reqs.len();
    let mut wit_out = vec![];
    for (what, g, ds) in &wit {
        let out = run_impl(g, ds);
        rep.case(&format!("gcnosafe witness {}", what), true);
        let mut r = format!("c14.gcno.computeb 1 {}", tok(g));
        for d in ds {
            r.push(' ');
            r.push_str(&tok(d));
        }
        reqs.push(r);
        wit_out.push(out);
    }
    let answers = run_model(&reqs, &rep.workdir, "c14gcnosafe");
    for (i, p) in pend.iter().enumerate() {
        let (name, g, d) = &pairs[p.pair];
        let case = json!({"op": "gcnosafe.prefix", "name": name, "gcno_hex": hex(g), "gcda_hex": hex(d), "cut": p.cut});
        if p.kind == 0 {
            let imp = if p.impl_out.starts_with("panic") { "panic".to_string() } else { p.impl_out.clone() };
            // oracle first: an accepted prefix is the result of a record prefix
            if p.impl_out.starts_with("ok") {
                if let Some(al) = &allowed[p.pair] {
                    rep.count("gcnosafe.oracle.record_prefix_checked");
                    if !al.contains(&p.impl_out) {
                        rep.fail("oracle", None, format!("a truncated gcda yields counts that are not those of any record prefix ({} cut at {})", p.name, p.cut), case.clone());
                        continue;
                    }
                }
            } else if p.impl_out.starts_with("panic") {
                let confirmed = p.impl_out.contains("with overflow") && super::counter_overflow_confirmed(rep, &p.impl_out, g, &[d[..p.cut].to_vec()]);
                let f = if confirmed { "C14-gcno-counter-overflow".to_string() } else { format!("C14-panic@{}", super::panic_site(&p.impl_out).unwrap_or_default()) };
                rep.fail("oracle", Some(&f), format!("the gcda reader panicked on a truncated file ({} cut at {}): {}", p.name, p.cut, p.impl_out), case.clone());
                continue;
            }
            if model_class(&answers[i]) != imp {
                rep.disagreements_checked += 1;
                let mut c = case.clone();
                c["impl"] = json!(p.impl_out);
                c["model"] = json!(answers[i]);
                rep.fail("disagreement", None, format!("Gcno::compute differs from computeBytes on {} cut at {}", p.name, p.cut), c);
            }
        } else if let Some((fv, fc, frecs, _)) = &fulls[p.pair] {
            // the model's record stream of the cut file against the splitter's stream of the whole file
            if let Some((v, c, t)) = parse_model_recs(&answers[i]) {
                rep.count("gcnosafe.truncof.checked");
                if t.last() == Some(&R::Short) {
                    rep.count("gcnosafe.truncof.marker");
                } else {
                    rep.count("gcnosafe.truncof.silent");
                }
                if v != *fv || c != *fc || !trunc_of(&t, frecs) {
                    rep.disagreements_checked += 1;
                    let mut cj = case.clone();
                    cj["model"] = json!(answers[i]);
                    cj["whole"] = json!(frecs.iter().map(show_r).collect::<Vec<_>>().join(";"));
                    rep.fail("disagreement", None, format!("the record stream the model reads from {} cut at {} is not TruncOf the records of the whole file", p.name, p.cut), cj);
                }
            } else {
                rep.count("gcnosafe.truncof.header_unreadable");
                if p.cut >= 12 {
                    rep.disagreements_checked += 1;
                    rep.fail("disagreement", None, format!("model cannot read the header of {} cut at {}: {}", p.name, p.cut, answers[i]), case.clone());
                }
            }
        }
    }
    for (k, (what, g, ds)) in wit.iter().enumerate() {
        let out = &wit_out[k];
        let a = &answers[wit_base + k];
        let case = json!({"op": "gcnosafe.witness", "what": what, "gcno_hex": hex(g), "gcdas_hex": ds.iter().map(|d| hex(d)).collect::<Vec<_>>()});
        let imp = if out.starts_with("panic") { "panic".to_string() } else { out.clone() };
        rep.count(&format!("gcnosafe.witness.impl.{}", imp.split(' ').next().unwrap_or("")));
        if out.starts_with("panic") && out.contains("with overflow") && super::counter_overflow_confirmed(rep, out, g, ds) {
            rep.fail("oracle", Some("C14-gcno-counter-overflow"), format!("arithmetic overflow in the gcno/gcda reader ({}): {}", what, out.chars().take(120).collect::<String>()), case.clone());
        } else if out.starts_with("panic") {
            rep.fail("oracle", Some(&format!("C14-panic@{}", super::panic_site(out).unwrap_or_default())), format!("reader panicked ({}): {}", what, out), case.clone());
        }
        if model_class(a) != imp {
            rep.disagreements_checked += 1;
            let mut c = case.clone();
            c["impl"] = json!(out);
            c["model"] = json!(a);
            rep.fail("disagreement", None, format!("Gcno::compute differs from computeBytes on the witness '{}'", what), c);
        }
    }
}

/// corpus first: minimised past failures of this part (corpus/C14/*.json with op `gcnosafe.corpus`);
/// each must come back with a value or an error, quickly, under the address-space limit of the child,
/// and the byte-level model must give the same answer
pub fn corpus(rep: &mut Report) {
    let mut files: Vec<PathBuf> = std::fs::read_dir("/verif/corpus/C14")
        .map(|rd| rd.flatten().map(|e| e.path()).filter(|p| p.extension().map(|x| x == "json").unwrap_or(false)).collect())
        .unwrap_or_default();
    files.sort();
    for p in files {
        let Some(v) = std::fs::read_to_string(&p).ok().and_then(|t| serde_json::from_str::<serde_json::Value>(&t).ok()) else { continue };
        if v["case"]["op"] != "gcnosafe.corpus" {
            continue;
        }
        rep.count("gcnosafe.corpus.cases");
        corpus_case(rep, &v["case"]);
    }
}

fn corpus_case(rep: &mut Report, case: &serde_json::Value) {
    let data = unhex(case["data_hex"].as_str().unwrap_or(""));
    let gcdas: Vec<Vec<u8>> = case["gcdas_hex"].as_array().map(|a| a.iter().map(|v| unhex(v.as_str().unwrap_or(""))).collect()).unwrap_or_default();
    let what = case["what"].as_str().unwrap_or("corpus").to_string();
    // in the child first (address-space and time limit): with the first gcda, if there is one
    let c = match gcdas.first() {
        Some(d) => Case { kind: "gcda", what: what.clone(), data: d.clone(), aux: data.clone() },
        None => Case { kind: "gcno", what: what.clone(), data: data.clone(), aux: vec![] },
    };
    let outs = run_batch(rep, &[c], "gcnosafecorpus");
    rep.case(&format!("gcnosafe corpus {} {}", hex(&data), gcdas.iter().map(|d| hex(d)).collect::<Vec<_>>().join(" ")), true);
    let (o, ms) = &outs[0];
    rep.count(&format!("gcnosafe.corpus.child.{}", o.split(' ').next().unwrap_or("none")));
    if !(o.starts_with("ok") || o.starts_with("err")) || *ms > 2_000 {
        rep.fail("oracle", None, format!("a {}-byte gcno ({}) did not come back with a value or an error: {} after {} ms", data.len(), what, if o.is_empty() { "not run" } else { o }, ms), case.clone());
        return;
    }
    // it came back in the child: safe to run in-process against the model
    let out = run_impl(&data, &gcdas);
    let mut req = format!("c14.gcno.computeb 1 {}", tok(&data));
    for d in &gcdas {
        req.push(' ');
        req.push_str(&tok(d));
    }
    let a = run_model(&[req], &rep.workdir, "c14gcnosafe.corpus");
    let imp = if out.starts_with("panic") { "panic".to_string() } else { out.clone() };
    if out.starts_with("panic") {
        rep.fail("oracle", None, format!("reader panicked on a corpus case ({}): {}", what, out), case.clone());
    } else if model_class(&a[0]) != imp {
        rep.disagreements_checked += 1;
        let mut cj = case.clone();
        cj["impl"] = json!(out);
        cj["model"] = json!(a[0]);
        rep.fail("disagreement", None, format!("Gcno::compute differs from computeBytes on a corpus case ({})", what), cj);
    }
    if let Some(exp) = case["expect"].as_str() {
        if out != exp {
            rep.fail("oracle", None, format!("corpus case ({}): Gcno::compute gives {} where {} was recorded", what, out, exp), case.clone());
        }
    }
}

pub fn replay(rep: &mut Report, case: &serde_json::Value) {
    if case["op"] == "gcnosafe.corpus" {
        return corpus_case(rep, case);
    }
    let g = unhex(case["gcno_hex"].as_str().unwrap_or(""));
    let ds: Vec<Vec<u8>> = if case["op"] == "gcnosafe.prefix" {
        let d = unhex(case["gcda_hex"].as_str().unwrap_or(""));
        let cut = (case["cut"].as_u64().unwrap_or(0) as usize).min(d.len());
        vec![d[..cut].to_vec()]
    } else {
        case["gcdas_hex"].as_array().map(|a| a.iter().map(|v| unhex(v.as_str().unwrap_or(""))).collect()).unwrap_or_default()
    };
    let out = run_impl(&g, &ds);
    let mut r = format!("c14.gcno.computeb 1 {}", tok(&g));
    for d in &ds {
        r.push(' ');
        r.push_str(&tok(d));
    }
    rep.case(&r, true);
    let a = run_model(&[r], &rep.workdir, "c14gcnosafe.replay");
    let imp = if out.starts_with("panic") { "panic".to_string() } else { out.clone() };
    if out.starts_with("panic") {
        rep.fail("oracle", None, format!("replayed case: {}", out), case.clone());
    } else if model_class(&a[0]) != imp {
        rep.disagreements_checked += 1;
        rep.fail("disagreement", None, format!("impl {} / model {}", out, a[0]), case.clone());
    }
}
