//! C14, part Gcno, resource clause: recursion depth and running time of the gcno reader.
//! Witness families (closed forms, the same as `chainFunc` / `cliqueFunc` of
//! lean/GrcovModel/Gcno/Cost.lean), run through the real `Gcno::compute` on a thread with the
//! default 2 MiB stack of grcov's consumer threads, inside the resource-limited child process:
//!  * `chain_pair(n)`: one function whose `n` blocks form a chain 0→1→…→n-1 (format 4.2: exit = last
//!    block), every arc but the first on the spanning tree: `propagate_counts` recurses `n` deep;
//!  * `clique_pair(k)`: `k` blocks that all carry line 5 and form a complete digraph:
//!    `look_for_circuit` enumerates every elementary circuit (Σ_j C(k,j)(j-1)! of them);
//!  * `ring_pair(n)`: `n` blocks on one line forming a single cycle: `look_for_circuit` recurses `n` deep.
use super::*;

fn w(v: &mut Vec<u8>, x: u32) {
    v.extend_from_slice(&x.to_le_bytes());
}

fn header(v: &mut Vec<u8>, magic: &[u8; 4]) {
    v.extend_from_slice(magic);
    v.extend_from_slice(b"*204");
    w(v, 7);
}

fn func_record(v: &mut Vec<u8>) {
    for x in [0x0100_0000u32, 0, 1, 2, 1] {
        w(v, x);
    }
    v.extend_from_slice(b"f\0\0\0");
    w(v, 1);
    v.extend_from_slice(b"a.c\0");
    w(v, 1);
}

fn lines_record(v: &mut Vec<u8>, blk: u32, line: u32) {
    for x in [0x0145_0000u32, 0, blk, 0, 1] {
        w(v, x);
    }
    v.extend_from_slice(b"a.c\0");
    for x in [line, 0, 0] {
        w(v, x);
    }
}

/// gcda with the function record and the given counters
fn gcda_with(counters: &[u64]) -> Vec<u8> {
    let mut d = vec![];
    header(&mut d, b"adcg");
    for x in [0x0100_0000u32, 2, 1, 2, 0x01a1_0000, 2 * counters.len() as u32] {
        w(&mut d, x);
    }
    for c in counters {
        d.extend_from_slice(&c.to_le_bytes());
    }
    w(&mut d, 0);
    d
}

/// chain of `n ≥ 2` blocks; arc 0→1 carries the counter, the others are on the tree
pub fn chain_pair(n: u32) -> (Vec<u8>, Vec<u8>) {
    let mut v = vec![];
    header(&mut v, b"oncg");
    func_record(&mut v);
    w(&mut v, 0x0141_0000);
    w(&mut v, n);
    for _ in 0..n {
        w(&mut v, 0);
    }
    for b in 0..n - 1 {
        for x in [0x0143_0000u32, 3, b, b + 1, if b == 0 { 0 } else { 1 }] {
            w(&mut v, x);
        }
    }
    lines_record(&mut v, 1, 5);
    w(&mut v, 0);
    (v, gcda_with(&[3]))
}

/// entry 0 → 1, blocks 1..=k pairwise connected in both directions, k → exit k+1; line 5 in 1..=k
pub fn clique_pair(k: u32) -> (Vec<u8>, Vec<u8>) {
    let n = k + 2;
    let mut v = vec![];
    header(&mut v, b"oncg");
    func_record(&mut v);
    w(&mut v, 0x0141_0000);
    w(&mut v, n);
    for _ in 0..n {
        w(&mut v, 0);
    }
    for x in [0x0143_0000u32, 3, 0, 1, 0] {
        w(&mut v, x);
    }
    let mut narcs = 1u32;
    for i in 1..=k {
        let mut dsts: Vec<u32> = (1..=k).filter(|&j| j != i).collect();
        if i == k {
            dsts.push(k + 1);
        }
        w(&mut v, 0x0143_0000);
        w(&mut v, 1 + 2 * dsts.len() as u32);
        w(&mut v, i);
        for d in dsts {
            w(&mut v, d);
            w(&mut v, 0);
            narcs += 1;
        }
    }
    for i in 1..=k {
        lines_record(&mut v, i, 5);
    }
    w(&mut v, 0);
    // one run 0 → 1 → 2 → … → k → exit: the arcs i→i+1 carry 1
    let mut counters = vec![0u64; narcs as usize];
    counters[0] = 1;
    let mut idx = 1usize;
    for i in 1..=k {
        let mut dsts: Vec<u32> = (1..=k).filter(|&j| j != i).collect();
        if i == k {
            dsts.push(k + 1);
        }
        for d in dsts {
            if d == i + 1 {
                counters[idx] = 1;
            }
            idx += 1;
        }
    }
    (v, gcda_with(&counters))
}

/// entry 0 → 1, ring 1→2→…→n→1 on one line, n → exit n+1; all arcs counted
pub fn ring_pair(n: u32) -> (Vec<u8>, Vec<u8>) {
    let nb = n + 2;
    let mut v = vec![];
    header(&mut v, b"oncg");
    func_record(&mut v);
    w(&mut v, 0x0141_0000);
    w(&mut v, nb);
    for _ in 0..nb {
        w(&mut v, 0);
    }
    for x in [0x0143_0000u32, 3, 0, 1, 0] {
        w(&mut v, x);
    }
    let mut narcs = 1usize;
    for i in 1..=n {
        if i < n {
            for x in [0x0143_0000u32, 3, i, i + 1, 0] {
                w(&mut v, x);
            }
            narcs += 1;
        } else {
            for x in [0x0143_0000u32, 5, i, 1, 0, n + 1, 0] {
                w(&mut v, x);
            }
            narcs += 2;
        }
    }
    for i in 1..=n {
        lines_record(&mut v, i, 5);
    }
    w(&mut v, 0);
    (v, gcda_with(&vec![1u64; narcs]))
}

/// `Gcno::compute` on a thread with the stack of a consumer thread (main.rs spawns them with
/// `thread::Builder` and no `stack_size`: the default, 2 MiB)
pub fn outcome_2m(gcno: Vec<u8>, gcda: Vec<u8>) -> String {
    let t = std::thread::Builder::new().stack_size(2 << 20).spawn(move || {
        let r = guarded(move || Gcno::compute("stem", gcno, vec![gcda], true));
        match r {
            Ok(Ok(v)) => format!("ok {}", show_results(&v)),
            Ok(Err(_)) => "err Reader".to_string(),
            Err(p) => format!("panic {}", p),
        }
    });
    match t.map(|h| h.join()) {
        Ok(Ok(s)) => s,
        _ => "panic thread".into(),
    }
}

fn probe(rep: &mut Report, what: &str, pair: (Vec<u8>, Vec<u8>)) -> (String, u128, usize) {
    let size = pair.0.len() + pair.1.len();
    let c = Case { kind: "gcno2m", what: what.to_string(), data: pair.0, aux: pair.1 };
    let outs = run_batch(rep, &[c], "gcnodepth");
    (outs[0].0.clone(), outs[0].1, size)
}

pub fn run(rep: &mut Report) {
    // ---- the families through both sides (small members): the model reads them like the real code
    let small: Vec<(&str, (Vec<u8>, Vec<u8>))> = vec![
        ("chain of 300 blocks", chain_pair(300)),
        ("clique of 5 blocks on one line", clique_pair(5)),
        ("ring of 6 blocks on one line", ring_pair(6)),
    ];
    let reqs: Vec<String> = small.iter().map(|(_, (g, d))| format!("c14.gcno.computeb 1 {} {}", hex(g), hex(d))).collect();
    let answers = run_model(&reqs, &rep.workdir, "c14gcnodepth");
    for (i, (what, (g, d))) in small.iter().enumerate() {
        let out = outcome_2m(g.clone(), d.clone());
        rep.case(&format!("gcnodepth tie {}", what), true);
        // `show_results` sorts by the formatted key; one file only here
        let imp = if out.starts_with("panic") { "panic".to_string() } else if out.starts_with("err") { "err".to_string() } else { out.trim_end().to_string() };
        let m = if answers[i].starts_with("err") { "err".to_string() } else { answers[i].clone() };
        rep.count(&format!("gcnodepth.tie.{}", imp.split(' ').next().unwrap_or("")));
        if m != imp {
            rep.disagreements_checked += 1;
            rep.fail("disagreement", None, format!("Gcno::compute differs from computeBytes on the {}", what),
                json!({"op": "case", "kind": "gcno2m", "what": what, "data_hex": hex(g), "aux_hex": hex(d), "impl": out, "model": answers[i]}));
        }
    }
    // ---- recursion depth: a chain of blocks, on a thread with the 2 MiB stack of a consumer thread
    let (o, ms, size) = probe(rep, "chain of 2000 blocks (control)", chain_pair(2000));
    rep.case("gcnodepth chain control", true);
    rep.count(&format!("gcnodepth.chain2000.{}", o.split(' ').next().unwrap_or("none")));
    if !o.starts_with("ok") {
        rep.fail("oracle", None, format!("a chain of 2000 blocks ({} bytes) is not read: {} after {} ms", size, o, ms), json!({"op": "gcnodepth", "family": "chain", "n": 2000}));
    }
    let n = 20_000u32;
    let pair = chain_pair(n);
    let case = json!({"op": "case", "kind": "gcno2m", "what": format!("chain of {} blocks", n), "data_hex": hex(&pair.0), "aux_hex": hex(&pair.1)});
    let (o, ms, size) = probe(rep, "chain", pair);
    rep.case("gcnodepth chain", true);
    rep.count(&format!("gcnodepth.chain20000.{}", o.split(' ').next().unwrap_or("none")));
    if !(o.starts_with("ok") || o.starts_with("err")) {
        rep.fail(
            "oracle",
            Some("C14-gcno-recursion-depth-stack-overflow"),
            format!("Gcno::compute on a thread with a 2 MiB stack dies on a function whose {} blocks form a chain ({} bytes of gcno+gcda): {} (propagate_counts recurses once per block)", n, size, if o.is_empty() { "not run" } else { &o }),
            case,
        );
    } else if ms > 2_000 {
        rep.fail("oracle", None, format!("reading {} bytes took {} ms", size, ms), case);
    }
    // ---- cycle search: one line shared by mutually connected blocks
    let (o, ms, size) = probe(rep, "clique of 8 blocks (control)", clique_pair(8));
    rep.case("gcnodepth clique control", true);
    rep.count_n("gcnodepth.clique8.ms", ms as u64);
    if !o.starts_with("ok") || ms as usize > 100 + size / 10 {
        rep.fail("oracle", None, format!("a clique of 8 blocks ({} bytes): {} after {} ms", size, o, ms), json!({"op": "gcnodepth", "family": "clique", "k": 8}));
    }
    let k = 11u32;
    let pair = clique_pair(k);
    let case = json!({"op": "case", "kind": "gcno2m", "what": format!("line shared by {} mutually connected blocks", k), "data_hex": hex(&pair.0), "aux_hex": hex(&pair.1)});
    let (o, ms, size) = probe(rep, "clique", pair);
    rep.case("gcnodepth clique", true);
    rep.count_n("gcnodepth.clique11.ms", ms as u64);
    // a modest multiple of the input size: 100 ms + 1 ms per 10 bytes
    if !(o.starts_with("ok") || o.starts_with("err")) || ms as usize > 100 + size / 10 {
        rep.fail(
            "oracle",
            Some("C14-gcno-cycle-search-exponential"),
            format!("Gcno::compute needs {} ms ({}) for {} bytes of gcno+gcda: one line shared by {} mutually connected blocks, the cycle search enumerates every elementary circuit ({} allowed: 100 ms + 1 ms per 10 bytes)", ms, o.chars().take(20).collect::<String>(), size, k, 100 + size / 10),
            case,
        );
    }
    if let Ok(dir) = std::env::var("C14_DUMP") {
        for (name, pair) in [("chain20000", chain_pair(20_000)), ("clique12", clique_pair(12)), ("clique11", clique_pair(11)), ("ring3000", ring_pair(3000))] {
            let d = std::path::Path::new(&dir).join(name);
            std::fs::create_dir_all(&d).unwrap();
            std::fs::write(d.join("x.gcno"), &pair.0).unwrap();
            std::fs::write(d.join("x.gcda"), &pair.1).unwrap();
        }
    }
    if std::env::var("C14_PROBE").is_ok() {
        for n in [15_000u32, 17_000, 18_000, 19_000, 20_000, 100_000, 1_000_000] {
            let (o, ms, size) = probe(rep, "chain", chain_pair(n));
            eprintln!("PROBE chain n={} bytes={} -> {} in {} ms", n, size, o.chars().take(40).collect::<String>(), ms);
        }
        for n in [1000u32, 2000, 2500, 3000, 10_000] {
            let (o, ms, size) = probe(rep, "ring", ring_pair(n));
            eprintln!("PROBE ring n={} bytes={} -> {} in {} ms", n, size, o.chars().take(40).collect::<String>(), ms);
        }
        for k in [8u32, 9, 10, 11, 12] {
            let (o, ms, size) = probe(rep, "clique", clique_pair(k));
            eprintln!("PROBE clique k={} bytes={} -> {} in {} ms", k, size, o.chars().take(40).collect::<String>(), ms);
        }
    }
}
