use grcov::{parse_jacoco_xml_report, parse_lcov};
use std::io::{BufReader, Cursor};
use std::time::Instant;
fn main() {
    for n in [1000usize, 5000, 20000, 40000, 80000] {
        let mut x = String::from("<report><package ");
        for i in 0..n {
            x.push_str(&format!("a{:06}=\"\" ", i));
        }
        x.push_str("name=\"p\"></package></report>");
        let len = x.len();
        let t = Instant::now();
        let r = parse_jacoco_xml_report(BufReader::new(Cursor::new(x.into_bytes())));
        println!("jacoco attrs n={} bytes={} ok={} ms={}", n, len, r.is_ok(), t.elapsed().as_millis());
    }
    // many lines with many sections
    for n in [100000usize, 400000] {
        let mut x = String::new();
        for i in 0..n {
            x.push_str(&format!("SF:f{}\nFNDA:1,g{}\nFN:1,g{}\nDA:{},1\nend_of_record\n", i, i, i, i));
        }
        let len = x.len();
        let t = Instant::now();
        let r = parse_lcov(x.into_bytes(), true);
        println!("lcov sections n={} bytes={} ok={} ms={}", n, len, r.is_ok(), t.elapsed().as_millis());
    }
    // pending fnda: many FNDA first then FN, one section; then many end_of_record
    for n in [100000usize, 400000] {
        let mut x = String::from("SF:a\n");
        for i in 0..n { x.push_str(&format!("FNDA:1,g{}\n", i)); }
        for i in 0..n { x.push_str(&format!("FN:1,g{}\n", i)); }
        x.push_str("end_of_record\n");
        for i in 0..n { x.push_str(&format!("SF:b{}\nend_of_record\n", i)); }
        let len = x.len();
        let t = Instant::now();
        let r = parse_lcov(x.into_bytes(), true);
        println!("lcov pending n={} bytes={} ok={} ms={}", n, len, r.is_ok(), t.elapsed().as_millis());
    }
}
