use grcov::*;
use std::path::PathBuf;
fn main() {
    let out = PathBuf::from("/tmp/pkgC/probe");
    let _ = std::fs::remove_dir_all(&out);
    std::fs::create_dir_all(&out).unwrap();
    let mut c1 = CovResult::default();
    c1.lines.insert(1, 0); c1.lines.insert(2, 3); c1.lines.insert(3, 0); c1.lines.insert(7, 0);
    let mut c2 = CovResult::default();
    c2.lines.insert(1, 1);
    let names = ["a.c", "dir/b\nc.c", "t\tab.c", "cr\r", "zé.c", "日本.c", "", "sp ", "x | y"];
    let rs: Vec<ResultTuple> = names.iter().enumerate().map(|(i, n)| (PathBuf::from(format!("/src/{}", n)), PathBuf::from(n), if i % 2 == 0 { c1.clone() } else { c2.clone() })).collect();
    let p = out.join("md.md");
    output_markdown(&rs, Some(&p), 2);
    print!("{}", std::fs::read_to_string(&p).unwrap());
    println!("-----");
    output_markdown(&[], Some(&p), 2);
    print!("{:?}", std::fs::read_to_string(&p).unwrap());
    println!("-----");
    output_files(&rs[..2], Some(&p));
    print!("{:?}", std::fs::read_to_string(&p).unwrap());
    println!("-----");
    std::fs::create_dir_all("/tmp/pkgC/src").unwrap();
    std::fs::write("/tmp/pkgC/src/a.c", "x\ny\nz\n").unwrap();
    let rs2: Vec<ResultTuple> = vec![(PathBuf::from("/tmp/pkgC/src/a.c"), PathBuf::from("d/a.c"), c1.clone())];
    let cfgp = out.join("cfg.json");
    std::fs::write(&cfgp, r#"{"hi_limit": 25.0, "med_limit": 12.5}"#).unwrap();
    let h = out.join("html");
    output_html(&rs2, Some(&h), 1, false, Some(&cfgp), 3, &None, true, grcov::html::HtmlResources::Cdn);
    for s in ["flat", "flat_square", "for_the_badge", "plastic", "social"] {
        println!("== {}", s);
        print!("{}", std::fs::read_to_string(h.join("badges").join(format!("{}.svg", s))).unwrap());
        println!("<<EOF");
    }
    println!("{:?}", std::fs::read_to_string(h.join("coverage.json")).unwrap());
}
