//! Run one real writer on a case, decode its output, build the canonical answer that is compared
//! with the Lean model, and evaluate the property oracle (an independent re-statement of C13
//! over the decoded output and the input records; no call into grcov, no use of the model).
use crate::decode::*;
use crate::gen::*;
use crate::printed::{judge, Kind};
use corrlib::*;
use grcov::CovResult;
use std::collections::BTreeMap;
use std::path::Path;

pub const WRITERS: &[&str] = &["lcov", "covdir", "cobertura", "markdown", "ade", "html"];

/// named matchers of known defects (call site + failing condition)
pub const F_ADE_NULL: &str = "C13-ade-null-zero-lines";
pub const F_HTML_ROOT: &str = "C13-html-root-dir-replaces-index";
/// the same reported path twice: `HtmlStats::add` counts both records, the row map keeps one row
pub const F_HTML_DUP: &str = "C13-html-duplicate-path";
/// the header of a file page counts the record's lines, the page lists the source's lines: a source
/// with fewer lines than the record's highest line (short / stale source) or a line 0
pub const F_HTML_UNLISTED: &str = "C13-html-header-counts-unlisted-lines";

#[derive(Clone, Debug)]
pub struct OFail {
    pub finding: Option<&'static str>,
    pub what: String,
}

pub struct Obs {
    /// canonical answer of the implementation (`ok …` with printed rates as `~text`, or `panic …`)
    pub canon: String,
    pub ofails: Vec<OFail>,
}

fn fail(v: &mut Vec<OFail>, what: String) {
    v.push(OFail {
        finding: None,
        what,
    });
}

// ---------------------------------------------------------------------------------------------
// tolerances

#[derive(Clone, Copy, Debug)]
pub enum Tol {
    /// printed with `p` decimals after rounding: half a unit of the last place + float noise
    Half(usize, f64),
    /// printed with full float precision
    Abs(f64),
}
impl Tol {
    pub fn bound(self) -> f64 {
        match self {
            Tol::Half(p, eps) => 0.5 * 10f64.powi(-(p as i32)) + eps,
            Tol::Abs(e) => e,
        }
    }
}
/// f64 arithmetic on values ≤ 100
const EPS64: f64 = 1e-9;
/// three f32 roundings on a value ≤ 100 (ulp 7.6e-6)
const EPS32: f64 = 2e-5;

pub fn tol_of(writer: &str, precision: usize) -> Tol {
    match writer {
        "covdir" | "html" => Tol::Half(precision, EPS64),
        "markdown" => Tol::Half(precision, EPS32),
        "cobertura" => Tol::Abs(1e-12),
        "ade" => Tol::Abs(1e-6),
        _ => Tol::Abs(0.0),
    }
}

thread_local! {
    /// every (request to the model's `printedOK`, verdict of the float check below) of this run
    pub static FIGS: std::cell::RefCell<Option<Vec<(String, bool)>>> = std::cell::RefCell::new(None);
}

/// is the printed figure `num/den` within the tolerance? The audited definition of the tolerance
/// is `Stats/Printed.lean` (`tolOf`, `printedOK`, exact rationals); this float evaluation is what
/// the oracles and the shrinker use, and `run` checks at the end that the two agree on every figure
/// that was evaluated.
pub fn close(fig: &Fig, num: u128, den: u128, tol: Tol) -> bool {
    let ok = match fig.value() {
        Some(v) if den != 0 => (v - num as f64 / den as f64).abs() <= tol.bound(),
        _ => false,
    };
    let w = match tol {
        Tol::Half(p, e) if e == EPS64 => Some(("covdir", p)),
        Tol::Half(p, _) => Some(("markdown", p)),
        Tol::Abs(e) if e == 1e-12 => Some(("cobertura", 0)),
        Tol::Abs(e) if e == 1e-6 => Some(("ade", 0)),
        _ => None,
    };
    if let Some((w, p)) = w {
        FIGS.with(|f| {
            if let Some(v) = f.borrow_mut().as_mut() {
                if v.len() < 40_000 {
                    v.push((format!("printed {} {} {} {} {}", w, p, num, den, hex(fig.0.trim().as_bytes())), ok));
                }
            }
        });
    }
    ok
}

/// the rate part of the property for one figure: finite, inside [0, scale], and equal to
/// scale·covered/total within the printed precision when total ≠ 0
fn check_rate(
    out: &mut Vec<OFail>,
    at: &str,
    fig: &Fig,
    covered: u64,
    total: u64,
    scale: u64,
    tol: Tol,
    zero_total_finding: Option<&'static str>,
) {
    match fig.value() {
        None => out.push(OFail {
            finding: if total == 0 { zero_total_finding } else { None },
            what: format!("{}: printed figure {:?} is not a finite number (covered {} / total {})", at, fig.0, covered, total),
        }),
        Some(v) => {
            if v < 0.0 || v > scale as f64 {
                fail(out, format!("{}: {} outside [0,{}]", at, fig.0, scale));
            }
            if total != 0 && !close(fig, covered as u128 * scale as u128, total as u128, tol) {
                fail(out, format!("{}: printed {} but {}·{}/{} = {} (tolerance {:e})", at, fig.0, scale, covered, total,
                    scale as f64 * covered as f64 / total as f64, tol.bound()));
            }
        }
    }
}

/// shape and rounding of one printed percentage (part Printed)
fn judge_pct(out: &mut Vec<OFail>, at: &str, kind: Kind, p: usize, fig: &Fig, covered: u64, total: u64) {
    if total != 0 && fig.value().is_some() {
        if let Some(w) = judge(kind, p, 100 * covered as u128, total as u128, &fig.0) {
            fail(out, format!("{}: {}", at, w));
        }
    }
}

// independent counts of the input record
fn lines_total(c: &CovResult) -> u64 {
    c.lines.len() as u64
}
fn lines_hit(c: &CovResult) -> u64 {
    c.lines.values().filter(|&&n| n != 0).count() as u64
}
fn funs_total(c: &CovResult) -> u64 {
    c.functions.len() as u64
}
fn funs_hit(c: &CovResult) -> u64 {
    c.functions.values().filter(|f| f.executed).count() as u64
}
fn br_total(c: &CovResult) -> u64 {
    c.branches.values().map(|v| v.len() as u64).sum()
}
fn br_hit(c: &CovResult) -> u64 {
    c.branches
        .values()
        .map(|v| v.iter().filter(|&&b| b).count() as u64)
        .sum()
}

fn read(p: &Path) -> String {
    String::from_utf8_lossy(&std::fs::read(p).unwrap_or_default()).to_string()
}

// ---------------------------------------------------------------------------------------------

pub fn observe(env: &Env, case: &Case, writer: &str) -> Obs {
    let tuples = env.tuples(case);
    let out = env.out.join(format!("report.{}", writer));
    let _ = std::fs::remove_file(&out);
    let r = match writer {
        "lcov" => guarded(|| grcov::output_lcov(&tuples, Some(&out), false)),
        "covdir" => guarded(|| grcov::output_covdir(&tuples, Some(&out), case.precision)),
        "cobertura" => guarded(|| grcov::output_cobertura(None, &tuples, Some(&out), false, false)),
        "markdown" => guarded(|| grcov::output_markdown(&tuples, Some(&out), case.precision)),
        "ade" => guarded(|| grcov::output_activedata_etl(&tuples, Some(&out), false)),
        "html" => {
            let _ = std::fs::remove_dir_all(&out);
            guarded(|| {
                grcov::output_html(
                    &tuples,
                    Some(&out),
                    case.threads,
                    case.branch,
                    None,
                    case.precision,
                    &None,
                    true,
                    grcov::html::HtmlResources::Cdn,
                )
            })
        }
        _ => Err("unknown writer".into()),
    };
    if let Err(p) = r {
        return Obs {
            canon: format!("panic {}", p),
            ofails: vec![],
        };
    }
    let res = match writer {
        "lcov" => obs_lcov(case, &read(&out)),
        "covdir" => obs_covdir(env, case, &read(&out)),
        "cobertura" => obs_cobertura(case, &read(&out)),
        "markdown" => obs_markdown(case, &read(&out)),
        "ade" => obs_ade(case, &read(&out)),
        "html" => {
            let r = obs_html(case, &out);
            let _ = std::fs::remove_dir_all(&out);
            r
        }
        _ => Err("unknown writer".into()),
    };
    match res {
        Ok(o) => o,
        Err(e) => Obs {
            canon: format!("undecodable {}", e),
            ofails: vec![OFail {
                finding: None,
                what: format!("{} output cannot be decoded: {}", writer, e),
            }],
        },
    }
}

// ---------------------------------------------------------------------------------------------
// lcov

fn opt(v: Option<u64>) -> String {
    v.map(|x| x.to_string()).unwrap_or_else(|| "?".into())
}

fn obs_lcov(case: &Case, text: &str) -> Result<Obs, String> {
    let recs = decode_lcov(text)?;
    let mut of = vec![];
    let mut toks = vec![];
    if recs.len() != case.files.len() {
        fail(&mut of, format!("lcov: {} records for {} files", recs.len(), case.files.len()));
    }
    for (i, r) in recs.iter().enumerate() {
        let at = format!("lcov record {} ({})", i, r.sf);
        toks.push(format!(
            "{}|{},{}|{},{}",
            if r.fnf.is_none() && r.fnh.is_none() {
                "-".to_string()
            } else {
                format!("{},{}", opt(r.fnf), opt(r.fnh))
            },
            opt(r.brf),
            opt(r.brh),
            opt(r.lf),
            opt(r.lh)
        ));
        // totals = counts of the listed records
        let mut eq = |name: &str, summary: Option<u64>, listed: u64, may_be_absent: bool| match summary {
            Some(s) if s == listed => {}
            None if may_be_absent && listed == 0 => {}
            _ => fail(&mut of, format!("{}: {} = {:?} but {} records are listed", at, name, summary, listed)),
        };
        eq("FNF", r.fnf, r.n_fn, true);
        eq("FNH", r.fnh, r.n_fnda_hit, true);
        eq("BRF", r.brf, r.n_brda, false);
        eq("BRH", r.brh, r.n_brda_hit, false);
        eq("LF", r.lf, r.n_da, false);
        eq("LH", r.lh, r.n_da_hit, false);
        if r.n_fn != r.n_fnda {
            fail(&mut of, format!("{}: {} FN but {} FNDA records", at, r.n_fn, r.n_fnda));
        }
        for (name, c, t) in [("FN", r.fnh, r.fnf), ("BR", r.brh, r.brf), ("L", r.lh, r.lf)] {
            if c.unwrap_or(0) > t.unwrap_or(0) {
                fail(&mut of, format!("{}: {}H > {}F", at, name, name));
            }
        }
        // … and of the input record
        if let Some(f) = case.files.get(i) {
            let exp = (funs_total(&f.cov), funs_hit(&f.cov), br_total(&f.cov), br_hit(&f.cov), lines_total(&f.cov), lines_hit(&f.cov));
            let got = (r.n_fn, r.n_fnda_hit, r.n_brda, r.n_brda_hit, r.n_da, r.n_da_hit);
            if exp != got {
                fail(&mut of, format!("{}: listed (FN,FNDA hit,BRDA,BRDA taken,DA,DA hit) = {:?}, the record has {:?}", at, got, exp));
            }
        }
    }
    Ok(Obs {
        canon: format!("ok {}", toks.join(" ")).trim_end().to_string(),
        ofails: of,
    })
}

// ---------------------------------------------------------------------------------------------
// covdir

fn obs_covdir(env: &Env, case: &Case, text: &str) -> Result<Obs, String> {
    let nodes = decode_covdir(text)?;
    let tol = tol_of("covdir", case.precision);
    let mut of = vec![];
    let mut toks = vec![];
    for (i, n) in nodes.iter().enumerate() {
        let at = format!("covdir {} {:?}", if n.is_dir { "directory" } else { "file" }, n.label);
        let t = format!("{},{},{},~{}", n.total, n.covered, n.missed, n.pct.0);
        if i == 0 {
            toks.push(format!("d={}", t));
        } else {
            toks.push(format!("{}{}={}", if n.is_dir { "d" } else { "f" }, hex(n.label.as_bytes()), t));
        }
        if n.covered > n.total {
            fail(&mut of, format!("{}: covered {} > total {}", at, n.covered, n.total));
        }
        if n.covered + n.missed != n.total {
            fail(&mut of, format!("{}: covered {} + missed {} != total {}", at, n.covered, n.missed, n.total));
        }
        check_rate(&mut of, &at, &n.pct, n.covered, n.total, 100, tol, None);
        judge_pct(&mut of, &at, Kind::Covdir, case.precision, &n.pct, n.covered, n.total);
        if n.is_dir {
            let (mut t, mut c, mut m) = (0, 0, 0);
            for &k in &n.children {
                t += nodes[k].total;
                c += nodes[k].covered;
                m += nodes[k].missed;
            }
            if (t, c, m) != (n.total, n.covered, n.missed) {
                fail(&mut of, format!("{}: (total,covered,missed) = {:?} but its children sum to {:?}", at,
                    (n.total, n.covered, n.missed), (t, c, m)));
            }
        } else if let Some(cov) = &n.coverage {
            let listed = cov.iter().filter(|&&x| x >= 0).count() as u64;
            let hit = cov.iter().filter(|&&x| x > 0).count() as u64;
            if listed != n.total || hit != n.covered {
                fail(&mut of, format!("{}: linesTotal {} linesCovered {} but the coverage array lists {} lines, {} hit", at,
                    n.total, n.covered, listed, hit));
            }
        } else {
            fail(&mut of, format!("{}: file without coverage array", at));
        }
    }
    toks[1..].sort();
    // against the input: every file once, under the path the writer is meant to use
    let files: BTreeMap<&str, &CdNode> = nodes.iter().filter(|n| !n.is_dir).map(|n| (n.label.as_str(), n)).collect();
    if files.len() != case.files.len() {
        fail(&mut of, format!("covdir: {} file nodes for {} files", files.len(), case.files.len()));
    }
    for f in &case.files {
        let label = if f.rel_abs {
            comps(&env.abs(f)).iter().map(|c| String::from_utf8_lossy(c).to_string()).collect::<Vec<_>>().join("/")
        } else {
            f.rel.clone()
        };
        match files.get(label.as_str()) {
            Some(n) => {
                if (n.total, n.covered) != (lines_total(&f.cov), lines_hit(&f.cov)) {
                    fail(&mut of, format!("covdir file {:?}: (total,covered) = {:?}, the record has {:?}", label,
                        (n.total, n.covered), (lines_total(&f.cov), lines_hit(&f.cov))));
                }
            }
            None => fail(&mut of, format!("covdir: file {:?} not in the tree", label)),
        }
    }
    let want: (u64, u64) = case.files.iter().fold((0, 0), |a, f| (a.0 + lines_total(&f.cov), a.1 + lines_hit(&f.cov)));
    if (nodes[0].total, nodes[0].covered) != want {
        fail(&mut of, format!("covdir root: (total,covered) = {:?}, the records sum to {:?}", (nodes[0].total, nodes[0].covered), want));
    }
    // matcher of the known finding C03-covdir-name-collision: the filed paths collide (same path
    // twice, or a file path that is a directory of another result) and what fails is what the
    // `children` map drops: a file missing / replaced, or a total that is not the sum of the listed
    // children
    if has_name_collision(env, case) {
        for f in of.iter_mut() {
            if f.finding.is_none()
                && (f.what.contains("but its children sum to") || f.what.contains("file nodes for") || f.what.contains("not in the tree") || f.what.contains("the record has"))
            {
                f.finding = Some("C03-covdir-name-collision");
            }
        }
    }
    Ok(Obs {
        canon: format!("ok {}", toks.join(" ")),
        ofails: of,
    })
}

// ---------------------------------------------------------------------------------------------
// cobertura

fn cob_counts(lines: &[CobLine], of: &mut Vec<OFail>, at: &str) -> (u64, u64, u64, u64) {
    let lv = lines.len() as u64;
    let lc = lines.iter().filter(|l| l.hits > 0).count() as u64;
    let mut bv = 0;
    let mut bc = 0;
    for l in lines {
        for c in &l.conds {
            bv += 1;
            match c.value() {
                Some(v) if v == 1.0 => bc += 1,
                Some(v) if v == 0.0 => {}
                _ => fail(of, format!("{}: condition coverage {:?} is neither 0 nor 1", at, c.0)),
            }
        }
    }
    (lc, lv, bc, bv)
}

fn whole(f: &Fig) -> String {
    match f.value() {
        Some(v) if v >= 0.0 && v.fract() == 0.0 && v < 1e15 => format!("{}", v as u64),
        _ => format!("?{}", f.0),
    }
}

fn obs_cobertura(case: &Case, text: &str) -> Result<Obs, String> {
    let doc = decode_cobertura(text)?;
    let tol = tol_of("cobertura", 0);
    let mut of = vec![];
    let mut toks = vec![format!(
        "G={},{},~{},{},{},~{}",
        whole(&doc.lines_covered), whole(&doc.lines_valid), doc.line_rate.0,
        whole(&doc.branches_covered), whole(&doc.branches_valid), doc.branch_rate.0
    )];
    if doc.pkgs.len() != case.files.len() {
        fail(&mut of, format!("cobertura: {} packages for {} files", doc.pkgs.len(), case.files.len()));
    }
    let mut sum = (0u64, 0u64, 0u64, 0u64);
    for (i, p) in doc.pkgs.iter().enumerate() {
        let at = format!("cobertura package {} ({})", i, p.name);
        if p.classes.len() != 1 {
            fail(&mut of, format!("{}: {} classes", at, p.classes.len()));
            continue;
        }
        let c = &p.classes[0];
        // a class's own lines are the parts; the method lines repeat some of them
        let (lc, lv, bc, bv) = cob_counts(&c.lines, &mut of, &at);
        sum = (sum.0 + lc, sum.1 + lv, sum.2 + bc, sum.3 + bv);
        check_rate(&mut of, &format!("{} class line-rate", at), &c.line_rate, lc, lv, 1, tol, None);
        check_rate(&mut of, &format!("{} class branch-rate", at), &c.branch_rate, bc, bv, 1, tol, None);
        check_rate(&mut of, &format!("{} line-rate", at), &p.line_rate, lc, lv, 1, tol, None);
        check_rate(&mut of, &format!("{} branch-rate", at), &p.branch_rate, bc, bv, 1, tol, None);
        let mut seen = std::collections::BTreeSet::new();
        for l in &c.lines {
            if !seen.insert(l.number) {
                fail(&mut of, format!("{}: line {} listed twice in the class", at, l.number));
            }
        }
        let mut ms: Vec<String> = vec![];
        for m in &c.methods {
            let mat = format!("{} method {:?}", at, m.name);
            let (mlc, mlv, mbc, mbv) = cob_counts(&m.lines, &mut of, &mat);
            check_rate(&mut of, &format!("{} line-rate", mat), &m.line_rate, mlc, mlv, 1, tol, None);
            check_rate(&mut of, &format!("{} branch-rate", mat), &m.branch_rate, mbc, mbv, 1, tol, None);
            for l in &m.lines {
                if !c.lines.iter().any(|k| k.number == l.number && k.hits == l.hits && k.conds == l.conds) {
                    fail(&mut of, format!("{}: line {} is not a line of the class", mat, l.number));
                }
            }
            ms.push(format!("M{}:~{},~{}", hex(m.name.as_bytes()), m.line_rate.0, m.branch_rate.0));
        }
        ms.sort();
        let mut t = format!("P~{},~{}|C~{},~{}", p.line_rate.0, p.branch_rate.0, c.line_rate.0, c.branch_rate.0);
        for m in ms {
            t.push('|');
            t.push_str(&m);
        }
        toks.push(t);
        if let Some(f) = case.files.get(i) {
            if (lc, lv) != (lines_hit(&f.cov), lines_total(&f.cov)) {
                fail(&mut of, format!("{}: lists {} lines, {} hit; the record has {}, {} hit", at, lv, lc, lines_total(&f.cov), lines_hit(&f.cov)));
            }
        }
    }
    // the global figures are the sums over the packages
    let g = (whole(&doc.lines_covered), whole(&doc.lines_valid), whole(&doc.branches_covered), whole(&doc.branches_valid));
    let s = (sum.0.to_string(), sum.1.to_string(), sum.2.to_string(), sum.3.to_string());
    if g != s {
        fail(&mut of, format!("cobertura coverage element: (lines-covered, lines-valid, branches-covered, branches-valid) = {:?} but the packages sum to {:?}", g, s));
    }
    if sum.0 > sum.1 || sum.2 > sum.3 {
        fail(&mut of, "cobertura: covered > valid".into());
    }
    check_rate(&mut of, "cobertura coverage line-rate", &doc.line_rate, sum.0, sum.1, 1, tol, None);
    check_rate(&mut of, "cobertura coverage branch-rate", &doc.branch_rate, sum.2, sum.3, 1, tol, None);
    Ok(Obs {
        canon: format!("ok {}", toks.join(" ")),
        ofails: of,
    })
}

// ---------------------------------------------------------------------------------------------
// markdown

fn obs_markdown(case: &Case, text: &str) -> Result<Obs, String> {
    let doc = decode_markdown(text)?;
    let tol = tol_of("markdown", case.precision);
    let mut of = vec![];
    let mut toks = vec![];
    if doc.rows.len() != case.files.len() {
        fail(&mut of, format!("markdown: {} rows for {} files", doc.rows.len(), case.files.len()));
    }
    let (mut tc, mut tl) = (0u64, 0u64);
    for (i, r) in doc.rows.iter().enumerate() {
        let at = format!("markdown row {} ({})", i, r.file);
        toks.push(format!("{},{},~{}", r.covered, r.total, r.pct.0));
        if r.covered > r.total {
            fail(&mut of, format!("{}: covered {} > total {}", at, r.covered, r.total));
        }
        check_rate(&mut of, &at, &r.pct, r.covered, r.total, 100, tol, None);
        judge_pct(&mut of, &at, Kind::Markdown, case.precision, &r.pct, r.covered, r.total);
        tc += r.covered;
        tl += r.total;
        if let Some(f) = case.files.get(i) {
            if (r.covered, r.total) != (lines_hit(&f.cov), lines_total(&f.cov)) {
                fail(&mut of, format!("{}: 'covered / total' = {} / {}, the record has {} / {}", at, r.covered, r.total,
                    lines_hit(&f.cov), lines_total(&f.cov)));
            }
            // the missed_lines column lists exactly the lines that are not covered
            // (line 0 is the writer's "no open range" sentinel and no real line number: skipped)
            for (&l, &n) in f.cov.lines.iter().filter(|(&l, _)| l != 0) {
                let inside = r.missed.iter().any(|&(a, b)| a <= l as u64 && l as u64 <= b);
                if inside != (n == 0) {
                    fail(&mut of, format!("{}: line {} (count {}) {} the missed ranges", at, l, n, if inside { "inside" } else { "outside" }));
                }
            }
        }
    }
    toks.push(format!("T=~{}", doc.total.0));
    check_rate(&mut of, "markdown total", &doc.total, tc, tl, 100, tol, None);
    judge_pct(&mut of, "markdown total", Kind::Markdown, case.precision, &doc.total, tc, tl);
    Ok(Obs {
        canon: format!("ok {}", toks.join(" ")),
        ofails: of,
    })
}

// ---------------------------------------------------------------------------------------------
// ade

fn obs_ade(case: &Case, text: &str) -> Result<Obs, String> {
    let files = decode_ade(text)?;
    let tol = tol_of("ade", 0);
    let mut of = vec![];
    let mut toks = vec![];
    if files.len() != case.files.len() {
        fail(&mut of, format!("ade: {} file records for {} files", files.len(), case.files.len()));
    }
    let part = |of: &mut Vec<OFail>, at: &str, p: &AdePartD| -> String {
        if p.total_covered != p.n_covered || p.total_uncovered != p.n_uncovered {
            fail(of, format!("{}: total_covered {} total_uncovered {} but {} / {} lines are listed", at,
                p.total_covered, p.total_uncovered, p.n_covered, p.n_uncovered));
        }
        check_rate(of, at, &p.pct, p.total_covered, p.total_covered + p.total_uncovered, 1, tol, Some(F_ADE_NULL));
        format!("{},{},~{}", p.total_covered, p.total_uncovered, p.pct.0)
    };
    for (i, f) in files.iter().enumerate() {
        let at = format!("ade file {} ({})", i, f.name);
        let mut t = format!("F{}", part(&mut of, &format!("{} file", at), &f.file));
        t.push_str(&format!("|O{}", part(&mut of, &format!("{} orphan lines", at), &f.orphan)));
        let mut ms = vec![];
        let (mut mc, mut mu) = (f.orphan.total_covered, f.orphan.total_uncovered);
        for (name, p) in &f.methods {
            ms.push(format!("M{}:{}", hex(name.as_bytes()), part(&mut of, &format!("{} method {:?}", at, name), p)));
            mc += p.total_covered;
            mu += p.total_uncovered;
        }
        ms.sort();
        for m in ms {
            t.push('|');
            t.push_str(&m);
        }
        toks.push(t);
        if let Some(inp) = case.files.get(i) {
            let hit = lines_hit(&inp.cov);
            if (f.file.total_covered, f.file.total_uncovered) != (hit, lines_total(&inp.cov) - hit) {
                fail(&mut of, format!("{}: (covered, uncovered) = {:?}, the record has {:?}", at,
                    (f.file.total_covered, f.file.total_uncovered), (hit, lines_total(&inp.cov) - hit)));
            }
            // every line belongs to at least one method or to the orphans; with functions that
            // share a start line a line is listed under each of them, so ≥, and = when the
            // start lines are distinct
            let starts: std::collections::BTreeSet<u32> = inp.cov.functions.values().map(|x| x.start).collect();
            let distinct = starts.len() == inp.cov.functions.len();
            let tot = (f.file.total_covered, f.file.total_uncovered);
            if (distinct && (mc, mu) != tot) || mc < tot.0 || mu < tot.1 {
                fail(&mut of, format!("{}: methods + orphans list {:?} lines, the file {:?}", at, (mc, mu), tot));
            }
        }
    }
    Ok(Obs {
        canon: format!("ok {}", toks.join(" ")).trim_end().to_string(),
        ofails: of,
    })
}

// ---------------------------------------------------------------------------------------------
// html

fn find_indexes(dir: &Path, rel: &str, out: &mut Vec<String>) {
    if let Ok(rd) = std::fs::read_dir(dir) {
        for e in rd.flatten() {
            let p = e.path();
            let name = e.file_name().to_string_lossy().to_string();
            if p.is_dir() {
                let sub = if rel.is_empty() { name.clone() } else { format!("{}/{}", rel, name) };
                find_indexes(&p, &sub, out);
            } else if name == "index.html" {
                out.push(rel.to_string());
            }
        }
    }
}

fn stats9(summary: &[(String, HStat)]) -> String {
    // model order: total,covered,rate
    summary
        .iter()
        .map(|(_, s)| format!("{},{},~{}", s.total, s.covered, s.pct.0))
        .collect::<Vec<_>>()
        .join(",")
}
fn row9(r: &HRow) -> String {
    let mut v = vec![
        format!("{},{},~{}", r.lines.total, r.lines.covered, r.lines.pct.0),
        format!("{},{},~{}", r.funs.total, r.funs.covered, r.funs.pct.0),
    ];
    if let Some(b) = &r.branches {
        v.push(format!("{},{},~{}", b.total, b.covered, b.pct.0));
    }
    v.join(",")
}

type Six = (u64, u64, u64, u64, u64, u64);
fn six_of_summary(p: &HPage) -> Six {
    let g = |k: &str| p.summary.iter().find(|(n, _)| n == k).map(|(_, s)| (s.total, s.covered)).unwrap_or((0, 0));
    let (l, f, b) = (g("Lines"), g("Functions"), g("Branches"));
    (l.0, l.1, f.0, f.1, b.0, b.1)
}
fn six_of_row(r: &HRow) -> Six {
    let b = r.branches.as_ref().map(|b| (b.total, b.covered)).unwrap_or((0, 0));
    (r.lines.total, r.lines.covered, r.funs.total, r.funs.covered, b.0, b.1)
}
fn six_add(a: Six, b: Six) -> Six {
    (a.0 + b.0, a.1 + b.1, a.2 + b.2, a.3 + b.3, a.4 + b.4, a.5 + b.5)
}
fn six_of_cov(c: &CovResult, branch: bool) -> Six {
    (lines_total(c), lines_hit(c), funs_total(c), funs_hit(c),
     if branch { br_total(c) } else { 0 }, if branch { br_hit(c) } else { 0 })
}

fn check_page(of: &mut Vec<OFail>, at: &str, p: &HPage, case: &Case) {
    let tol = tol_of("html", case.precision);
    let want = if case.branch { 3 } else { 2 };
    if p.summary.len() != want {
        fail(of, format!("{}: {} summary figures", at, p.summary.len()));
    }
    for (k, s) in &p.summary {
        let a = format!("{} summary {}", at, k);
        if s.covered > s.total {
            fail(of, format!("{}: covered {} > total {}", a, s.covered, s.total));
        }
        check_rate(of, &a, &s.pct, s.covered, s.total, 100, tol, None);
        judge_pct(of, &a, Kind::Html, case.precision, &s.pct, s.covered, s.total);
    }
    let mut sum: Six = (0, 0, 0, 0, 0, 0);
    for r in &p.rows {
        let a = format!("{} row {:?}", at, r.name);
        let mut stats = vec![("lines", &r.lines), ("functions", &r.funs)];
        if let Some(b) = &r.branches {
            stats.push(("branches", b));
        }
        if r.branches.is_some() != case.branch {
            fail(of, format!("{}: branch columns do not match --branch", a));
        }
        for (k, s) in stats {
            if s.covered > s.total {
                fail(of, format!("{} {}: covered {} > total {}", a, k, s.covered, s.total));
            }
            check_rate(of, &format!("{} {}", a, k), &s.pct, s.covered, s.total, 100, tol, None);
            judge_pct(of, &format!("{} {}", a, k), Kind::Html, case.precision, &s.pct, s.covered, s.total);
        }
        // the progress bar shows the line figure too
        check_rate(of, &format!("{} progress text", a), &r.progress_text, r.lines.covered, r.lines.total, 100, tol, None);
        judge_pct(of, &format!("{} progress text", a), Kind::Html, case.precision, &r.progress_text, r.lines.covered, r.lines.total);
        check_rate(of, &format!("{} progress value", a), &r.progress_value, r.lines.covered, r.lines.total, 100, Tol::Abs(EPS64), None);
        sum = six_add(sum, six_of_row(r));
    }
    // the summary of an index page is the sum of its rows
    if !p.kind.is_empty() && six_of_summary(p) != sum {
        fail(of, format!("{}: summary (lines total,covered, functions total,covered, branches total,covered) = {:?} but the rows sum to {:?}",
            at, six_of_summary(p), sum));
    }
}

/// the directories (and "" for the global index) whose pages a repeated path makes inconsistent
fn dup_dirs(case: &Case) -> Vec<String> {
    let mut v = vec![];
    for (rel, _) in dup_paths(case) {
        if case.files.iter().any(|f| f.rel == rel && !f.rel_abs && f.exists) {
            v.push(match rel.rsplit_once('/') {
                Some((p, _)) => p.to_string(),
                None => String::new(),
            });
        }
    }
    v
}

fn obs_html(case: &Case, out: &Path) -> Result<Obs, String> {
    let mut of = vec![];
    let top = decode_html_page(&read(&out.join("index.html"))).map_err(|e| format!("index.html: {}", e))?;
    check_page(&mut of, "html index.html", &top, case);
    let mut toks = vec![];
    for r in &top.rows {
        toks.push(format!("R{}={}", hex(r.name.as_bytes()), row9(r)));
    }
    // badges and coverage.json
    let mut badge: Option<String> = None;
    for style in ["flat", "flat_square", "for_the_badge", "plastic", "social"] {
        let b = decode_badge(&read(&out.join("badges").join(format!("{}.svg", style))))
            .map_err(|e| format!("badge {}: {}", style, e))?;
        match &badge {
            None => badge = Some(b),
            Some(a) if *a != b => fail(&mut of, format!("html badges disagree: {} vs {} ({})", a, b, style)),
            _ => {}
        }
    }
    let badge = badge.unwrap();
    let json = decode_coverage_json(&read(&out.join("coverage.json")))?;

    // directory pages: every index.html below the output directory that lists files
    let mut dirs = vec![];
    find_indexes(out, "", &mut dirs);
    dirs.sort();
    let mut pages: BTreeMap<String, HPage> = BTreeMap::new();
    for d in dirs {
        let p = if d.is_empty() { top.clone() } else {
            decode_html_page(&read(&out.join(&d).join("index.html"))).map_err(|e| format!("{}/index.html: {}", d, e))?
        };
        if p.kind == "File" {
            check_page(&mut of, &format!("html {}/index.html", d), &p, case);
            toks.push(format!("D{}={}", hex(d.as_bytes()), stats9(&p.summary)));
            for r in &p.rows {
                toks.push(format!("F{}/{}={}", hex(d.as_bytes()), hex(r.name.as_bytes()), row9(r)));
            }
            pages.insert(d, p);
        } else if !d.is_empty() {
            fail(&mut of, format!("html {}/index.html lists {:?}", d, p.kind));
        }
    }
    toks.sort();

    // expected from the input, independently: files that are shown, grouped by parent
    let shown: Vec<&FileCase> = case.files.iter().filter(|f| !f.rel_abs && f.exists).collect();
    let dups = dup_paths(case);
    let mut global: Six = (0, 0, 0, 0, 0, 0);
    let mut by_dir: BTreeMap<String, Six> = BTreeMap::new();
    let mut names: std::collections::BTreeSet<&str> = Default::default();
    for f in &shown {
        let s = six_of_cov(&f.cov, case.branch);
        global = six_add(global, s);
        let (parent, name) = match f.rel.rsplit_once('/') {
            Some((p, n)) => (p.to_string(), n.to_string()),
            None => (String::new(), f.rel.clone()),
        };
        let e = by_dir.entry(parent.clone()).or_insert((0, 0, 0, 0, 0, 0));
        *e = six_add(*e, s);
        names.insert(f.rel.as_str());
        // a path that occurs twice has ONE row and ONE source page: those of either record (which
        // one survives depends on the order the worker threads take them)
        let twins: Vec<Six> = if dups.contains_key(&f.rel) {
            shown.iter().filter(|g| g.rel == f.rel).map(|g| six_of_cov(&g.cov, case.branch)).collect()
        } else {
            vec![s]
        };
        match pages.get(&parent).and_then(|p| p.rows.iter().find(|r| r.name == name)) {
            Some(r) => {
                if !twins.contains(&six_of_row(r)) {
                    fail(&mut of, format!("html {}/index.html row {:?}: {:?}, the record has {:?}", parent, name, six_of_row(r), s));
                }
            }
            None => fail(&mut of, format!("html: file {:?} is not listed in the page of its directory", f.rel)),
        }
        // the source page shows the same figures as its row …
        if f.rel.rsplit('/').next().map(|n| n.contains('.')).unwrap_or(false) {
            let fp = out.join(format!("{}.html", f.rel));
            let text = read(&fp);
            match decode_html_page(&text) {
                Ok(p) => {
                    check_page(&mut of, &format!("html {}.html", f.rel), &p, case);
                    if !twins.contains(&six_of_summary(&p)) {
                        fail(&mut of, format!("html {}.html: summary {:?}, the record has {:?}", f.rel, six_of_summary(&p), s));
                    }
                    // … and its "Lines" figures are the counts of the rows the page lists (item 22)
                    match decode_file_rows(&text) {
                        Ok(rows) => {
                            let n_src = source_text(f.src_lines).lines().count() as u64;
                            if rows.len() as u64 != n_src || rows.iter().enumerate().any(|(i, r)| r.0 != i as u64 + 1) {
                                fail(&mut of, format!("html {}.html lists {} rows for a source of {} lines", f.rel, rows.len(), n_src));
                            }
                            let listed = rows.iter().filter(|r| r.1.is_some()).count() as u64;
                            let hit = rows.iter().filter(|r| r.1.map_or(false, |n| n > 0)).count() as u64;
                            let hdr = six_of_summary(&p);
                            crate::ROWS.with(|v| v.borrow_mut().push((
                                format!("c13.html.rows s{} {}", hex(source_text(f.src_lines).as_bytes()),
                                    show_cov(&shown.iter().rev().find(|g| g.rel == f.rel && six_of_cov(&g.cov, case.branch) == hdr).unwrap_or(f).cov)),
                                format!("{},{} {},{} {}", hdr.0, hdr.1, listed, hit, rows.len()))));
                            if (hdr.0, hdr.1) != (listed, hit) {
                                // matcher of C13-html-header-counts-unlisted-lines: some line of the record
                                // has no row (line 0, or a line beyond the end of the source) and the header
                                // exceeds the listed rows by exactly those lines
                                let rec = shown.iter().filter(|g| g.rel == f.rel).find(|g| six_of_cov(&g.cov, case.branch) == hdr).unwrap_or(f);
                                let beyond = rec.cov.lines.iter().filter(|(&l, _)| l == 0 || l as u64 > n_src).count() as u64;
                                let beyond_hit = rec.cov.lines.iter().filter(|(&l, &n)| (l == 0 || l as u64 > n_src) && n > 0).count() as u64;
                                let named = beyond > 0 && hdr.0 == listed + beyond && hdr.1 == hit + beyond_hit;
                                of.push(OFail {
                                    finding: if named { Some(F_HTML_UNLISTED) } else { None },
                                    what: format!("html {}.html: the header says {} / {} lines, the page lists {} instrumented rows, {} hit (source of {} lines, highest line of the record {})",
                                        f.rel, hdr.1, hdr.0, listed, hit, n_src, rec.cov.lines.keys().last().copied().unwrap_or(0)),
                                });
                            }
                        }
                        Err(e) => fail(&mut of, format!("html {}.html rows: {}", f.rel, e)),
                    }
                }
                Err(e) => fail(&mut of, format!("html {}.html: {}", f.rel, e)),
            }
        }
    }
    for (d, s) in &by_dir {
        match pages.get(d) {
            Some(p) if six_of_summary(p) == *s => {}
            Some(p) => fail(&mut of, format!("html {}/index.html: summary {:?}, its files sum to {:?}", d, six_of_summary(p), s)),
            None => fail(&mut of, format!("html: no index page for directory {:?}", d)),
        }
    }
    let n_rows: usize = pages.values().map(|p| p.rows.len()).sum();
    if n_rows != names.len() {
        fail(&mut of, format!("html: {} file rows for {} shown paths", n_rows, names.len()));
    }
    // matcher of C13-html-duplicate-path: the result set has two shown records with one reported
    // path, and what fails is "the summary of that directory's page (or of the global index, whose
    // row of that directory carries the same sums) is not the sum of its rows"
    let dd = dup_dirs(case);
    if !dd.is_empty() {
        for f in of.iter_mut() {
            if f.finding.is_none() && f.what.contains("but the rows sum to") {
                let on_dup_page = dd.iter().any(|d| f.what.starts_with(&format!("html {}/index.html:", d)) || (d.is_empty() && f.what.starts_with("html index.html:")));
                if on_dup_page {
                    f.finding = Some(F_HTML_DUP);
                }
            }
        }
    }

    // the top-level index lists the directories and carries the global totals; the badge and
    // coverage.json show the line figure of those same totals
    let root_replaced = top.kind != "Directory" && by_dir.contains_key("");
    let fnd = if root_replaced { Some(F_HTML_ROOT) } else { None };
    if top.kind != "Directory" && !root_replaced {
        fail(&mut of, format!("html index.html lists {:?} instead of the directories", top.kind));
    }
    if six_of_summary(&top) != global {
        of.push(OFail { finding: fnd, what: format!("html index.html: summary {:?}, the shown records sum to {:?}", six_of_summary(&top), global) });
    } else if top.kind == "Directory" {
        for (d, s) in &by_dir {
            match top.rows.iter().find(|r| r.name == *d) {
                Some(r) if six_of_row(r) == *s => {}
                _ => fail(&mut of, format!("html index.html: row of directory {:?} missing or != {:?}", d, s)),
            }
        }
        if top.rows.len() != by_dir.len() {
            fail(&mut of, format!("html index.html: {} rows for {} directories", top.rows.len(), by_dir.len()));
        }
    }
    let idx = six_of_summary(&top);
    let tol = tol_of("html", case.precision);
    // badge: the percentage truncated to an integer (one unit of the printed precision)
    let bad_badge = match badge.parse::<u64>() {
        Ok(b) if idx.0 != 0 => {
            let exact = 100.0 * idx.1 as f64 / idx.0 as f64;
            !(b as f64 <= exact + EPS64 && exact - 1.0 - EPS64 < b as f64)
        }
        Ok(b) => b > 100,
        Err(_) => true,
    };
    if bad_badge {
        of.push(OFail { finding: fnd, what: format!("html badge shows {}% but index.html shows lines {} / {}", badge, idx.1, idx.0) });
    }
    let mut jf = vec![];
    check_rate(&mut jf, "html coverage.json message vs index.html line totals", &json, idx.1, idx.0, 100, tol, None);
    judge_pct(&mut jf, "html coverage.json message", Kind::Json, case.precision, &json, idx.1, idx.0);
    for mut f in jf {
        f.finding = fnd;
        of.push(f);
    }
    let mut head = vec![
        format!("K={}", if top.kind == "Directory" { "D" } else if top.kind == "File" { "F" } else { "?" }),
        format!("G={}", stats9(&top.summary)),
        format!("B={}", badge),
        format!("J=~{}", json.0),
    ];
    head.extend(toks);
    Ok(Obs {
        canon: format!("ok {}", head.join(" ")),
        ofails: of,
    })
}

// ---------------------------------------------------------------------------------------------
// The oracle must reject reports whose figures are wrong: doctored outputs of the real writers.
#[cfg(test)]
mod tests {
    use super::*;

    fn case() -> (Env, Case) {
        let dir = std::env::temp_dir().join(format!("c13-oracle-test-{}", std::process::id()));
        let env = Env::new(&dir);
        let f = |rel: &str, cov: &str| FileCase {
            rel: rel.into(),
            rel_abs: false,
            exists: true,
            src_lines: Some(9),
            cov: parse_cov(cov),
        };
        let case = Case {
            files: vec![
                f("s/a/x.c", "L1:5,2:0,4:7;B1:10,4:1;F66:1:1,67:4:0"),
                f("s/y.c", "L3:0,5:1;B;F"),
                f("s/a/z.c", "L7:1;B7:01;F68:7:1"),
            ],
            precision: 2,
            branch: true,
            threads: 1,
        };
        (env, case)
    }
    fn text(env: &Env, case: &Case, w: &str) -> String {
        let t = env.tuples(case);
        let p = env.out.join(format!("t.{}", w));
        match w {
            "lcov" => grcov::output_lcov(&t, Some(&p), false),
            "covdir" => grcov::output_covdir(&t, Some(&p), case.precision),
            "cobertura" => grcov::output_cobertura(None, &t, Some(&p), false, false),
            "markdown" => grcov::output_markdown(&t, Some(&p), case.precision),
            "ade" => grcov::output_activedata_etl(&t, Some(&p), false),
            _ => unreachable!(),
        }
        read(&p)
    }
    fn unnamed(o: &Obs) -> usize {
        o.ofails.iter().filter(|f| f.finding.is_none()).count()
    }
    fn doctored(s: &str, from: &str, to: &str) -> String {
        assert!(s.contains(from), "{:?} not in {}", from, s);
        s.replacen(from, to, 1)
    }

    #[test]
    fn genuine_reports_pass() {
        let (env, case) = case();
        for w in ["lcov", "covdir", "cobertura", "markdown", "ade", "html"] {
            let o = observe(&env, &case, w);
            assert_eq!(unnamed(&o), 0, "{}: {:?}", w, o.ofails);
        }
    }
    #[test]
    fn lcov_wrong_totals_are_rejected() {
        let (env, case) = case();
        let t = text(&env, &case, "lcov");
        for (a, b) in [("LH:2", "LH:3"), ("LF:3", "LF:4"), ("BRF:3", "BRF:2"), ("BRH:2", "BRH:1"), ("FNH:1", "FNH:2"), ("FNF:2", "FNF:1")] {
            let o = obs_lcov(&case, &doctored(&t, a, b)).unwrap();
            assert!(unnamed(&o) > 0, "{} -> {} accepted", a, b);
        }
    }
    #[test]
    fn covdir_wrong_figures_are_rejected() {
        let (env, case) = case();
        let t = text(&env, &case, "covdir");
        // root: 6 lines, 4 covered; directory s/a: 4 lines, 3 covered
        for (a, b) in [
            ("\"linesTotal\":6", "\"linesTotal\":7"),
            ("\"linesCovered\":4", "\"linesCovered\":3"),
            ("\"linesMissed\":2", "\"linesMissed\":1"),
            ("\"coveragePercent\":66.67", "\"coveragePercent\":66.66"),
            ("\"coveragePercent\":66.67", "\"coveragePercent\":67.0"),
            ("\"coveragePercent\":75.0", "\"coveragePercent\":null"),
            ("\"linesTotal\":4", "\"linesTotal\":5"),
        ] {
            let o = obs_covdir(&env, &case, &doctored(&t, a, b)).unwrap();
            assert!(unnamed(&o) > 0, "{} -> {} accepted", a, b);
        }
    }
    #[test]
    fn cobertura_wrong_figures_are_rejected() {
        let (env, case) = case();
        let t = text(&env, &case, "cobertura");
        for (a, b) in [
            ("lines-valid=\"6\"", "lines-valid=\"7\""),
            ("lines-covered=\"4\"", "lines-covered=\"5\""),
            ("line-rate=\"0.6666666666666666\"", "line-rate=\"0.66\""),
            ("branches-valid=\"5\"", "branches-valid=\"8\""),
            ("<package name=\"s/y.c\" line-rate=\"0.5\"", "<package name=\"s/y.c\" line-rate=\"1\""),
            ("branch-rate=\"0.6\"", "branch-rate=\"NaN\""),
        ] {
            let o = obs_cobertura(&case, &doctored(&t, a, b)).unwrap();
            assert!(unnamed(&o) > 0, "{} -> {} accepted", a, b);
        }
    }
    #[test]
    fn markdown_wrong_figures_are_rejected() {
        let (env, case) = case();
        let t = text(&env, &case, "markdown");
        for (a, b) in [("66.67%", "66.66%"), ("2 / 3", "3 / 3"), ("Total coverage: 66.67%", "Total coverage: 66.6%"), ("50.00%", "inf%"),
                       ("50.00%", "NaN%"), ("Total coverage: 66.67%", "Total coverage: NaN%")] {
            let o = obs_markdown(&case, &doctored(&t, a, b)).unwrap();
            assert!(unnamed(&o) > 0, "{} -> {} accepted", a, b);
        }
    }
    #[test]
    fn ade_wrong_figures_are_rejected() {
        let (env, case) = case();
        let t = text(&env, &case, "ade");
        for (a, b) in [("\"total_covered\":2", "\"total_covered\":3"), ("\"percentage_covered\":0.5", "\"percentage_covered\":0.6")] {
            let o = obs_ade(&case, &doctored(&t, a, b)).unwrap();
            assert!(unnamed(&o) > 0, "{} -> {} accepted", a, b);
        }
    }
    #[test]
    fn html_wrong_figures_are_rejected() {
        let (env, case) = case();
        let t = env.tuples(&case);
        let edits: &[(&str, &str, &str)] = &[
            ("index.html", "<abbr title=\"4 / 6\">", "<abbr title=\"5 / 6\">"),
            ("index.html", "66.67 %", "66.6 %"),
            ("s/a/index.html", "3 / 4", "2 / 4"),
            ("coverage.json", "66.67%", "67.67%"),
            ("badges/flat.svg", "coverage: 66%", "coverage: 67%"),
            ("badges/social.svg", "Coverage: 66%", "Coverage: 65%"),
        ];
        for (file, a, b) in edits {
            let out = env.out.join("t.html");
            let _ = std::fs::remove_dir_all(&out);
            grcov::output_html(&t, Some(&out), 1, true, None, 2, &None, true, grcov::html::HtmlResources::Cdn);
            let p = out.join(file);
            std::fs::write(&p, doctored(&read(&p), a, b)).unwrap();
            // an inconsistent badge is already rejected by the decoder (reported as undecodable)
            if let Ok(o) = obs_html(&case, &out) {
                assert!(unnamed(&o) > 0, "{}: {} -> {} accepted", file, a, b);
            }
        }
    }
}
