//! C13 part Printed (second review, item 24): WHICH figure a format prints — the number of
//! decimals and the rounding of the last place — restated over exact integers (u128, no floats,
//! no call into grcov) and tied to `Stats/Rounded.lean` (`printedOK2`, `printedExact`, `atTie`,
//! `nearTie`, `roundedTo`; driver op `c13.html.printed2`).
//!
//!   figure    computed as                                rounding          decimals
//!   covdir    f64::round(x/y·10^(p+2)) / 10^p, serde     half away from 0  ≤ max(p,1), on the 10^-p grid
//!   html      Tera round(precision=p) of c/t·100         half away from 0  ≤ max(p,1), on the 10^-p grid
//!   json      `{:.p$}` of the f64 c/t·100 (coverage.json) half to even      exactly p
//!   markdown  `{:.p$}` of the f32 c·100/t                half to even      exactly p
//!
//! Streams: every figure the ordinary C13 cases print goes through `judge`; a TIE stream builds
//! result sets whose rates lie exactly between two printable values (dyadic totals: the float
//! computation is exact, so the mode decides) and compares index.html with coverage.json; a LARGE
//! TOTALS stream calls `CDStats::get_percent`, `gen_coverage_json` and `gen_index` on totals up to
//! 3·10^9 that no generated result set reaches.
use crate::decode::*;
use crate::gen::*;
use corrlib::*;
use serde_json::json;
use std::cell::RefCell;

#[derive(Clone, Copy, PartialEq, Debug)]
pub enum Kind {
    Covdir,
    Html,
    Json,
    Markdown,
}

impl Kind {
    pub fn name(self) -> &'static str {
        match self {
            Kind::Covdir => "covdir",
            Kind::Html => "html",
            Kind::Json => "json",
            Kind::Markdown => "markdown",
        }
    }
    fn half_even(self) -> bool {
        matches!(self, Kind::Json | Kind::Markdown)
    }
    fn exact_places(self) -> bool {
        matches!(self, Kind::Json | Kind::Markdown)
    }
    /// float noise of the computation (num, den): 1e-9 for f64 figures, 2e-5 for markdown's f32
    fn slack(self) -> (u128, u128) {
        match self {
            Kind::Markdown => (2, 100_000),
            _ => (1, 1_000_000_000),
        }
    }
}

thread_local! {
    /// (request of `c13.html.printed2`, the harness's own answer) of this run
    pub static FIGS2: RefCell<Option<Vec<(String, String)>>> = RefCell::new(None);
}

#[derive(Debug, Clone, PartialEq)]
pub struct Verdict {
    pub ok2: bool,
    pub exact: bool,
    pub at_tie: bool,
    pub near_tie: bool,
    pub rounded: u128,
}

/// `[-]digits[.digits]` → (mantissa, scale); anything else (exponent, sign, words) is no figure of
/// these formats
fn parse_plain(s: &str) -> Option<(u128, u32)> {
    let t = s.trim();
    let (ip, fp) = match t.split_once('.') {
        Some((a, b)) => (a, b),
        None => (t, ""),
    };
    if ip.is_empty() || (t.contains('.') && fp.is_empty()) || !ip.bytes().all(|b| b.is_ascii_digit()) || !fp.bytes().all(|b| b.is_ascii_digit()) {
        return None;
    }
    let digits = format!("{}{}", ip, fp);
    if digits.len() > 36 {
        return None;
    }
    Some((digits.parse::<u128>().ok()?, fp.len() as u32))
}

/// the exact rate is `num/den` (already scaled: a percentage is 100·c/t)
pub fn verdict(kind: Kind, p: u32, num: u128, den: u128, text: &str) -> Verdict {
    let pw = 10u128.pow(p);
    let a = num * pw;
    let (q, rem) = (a / den, a % den);
    let at_tie = 2 * rem == den;
    let rounded = if 2 * rem < den {
        q
    } else if 2 * rem > den {
        q + 1
    } else if kind.half_even() {
        if q % 2 == 0 { q } else { q + 1 }
    } else {
        q + 1
    };
    let (sn, sd) = kind.slack();
    let dist = if 2 * rem > den { 2 * rem - den } else { den - 2 * rem };
    let near_tie = dist * sd <= 2 * sn * pw * den;
    let mut v = Verdict { ok2: false, exact: false, at_tie, near_tie, rounded };
    let Some((mant, scale)) = parse_plain(text) else { return v };
    let shape = if kind.exact_places() {
        scale == p
    } else {
        scale <= p.max(1) && (scale <= p || mant % 10u128.pow(scale - p) == 0)
    };
    // value·10^p as an integer
    let scaled = if scale <= p {
        Some(mant * 10u128.pow(p - scale))
    } else if mant % 10u128.pow(scale - p) == 0 {
        Some(mant / 10u128.pow(scale - p))
    } else {
        None
    };
    v.exact = shape && scaled == Some(rounded);
    // |value − rate| ≤ 10^-p/2 + slack, cross-multiplied (value = mant/10^scale)
    let ds = 10u128.pow(scale);
    let diff = if mant * den > num * ds { mant * den - num * ds } else { num * ds - mant * den };
    let close = diff * (2 * pw * sd) <= (sd + 2 * pw * sn) * (ds * den);
    v.ok2 = close && shape && (near_tie || v.exact);
    v
}

/// the oracle for one printed figure; `None` = admissible. Records the figure for the comparison
/// with the model at the end of the run.
pub fn judge(kind: Kind, p: usize, num: u128, den: u128, text: &str) -> Option<String> {
    if den == 0 || p > 6 || num > (1u128 << 70) || den > (1u128 << 64) {
        return None;
    }
    let v = verdict(kind, p as u32, num, den, text);
    FIGS2.with(|f| {
        if let Some(l) = f.borrow_mut().as_mut() {
            if l.len() < 30_000 {
                l.push((
                    format!("c13.html.printed2 {} {} {} {} {}", kind.name(), p, num, den, hex(text.trim().as_bytes())),
                    format!("{} {} {} {} {}", v.ok2 as u8, v.exact as u8, v.at_tie as u8, v.near_tie as u8, v.rounded),
                ));
            }
        }
    });
    if v.ok2 {
        None
    } else {
        Some(format!(
            "{} figure {:?} for the exact rate {}/{} at precision {}: expected {} decimals and the value {}·10^-{} ({})",
            kind.name(), text.trim(), num, den, p,
            if kind.exact_places() { format!("exactly {}", p) } else { format!("at most {}", p.max(1)) },
            v.rounded, p,
            if kind.half_even() { "half to even" } else { "half away from zero" }
        ))
    }
}

// ---------------------------------------------------------------------------------------------
// tie stream

/// all (c, t) with t ≤ `max_t` whose percentage lies exactly half way between two values with `p`
/// decimals: 200·c·10^p / t is an odd integer
fn ties(p: u32, max_t: u64, dyadic: bool) -> Vec<(u64, u64)> {
    let mut v = vec![];
    for t in 2..=max_t {
        if dyadic && !t.is_power_of_two() {
            continue;
        }
        for c in 1..t {
            let a = 200u128 * c as u128 * 10u128.pow(p);
            if a % t as u128 == 0 && (a / t as u128) % 2 == 1 {
                v.push((c, t));
            }
        }
    }
    v
}

fn tie_case(c: u64, t: u64, p: usize, rng: &mut Rng) -> Case {
    let mut cov = grcov::CovResult::default();
    for l in 1..=t {
        cov.lines.insert(l as u32, if l <= c { 1 + rng.below(3) } else { 0 });
    }
    Case {
        files: vec![FileCase { rel: "d/tie.c".into(), rel_abs: false, exists: true, src_lines: Some(t as u32), cov }],
        precision: p,
        branch: false,
        threads: 1,
    }
}

pub fn tie_stream(rep: &mut Report, env: &Env, rng: &mut Rng, push: &mut dyn FnMut(&mut Report, &Case, &'static str)) {
    let n = rep.budget(40, 6);
    for i in 0..n {
        let p = (i % 5) as u32;
        let dyadic = i % 2 == 0;
        let pool = ties(p, if dyadic { 4096 } else { 400 }, dyadic);
        if pool.is_empty() {
            continue;
        }
        let (c, t) = *rng.pick(&pool);
        let case = tie_case(c, t, p as usize, rng);
        rep.count(if dyadic { "tie.dyadic_total" } else { "tie.other_total" });
        for w in ["covdir", "markdown", "html"] {
            push(rep, &case, w);
        }
        // the rounding mode per figure, where the float computation is exact (dyadic total: c/t, ·100,
        // ·10^p are all exact in f64, and c·100/t in f32 for these sizes)
        let o_html = crate::obs::observe(env, &case, "html");
        let o_cd = crate::obs::observe(env, &case, "covdir");
        let o_md = crate::obs::observe(env, &case, "markdown");
        let fig = |canon: &str, key: &str| -> Option<String> {
            canon.split(' ').find_map(|tok| tok.strip_prefix(key)).and_then(|v| v.split(',').find_map(|x| x.strip_prefix('~'))).map(|s| s.to_string())
        };
        let index = fig(&o_html.canon, "G=");
        let jsonf = fig(&o_html.canon, "J=");
        let cd = fig(&o_cd.canon, "d=");
        let md = fig(&o_md.canon, "T=");
        let cj = json!({"op": "c13.tie", "c": c, "t": t, "precision": p, "index": index, "json": jsonf, "covdir": cd, "markdown": md});
        let (num, den) = (100u128 * c as u128, t as u128);
        if dyadic {
            for (k, f) in [(Kind::Html, &index), (Kind::Json, &jsonf), (Kind::Covdir, &cd), (Kind::Markdown, &md)] {
                match f {
                    Some(text) => {
                        let v = verdict(k, p, num, den, text);
                        rep.count(&format!("tie.exact_mode.{}.{}", k.name(), if v.exact { "as_modelled" } else { "other_neighbour" }));
                        if !v.exact {
                            rep.fail("oracle", None,
                                format!("{} of {} lines at precision {}: the {} figure is {:?}, the format's rounding ({}) of the exactly computed tie gives {}·10^-{}",
                                    c, t, p, k.name(), text, if k.half_even() { "half to even" } else { "half away from zero" }, v.rounded, p),
                                cj.clone());
                        }
                    }
                    None => rep.fail("oracle", None, format!("no {} figure in the report", k.name()), cj.clone()),
                }
            }
        }
        // index.html and coverage.json show the same global totals: their figures may differ only at
        // a tie (half away vs half to even), and then by one unit of the last place
        if let (Some(a), Some(b)) = (&index, &jsonf) {
            let (va, vb) = (verdict(Kind::Html, p, num, den, a), verdict(Kind::Json, p, num, den, b));
            let same = parse_plain(a).map(|(m, s)| m * 10u128.pow(6 - s.min(6))) == parse_plain(b).map(|(m, s)| m * 10u128.pow(6 - s.min(6)));
            if !same {
                rep.count("obs.html.index_and_coverage_json_print_different_figures_at_a_tie");
                if !(va.near_tie && vb.near_tie) {
                    rep.fail("oracle", None, format!("index.html shows {:?} and coverage.json {:?} for {} of {} lines, which is not at a tie", a, b, c, t), cj.clone());
                }
            } else {
                rep.count("obs.html.index_and_coverage_json_agree_at_a_tie");
            }
        }
    }
}

// ---------------------------------------------------------------------------------------------
// large totals

pub fn big_totals(rep: &mut Report, env: &Env, rng: &mut Rng) {
    let n = rep.budget(400, 25);
    let out = env.out.join("big");
    let _ = std::fs::remove_dir_all(&out);
    std::fs::create_dir_all(&out).unwrap();
    let mut n_json = 0;
    for i in 0..n {
        let p = rng.below(5) as usize;
        let t: u64 = match rng.below(5) {
            0 => rng.range(1, 1000),
            1 => rng.range(1000, 1_000_000),
            2 => rng.range(1_000_000, 3_000_000_000),
            3 => 1u64 << rng.range(1, 31),
            _ => *rng.pick(&[3_000_000_000u64, 2_147_483_647, 4_294_967_295, 999_999_999, 1_000_000_007]),
        };
        let c: u64 = match rng.below(6) {
            0 => 0,
            1 => t,
            2 => t - 1,
            3 => 1,
            4 => t / 2,
            _ => rng.range(0, t),
        };
        let (num, den) = (100u128 * c as u128, t as u128);
        let cj = json!({"op": "c13.big", "c": c, "t": t, "precision": p});
        // covdir: the f64 `coveragePercent` as serde_json prints it
        let r = guarded(move || grcov::CDStats::get_percent(c as usize, t as usize, p));
        rep.case(&format!("big covdir {} {} {}", c, t, p), true);
        rep.count("big.covdir.get_percent");
        match r {
            Ok(x) => {
                let text = serde_json::to_string(&x).unwrap_or_default();
                if let Some(w) = judge(Kind::Covdir, p, num, den, &text) {
                    rep.fail("oracle", None, format!("CDStats::get_percent({}, {}, {}) prints {}: {}", c, t, p, text, w), cj.clone());
                }
            }
            Err(e) => rep.fail("oracle", None, format!("CDStats::get_percent panicked: {}", e), cj.clone()),
        }
        // coverage.json and the index summary on the same totals (every fourth: they write files)
        if i % 4 == 0 {
            let stats = grcov::HtmlStats { total_lines: t as usize, covered_lines: c as usize, ..Default::default() };
            let o = out.clone();
            let st = stats.clone();
            let r = guarded(move || {
                let (tera, conf) = grcov::html::get_config(None, false, p, true, grcov::html::HtmlResources::Cdn);
                grcov::html::gen_coverage_json(&st, &conf, &o, p);
                let global = grcov::HtmlGlobalStats { stats: st.clone(), ..Default::default() };
                grcov::html::gen_index(&tera, &global, &conf, &o);
                for style in [grcov::html::BadgeStyle::Flat] {
                    grcov::html::gen_badge(&tera, &st, &conf, &o, style);
                }
            });
            rep.case(&format!("big html {} {} {}", c, t, p), true);
            rep.count("big.html.json_index_badge");
            n_json += 1;
            if let Err(e) = r {
                rep.fail("oracle", None, format!("gen_coverage_json / gen_index panicked: {}", e), cj.clone());
                continue;
            }
            let read = |f: &str| String::from_utf8_lossy(&std::fs::read(out.join(f)).unwrap_or_default()).to_string();
            match decode_coverage_json(&read("coverage.json")) {
                Ok(f) => {
                    if let Some(w) = judge(Kind::Json, p, num, den, &f.0) {
                        rep.fail("oracle", None, format!("coverage.json for {} / {}: {}", c, t, w), cj.clone());
                    }
                }
                Err(e) => rep.fail("oracle", None, format!("coverage.json undecodable: {}", e), cj.clone()),
            }
            match decode_html_page(&read("index.html")) {
                Ok(pg) => match pg.summary.iter().find(|(k, _)| k == "Lines") {
                    Some((_, s)) => {
                        if (s.covered, s.total) != (c, t) {
                            rep.fail("oracle", None, format!("index.html shows {} / {} for the totals {} / {}", s.covered, s.total, c, t), cj.clone());
                        }
                        if let Some(w) = judge(Kind::Html, p, num, den, &s.pct.0) {
                            rep.fail("oracle", None, format!("index.html for {} / {}: {}", c, t, w), cj.clone());
                        }
                    }
                    None => rep.fail("oracle", None, "index.html without a Lines figure".into(), cj.clone()),
                },
                Err(e) => rep.fail("oracle", None, format!("index.html undecodable: {}", e), cj.clone()),
            }
            match decode_badge(&read("badges/flat.svg")) {
                Ok(b) => {
                    // the badge is the whole percentage, truncated, exactly
                    if b.parse::<u128>().ok() != Some(num / den) {
                        rep.fail("oracle", None, format!("badge shows {}% for {} / {} (the whole percentage is {})", b, c, t, num / den), cj.clone());
                    }
                }
                Err(e) => rep.fail("oracle", None, format!("badge undecodable: {}", e), cj.clone()),
            }
        }
    }
    rep.notes.push(format!("part Printed: {} totals up to 3·10^9 through CDStats::get_percent, {} of them also through gen_coverage_json / gen_index / gen_badge", n, n_json));
    let _ = std::fs::remove_dir_all(&out);
}

/// compare every judged figure with the model's `printedOK2` / `printedExact` / `atTie` / `nearTie`
pub fn compare_with_model(rep: &mut Report) {
    let figs = FIGS2.with(|f| f.borrow_mut().take()).unwrap_or_default();
    let reqs: Vec<String> = figs.iter().map(|f| f.0.clone()).collect();
    let ans = run_model_named("gm_c13", &reqs, &rep.workdir, "c13printed2");
    let mut bad = 0;
    for (k, (req, mine)) in figs.iter().enumerate() {
        let parts: Vec<&str> = mine.split(' ').collect();
        rep.count(if parts[0] == "1" { "printed2.admissible" } else { "printed2.rejected" });
        if parts[2] == "1" {
            rep.count("printed2.at_tie");
        } else if parts[3] == "1" {
            rep.count("printed2.near_tie");
        }
        if ans[k] != *mine {
            bad += 1;
            if bad <= 5 {
                rep.disagreements_checked += 1;
                rep.fail("disagreement", None, "printed figure: the harness's integer restatement and Stats/Rounded.lean differ".into(),
                    json!({"op": "printed2", "request": req, "harness": mine, "model": ans[k]}));
            }
        }
    }
    rep.notes.push(format!("{} printed figures judged by shape and rounding (printedOK2) and compared with the model", figs.len()));
}
