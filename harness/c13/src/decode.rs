//! Independent decoders of the six report formats into (covered, total, printed rate) records.
//! Nothing here calls grcov.
use quick_xml::events::{BytesStart, Event};
use serde_json::Value;

/// a rate / percentage exactly as printed (without the `%` sign)
#[derive(Clone, Debug, PartialEq)]
pub struct Fig(pub String);

impl Fig {
    /// the finite number it denotes, if it denotes one
    pub fn value(&self) -> Option<f64> {
        let t = self.0.trim();
        if t.is_empty() || !t.bytes().all(|b| b.is_ascii_digit() || b == b'.' || b == b'-' || b == b'e' || b == b'E' || b == b'+') {
            return None;
        }
        t.parse::<f64>().ok().filter(|v| v.is_finite())
    }
    pub fn from_json(v: &Value) -> Fig {
        Fig(v.to_string())
    }
}

fn num(s: &str) -> Result<u64, String> {
    s.trim()
        .parse::<u64>()
        .map_err(|_| format!("not a number: {:?}", s))
}

// ---------------------------------------------------------------------------------------------
// lcov

#[derive(Clone, Debug, Default)]
pub struct LcovRecD {
    pub sf: String,
    pub n_fn: u64,
    pub n_fnda: u64,
    pub n_fnda_hit: u64,
    pub fnf: Option<u64>,
    pub fnh: Option<u64>,
    pub n_brda: u64,
    pub n_brda_hit: u64,
    pub brf: Option<u64>,
    pub brh: Option<u64>,
    pub n_da: u64,
    pub n_da_hit: u64,
    pub lf: Option<u64>,
    pub lh: Option<u64>,
}

pub fn decode_lcov(text: &str) -> Result<Vec<LcovRecD>, String> {
    let mut out = vec![];
    let mut cur: Option<LcovRecD> = None;
    for line in text.lines() {
        if line == "TN:" {
            continue;
        }
        if let Some(sf) = line.strip_prefix("SF:") {
            if cur.is_some() {
                return Err("SF inside a record".into());
            }
            cur = Some(LcovRecD {
                sf: sf.to_string(),
                ..Default::default()
            });
            continue;
        }
        if line == "end_of_record" {
            out.push(cur.take().ok_or("end_of_record outside a record")?);
            continue;
        }
        let r = cur.as_mut().ok_or_else(|| format!("{:?} outside a record", line))?;
        let (key, val) = line
            .split_once(':')
            .ok_or_else(|| format!("no key in {:?}", line))?;
        match key {
            "FN" => r.n_fn += 1,
            "FNDA" => {
                r.n_fnda += 1;
                let c = val.split(',').next().unwrap_or("");
                if num(c)? > 0 {
                    r.n_fnda_hit += 1;
                }
            }
            "FNF" => r.fnf = Some(num(val)?),
            "FNH" => r.fnh = Some(num(val)?),
            "BRDA" => {
                r.n_brda += 1;
                let taken = val.rsplit(',').next().unwrap_or("-");
                if taken != "-" && num(taken)? > 0 {
                    r.n_brda_hit += 1;
                }
            }
            "BRF" => r.brf = Some(num(val)?),
            "BRH" => r.brh = Some(num(val)?),
            "DA" => {
                r.n_da += 1;
                let c = val.split(',').nth(1).ok_or("DA without count")?;
                if num(c)? > 0 {
                    r.n_da_hit += 1;
                }
            }
            "LF" => r.lf = Some(num(val)?),
            "LH" => r.lh = Some(num(val)?),
            _ => return Err(format!("unknown record {:?}", line)),
        }
    }
    if cur.is_some() {
        return Err("record without end_of_record".into());
    }
    Ok(out)
}

// ---------------------------------------------------------------------------------------------
// covdir

#[derive(Clone, Debug)]
pub struct CdNode {
    pub label: String,
    pub is_dir: bool,
    pub total: u64,
    pub covered: u64,
    pub missed: u64,
    pub pct: Fig,
    pub children: Vec<usize>,
    pub coverage: Option<Vec<i64>>,
}

fn cd_walk(v: &Value, parent: &str, key: Option<&str>, out: &mut Vec<CdNode>) -> Result<usize, String> {
    let o = v.as_object().ok_or("covdir node is not an object")?;
    let name = o.get("name").and_then(|n| n.as_str()).ok_or("node without name")?;
    if let Some(k) = key {
        if k != name {
            return Err(format!("children key {:?} != name {:?}", k, name));
        }
    }
    let label = if key.is_none() {
        String::new()
    } else if parent.is_empty() {
        name.to_string()
    } else {
        format!("{}/{}", parent, name)
    };
    let geti = |k: &str| -> Result<u64, String> {
        o.get(k)
            .and_then(|x| x.as_u64())
            .ok_or_else(|| format!("{} missing or not an unsigned integer in {:?}", k, label))
    };
    let idx = out.len();
    out.push(CdNode {
        label: label.clone(),
        is_dir: o.contains_key("children"),
        total: geti("linesTotal")?,
        covered: geti("linesCovered")?,
        missed: geti("linesMissed")?,
        pct: Fig::from_json(o.get("coveragePercent").unwrap_or(&Value::Null)),
        children: vec![],
        coverage: o.get("coverage").and_then(|c| c.as_array()).map(|a| {
            a.iter().map(|x| x.as_i64().unwrap_or(i64::MIN)).collect()
        }),
    });
    if let Some(ch) = o.get("children") {
        let ch = ch.as_object().ok_or("children is not an object")?;
        let mut kids = vec![];
        for (k, c) in ch {
            kids.push(cd_walk(c, &label, Some(k), out)?);
        }
        out[idx].children = kids;
    }
    Ok(idx)
}

/// node 0 is the root
pub fn decode_covdir(text: &str) -> Result<Vec<CdNode>, String> {
    let v: Value = serde_json::from_str(text).map_err(|e| format!("covdir is not JSON: {}", e))?;
    let mut out = vec![];
    cd_walk(&v, "", None, &mut out)?;
    Ok(out)
}

// ---------------------------------------------------------------------------------------------
// cobertura

#[derive(Clone, Debug)]
pub struct CobLine {
    pub number: u64,
    pub hits: u64,
    pub conds: Vec<Fig>,
}
#[derive(Clone, Debug)]
pub struct CobMethod {
    pub name: String,
    pub line_rate: Fig,
    pub branch_rate: Fig,
    pub lines: Vec<CobLine>,
}
#[derive(Clone, Debug)]
pub struct CobClass {
    pub line_rate: Fig,
    pub branch_rate: Fig,
    pub lines: Vec<CobLine>,
    pub methods: Vec<CobMethod>,
}
#[derive(Clone, Debug)]
pub struct CobPkg {
    pub name: String,
    pub line_rate: Fig,
    pub branch_rate: Fig,
    pub classes: Vec<CobClass>,
}
#[derive(Clone, Debug)]
pub struct CobDoc {
    pub lines_covered: Fig,
    pub lines_valid: Fig,
    pub line_rate: Fig,
    pub branches_covered: Fig,
    pub branches_valid: Fig,
    pub branch_rate: Fig,
    pub pkgs: Vec<CobPkg>,
}

fn attrs(e: &BytesStart) -> Result<Vec<(String, String)>, String> {
    let mut v = vec![];
    for a in e.attributes() {
        let a = a.map_err(|e| format!("bad attribute: {}", e))?;
        let k = String::from_utf8_lossy(a.key.as_ref()).to_string();
        let val = a
            .unescape_value()
            .map_err(|e| format!("bad attribute value: {}", e))?
            .to_string();
        v.push((k, val));
    }
    Ok(v)
}
fn attr(a: &[(String, String)], k: &str) -> Result<String, String> {
    a.iter()
        .find(|(x, _)| x == k)
        .map(|(_, v)| v.clone())
        .ok_or_else(|| format!("attribute {} missing", k))
}

pub fn decode_cobertura(text: &str) -> Result<CobDoc, String> {
    let mut reader = quick_xml::Reader::from_str(text);
    let mut doc: Option<CobDoc> = None;
    let mut stack: Vec<String> = vec![];
    loop {
        let ev = reader.read_event().map_err(|e| format!("xml: {}", e))?;
        let (e, empty) = match &ev {
            Event::Start(e) => (e, false),
            Event::Empty(e) => (e, true),
            Event::End(_) => {
                stack.pop();
                continue;
            }
            Event::Eof => break,
            _ => continue,
        };
        let name = String::from_utf8_lossy(e.name().as_ref()).to_string();
        let a = attrs(e)?;
        match name.as_str() {
            "coverage" => {
                doc = Some(CobDoc {
                    lines_covered: Fig(attr(&a, "lines-covered")?),
                    lines_valid: Fig(attr(&a, "lines-valid")?),
                    line_rate: Fig(attr(&a, "line-rate")?),
                    branches_covered: Fig(attr(&a, "branches-covered")?),
                    branches_valid: Fig(attr(&a, "branches-valid")?),
                    branch_rate: Fig(attr(&a, "branch-rate")?),
                    pkgs: vec![],
                })
            }
            "package" => doc.as_mut().ok_or("package outside coverage")?.pkgs.push(CobPkg {
                name: attr(&a, "name")?,
                line_rate: Fig(attr(&a, "line-rate")?),
                branch_rate: Fig(attr(&a, "branch-rate")?),
                classes: vec![],
            }),
            "class" => doc
                .as_mut()
                .and_then(|d| d.pkgs.last_mut())
                .ok_or("class outside package")?
                .classes
                .push(CobClass {
                    line_rate: Fig(attr(&a, "line-rate")?),
                    branch_rate: Fig(attr(&a, "branch-rate")?),
                    lines: vec![],
                    methods: vec![],
                }),
            "method" => doc
                .as_mut()
                .and_then(|d| d.pkgs.last_mut())
                .and_then(|p| p.classes.last_mut())
                .ok_or("method outside class")?
                .methods
                .push(CobMethod {
                    name: attr(&a, "name")?,
                    line_rate: Fig(attr(&a, "line-rate")?),
                    branch_rate: Fig(attr(&a, "branch-rate")?),
                    lines: vec![],
                }),
            "line" | "condition" => {
                let cls = doc
                    .as_mut()
                    .and_then(|d| d.pkgs.last_mut())
                    .and_then(|p| p.classes.last_mut())
                    .ok_or("line outside class")?;
                let in_method = stack.iter().any(|s| s == "method");
                let lines = if in_method {
                    &mut cls.methods.last_mut().ok_or("no method")?.lines
                } else {
                    &mut cls.lines
                };
                if name == "line" {
                    lines.push(CobLine {
                        number: num(&attr(&a, "number")?)?,
                        hits: num(&attr(&a, "hits")?)?,
                        conds: vec![],
                    });
                } else {
                    lines
                        .last_mut()
                        .ok_or("condition outside line")?
                        .conds
                        .push(Fig(attr(&a, "coverage")?));
                }
            }
            _ => {}
        }
        if !empty {
            stack.push(name);
        }
    }
    doc.ok_or_else(|| "no coverage element".to_string())
}

// ---------------------------------------------------------------------------------------------
// html

#[derive(Clone, Debug)]
pub struct HStat {
    pub covered: u64,
    pub total: u64,
    pub pct: Fig,
}
#[derive(Clone, Debug)]
pub struct HRow {
    pub name: String,
    pub lines: HStat,
    pub funs: HStat,
    pub branches: Option<HStat>,
    /// `<progress value=…>` and its fallback text
    pub progress_value: Fig,
    pub progress_text: Fig,
}
#[derive(Clone, Debug)]
pub struct HPage {
    /// `Directory`, `File`, or empty for a source page
    pub kind: String,
    /// (`Lines` | `Functions` | `Branches`, figures) in page order
    pub summary: Vec<(String, HStat)>,
    pub rows: Vec<HRow>,
}

pub fn html_unescape(s: &str) -> String {
    s.replace("&lt;", "<")
        .replace("&gt;", ">")
        .replace("&quot;", "\"")
        .replace("&#x27;", "'")
        .replace("&#x2F;", "/")
        .replace("&amp;", "&")
}

fn strip_tags(s: &str) -> String {
    let mut out = String::new();
    let mut in_tag = false;
    for c in s.chars() {
        match c {
            '<' => in_tag = true,
            '>' => {
                in_tag = false;
                out.push(' ');
            }
            _ if !in_tag => out.push(c),
            _ => {}
        }
    }
    out.split_whitespace().collect::<Vec<_>>().join(" ")
}

fn pair(s: &str) -> Result<(u64, u64), String> {
    let (c, t) = s
        .split_once('/')
        .ok_or_else(|| format!("no 'covered / total' in {:?}", s))?;
    Ok((num(c)?, num(t)?))
}

fn pct(s: &str) -> Result<Fig, String> {
    let t = s.trim();
    let t = t
        .strip_suffix('%')
        .ok_or_else(|| format!("no percent sign in {:?}", s))?;
    Ok(Fig(t.trim().to_string()))
}

/// all `(inner)` of `open … close` in order
fn sections<'a>(s: &'a str, open: &str, close: &str) -> Vec<&'a str> {
    let mut v = vec![];
    let mut rest = s;
    while let Some(i) = rest.find(open) {
        let after = &rest[i + open.len()..];
        match after.find(close) {
            Some(j) => {
                v.push(&after[..j]);
                rest = &after[j + close.len()..];
            }
            None => break,
        }
    }
    v
}

pub fn decode_html_page(text: &str) -> Result<HPage, String> {
    // summary: headings and <abbr title="C / T">P %</abbr>, in order
    let level = sections(text, "<nav class=\"level\">", "</nav>");
    let level = level.first().ok_or("no summary block")?;
    let heads = sections(level, "<p class=\"heading\">", "</p>");
    let abbrs = sections(level, "<abbr title=\"", "</abbr>");
    if heads.len() != abbrs.len() {
        return Err("summary headings and figures do not pair up".into());
    }
    let mut summary = vec![];
    for (h, a) in heads.iter().zip(abbrs.iter()) {
        let (title, inner) = a.split_once("\">").ok_or("abbr without text")?;
        let (c, t) = pair(title)?;
        summary.push((
            h.trim().to_string(),
            HStat {
                covered: c,
                total: t,
                pct: pct(inner)?,
            },
        ));
    }
    let mut kind = String::new();
    let mut rows = vec![];
    if let Some(thead) = sections(text, "<thead>", "</thead>").first() {
        kind = sections(thead, "<th>", "</th>")
            .first()
            .map(|s| s.trim().to_string())
            .unwrap_or_default();
        let tbody = sections(text, "<tbody>", "</tbody>");
        let tbody = tbody.first().ok_or("thead without tbody")?;
        for tr in sections(tbody, "<tr>", "</tr>") {
            let th = sections(tr, "<th>", "</th>");
            let name = html_unescape(&strip_tags(th.first().ok_or("row without th")?));
            let tds: Vec<&str> = sections(tr, "<td", "</td>");
            if tds.len() != 5 && tds.len() != 7 {
                return Err(format!("row with {} cells", tds.len()));
            }
            let cell = |i: usize| -> String {
                let s = tds[i];
                let s = &s[s.find('>').map(|k| k + 1).unwrap_or(0)..];
                strip_tags(s)
            };
            let pv = sections(tds[0], "value=\"", "\"");
            let lp = pair(&cell(2))?;
            let fp = pair(&cell(4))?;
            rows.push(HRow {
                name,
                progress_value: Fig(pv.first().ok_or("progress without value")?.to_string()),
                progress_text: pct(&cell(0))?,
                lines: HStat {
                    covered: lp.0,
                    total: lp.1,
                    pct: pct(&cell(1))?,
                },
                funs: HStat {
                    covered: fp.0,
                    total: fp.1,
                    pct: pct(&cell(3))?,
                },
                branches: if tds.len() == 7 {
                    let bp = pair(&cell(6))?;
                    Some(HStat {
                        covered: bp.0,
                        total: bp.1,
                        pct: pct(&cell(5))?,
                    })
                } else {
                    None
                },
            });
        }
    }
    Ok(HPage {
        kind,
        summary,
        rows,
    })
}

/// the figure of a badge: `aria-label="coverage: NN%"`
pub fn decode_badge(text: &str) -> Result<String, String> {
    // the label word is spelled coverage / Coverage / COVERAGE depending on the style
    let lower = text.to_ascii_lowercase();
    let text = lower.as_str();
    let v = sections(text, "aria-label=\"coverage: ", "%\"");
    let a = v.first().ok_or("badge without aria-label")?.to_string();
    // every other mention (`<title>`, the text nodes) must show the same figure
    for t in sections(text, "<title>coverage: ", "%</title>") {
        if t != a {
            return Err(format!("badge title {:?} != aria-label {:?}", t, a));
        }
    }
    Ok(a)
}

/// `message` of coverage.json without the percent sign
pub fn decode_coverage_json(text: &str) -> Result<Fig, String> {
    let v: Value = serde_json::from_str(text).map_err(|e| format!("coverage.json: {}", e))?;
    pct(v["message"].as_str().ok_or("coverage.json without message")?)
}

// ---------------------------------------------------------------------------------------------
// markdown

#[derive(Clone, Debug)]
pub struct MdRowD {
    pub file: String,
    pub pct: Fig,
    pub covered: u64,
    pub total: u64,
    /// inclusive ranges of the `missed_lines` column
    pub missed: Vec<(u64, u64)>,
}
#[derive(Clone, Debug)]
pub struct MdDoc {
    pub rows: Vec<MdRowD>,
    pub total: Fig,
}

pub fn decode_markdown(text: &str) -> Result<MdDoc, String> {
    let mut rows = vec![];
    let mut total = None;
    let mut table_line = 0;
    for line in text.lines() {
        if let Some(t) = line.strip_prefix("Total coverage:") {
            total = Some(pct(t)?);
        } else if line.starts_with('|') {
            table_line += 1;
            if table_line <= 2 {
                continue; // header, separator
            }
            let cells: Vec<&str> = line.trim_matches('|').split('|').map(|c| c.trim()).collect();
            if cells.len() != 4 {
                return Err(format!("markdown row with {} cells: {:?}", cells.len(), line));
            }
            let (c, t) = pair(cells[2])?;
            let mut missed = vec![];
            for r in cells[3].split(',').map(|r| r.trim()).filter(|r| !r.is_empty()) {
                match r.split_once('-') {
                    Some((a, b)) => missed.push((num(a)?, num(b)?)),
                    None => missed.push((num(r)?, num(r)?)),
                }
            }
            rows.push(MdRowD {
                file: cells[0].to_string(),
                pct: pct(cells[1])?,
                covered: c,
                total: t,
                missed,
            });
        }
    }
    Ok(MdDoc {
        rows,
        total: total.ok_or("no 'Total coverage:' line")?,
    })
}

// ---------------------------------------------------------------------------------------------
// ade

#[derive(Clone, Debug)]
pub struct AdePartD {
    pub total_covered: u64,
    pub total_uncovered: u64,
    pub n_covered: u64,
    pub n_uncovered: u64,
    pub pct: Fig,
}
#[derive(Clone, Debug)]
pub struct AdeFileD {
    pub name: String,
    pub file: AdePartD,
    pub orphan: AdePartD,
    pub methods: Vec<(String, AdePartD)>,
}

fn ade_part(v: &Value) -> Result<AdePartD, String> {
    let g = |k: &str| v[k].as_u64().ok_or_else(|| format!("ade: {} missing", k));
    let l = |k: &str| {
        v[k].as_array()
            .map(|a| a.len() as u64)
            .ok_or_else(|| format!("ade: {} missing", k))
    };
    Ok(AdePartD {
        total_covered: g("total_covered")?,
        total_uncovered: g("total_uncovered")?,
        n_covered: l("covered")?,
        n_uncovered: l("uncovered")?,
        pct: Fig::from_json(&v["percentage_covered"]),
    })
}

pub fn decode_ade(text: &str) -> Result<Vec<AdeFileD>, String> {
    let mut out = vec![];
    let mut methods: Vec<(String, String, AdePartD)> = vec![];
    for line in text.lines() {
        let v: Value = serde_json::from_str(line).map_err(|e| format!("ade line: {}", e))?;
        let fname = v["file"]["name"].as_str().ok_or("ade: file.name")?.to_string();
        if v["is_file"].as_bool() == Some(true) {
            if methods.iter().any(|(f, _, _)| *f != fname) {
                return Err("ade: method record of another file".into());
            }
            out.push(AdeFileD {
                name: fname,
                file: ade_part(&v["file"])?,
                orphan: ade_part(&v["method"])?,
                methods: methods.drain(..).map(|(_, n, p)| (n, p)).collect(),
            });
        } else {
            let m = &v["method"];
            methods.push((
                fname,
                m["name"].as_str().ok_or("ade: method.name")?.to_string(),
                ade_part(m)?,
            ));
        }
    }
    if !methods.is_empty() {
        return Err("ade: method records without file record".into());
    }
    Ok(out)
}

// ---------------------------------------------------------------------------------------------
// html source page: one `role="row"` per source line; the second cell's aria-label is
// "no coverage" (not instrumented), "0", or the execution count

/// per listed source line: (line number, None = not instrumented | Some(count))
pub fn decode_file_rows(text: &str) -> Result<Vec<(u64, Option<u64>)>, String> {
    let mut rows = vec![];
    for row in text.split("role=\"row\">").skip(1) {
        let id = sections(row, "id=\"", "\"");
        let no = num(id.first().ok_or("row without id")?)?;
        let label = sections(row, "aria-label=\"", "\"");
        let label = label.first().ok_or("row without aria-label")?;
        let count = if *label == "no coverage" { None } else { Some(num(label)?) };
        rows.push((no, count));
    }
    Ok(rows)
}
