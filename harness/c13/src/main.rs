//! C13 — summary figures equal what their parts imply, at every level.
//!
//! For every generated result set the six real writers (`output_lcov`, `output_covdir`,
//! `output_cobertura`, `output_markdown`, `output_activedata_etl`, `output_html`) run in-process
//! and write into the work directory; their output is decoded by independent readers
//! (decode.rs) into (covered, total, printed rate) records; the property oracle (obs.rs) is
//! evaluated on those records; and the same result set goes through the Lean model `gm_c13`
//! whose answer (exact integers, exact rational rates) is compared figure by figure – integers
//! exactly, printed rates within the precision the format prints.
use corrlib::*;
use serde_json::json;
use std::collections::BTreeMap;

mod decode;
mod gen;
mod mdbytes;
mod obs;
mod printed;
use decode::Fig;
use gen::*;
use obs::*;

thread_local! {
    /// (request of `c13.html.rows`, what the real file page shows) of this run: header figures,
    /// listed / hit rows, number of rows
    pub static ROWS: std::cell::RefCell<Vec<(String, String)>> = std::cell::RefCell::new(vec![]);
}

// ---------------------------------------------------------------------------------------------
// model answer vs implementation answer

fn key_of(tok: &str) -> &str {
    tok.split('=').next().unwrap_or(tok)
}

/// keep the first `n` comma-separated values of `key=v1,v2,…`
fn trim_values(tok: &str, n: usize) -> String {
    match tok.split_once('=') {
        Some((k, v)) => format!("{}={}", k, v.split(',').take(n).collect::<Vec<_>>().join(",")),
        None => tok.to_string(),
    }
}

fn atoms(tok: &str) -> Vec<&str> {
    tok.split(|c| c == ',' || c == '|' || c == ':' || c == '=').collect()
}

/// None = the answers agree
fn agree(writer: &str, model: &str, imp: &str, case: &Case) -> Option<String> {
    if model == "panic" {
        return if imp.starts_with("panic") { None } else { Some("the model panics, the writer returns".into()) };
    }
    if !imp.starts_with("ok") {
        return Some(format!("the writer's outcome is {:?}, the model returns", imp.split(' ').next().unwrap_or("")));
    }
    if !model.starts_with("ok") {
        return Some(format!("model answer {:?}", model));
    }
    let mut m: Vec<String> = model.split(' ').skip(1).map(|s| s.to_string()).collect();
    let mut i: Vec<String> = imp.split(' ').skip(1).map(|s| s.to_string()).collect();
    if writer == "html" && !case.branch {
        for t in m.iter_mut() {
            if !(t.starts_with("K=") || t.starts_with("B=") || t.starts_with("J=")) {
                *t = trim_values(t, 6);
            }
        }
    }
    if writer == "html" && case.threads > 1 {
        // which record of a repeated path keeps the row depends on the order in which the worker
        // threads take the records: compared with one thread only
        for (rel, _) in dup_paths(case) {
            let (d, n) = match rel.rsplit_once('/') {
                Some((d, n)) => (d.to_string(), n.to_string()),
                None => (String::new(), rel.clone()),
            };
            let key = format!("F{}/{}=", hex(d.as_bytes()), hex(n.as_bytes()));
            m.retain(|t| !t.starts_with(&key));
            i.retain(|t| !t.starts_with(&key));
            if d.is_empty() {
                // a file directly below the root is also a row of the global index
                let key = format!("R{}=", hex(n.as_bytes()));
                m.retain(|t| !t.starts_with(&key));
                i.retain(|t| !t.starts_with(&key));
            }
        }
    }
    let fixed = match writer {
        "covdir" => 1,
        "html" => 4,
        _ => usize::MAX,
    };
    if fixed < m.len() {
        m[fixed..].sort_by(|a, b| key_of(a).cmp(key_of(b)));
    }
    if fixed < i.len() {
        i[fixed..].sort_by(|a, b| key_of(a).cmp(key_of(b)));
    }
    if m.len() != i.len() {
        return Some(format!("{} figures groups in the model answer, {} in the report", m.len(), i.len()));
    }
    let tol = tol_of(writer, case.precision);
    for (mt, it) in m.iter().zip(i.iter()) {
        let (ma, ia) = (atoms(mt), atoms(it));
        if ma.len() != ia.len() {
            return Some(format!("model {:?} vs report {:?}", mt, it));
        }
        for (x, y) in ma.iter().zip(ia.iter()) {
            if let Some((prefix, printed)) = y.split_once('~') {
                // a one-letter tag (P, C, F, O, …) may precede the figure
                let Some(x) = x.strip_prefix(prefix) else {
                    return Some(format!("model {:?} vs report {:?}", mt, it));
                };
                let (n, d) = match x.split_once('/') {
                    Some((n, d)) => (n.parse::<u128>().unwrap_or(0), d.parse::<u128>().unwrap_or(0)),
                    None => return Some(format!("model {:?} vs report {:?}", mt, it)),
                };
                let fig = Fig(printed.to_string());
                let ok = if d == 0 { fig.value().is_none() } else { close(&fig, n, d, tol) };
                if !ok {
                    return Some(format!("rate: model {} vs printed {:?} in {:?} / {:?}", x, printed, mt, it));
                }
            } else if x != y {
                return Some(format!("model {:?} vs report {:?}", mt, it));
            }
        }
    }
    None
}

// ---------------------------------------------------------------------------------------------
// shrinking

fn shrink(case: &Case, fails: &mut dyn FnMut(&Case) -> bool) -> Case {
    let mut cur = case.clone();
    let mut budget = 250;
    let mut progress = true;
    while progress && budget > 0 {
        progress = false;
        // drop files
        let mut k = 0;
        while k < cur.files.len() && budget > 0 {
            let mut c = cur.clone();
            c.files.remove(k);
            budget -= 1;
            if fails(&c) {
                cur = c;
                progress = true;
            } else {
                k += 1;
            }
        }
        // simplify records
        for k in 0..cur.files.len() {
            let lines: Vec<u32> = cur.files[k].cov.lines.keys().cloned().collect();
            for l in lines {
                if budget == 0 {
                    break;
                }
                let mut c = cur.clone();
                c.files[k].cov.lines.remove(&l);
                budget -= 1;
                if fails(&c) {
                    cur = c;
                    progress = true;
                }
            }
            let brs: Vec<u32> = cur.files[k].cov.branches.keys().cloned().collect();
            for l in brs {
                if budget == 0 {
                    break;
                }
                let mut c = cur.clone();
                c.files[k].cov.branches.remove(&l);
                budget -= 1;
                if fails(&c) {
                    cur = c;
                    progress = true;
                }
            }
            let fns: Vec<String> = cur.files[k].cov.functions.keys().cloned().collect();
            for n in fns {
                if budget == 0 {
                    break;
                }
                let mut c = cur.clone();
                c.files[k].cov.functions.remove(&n);
                budget -= 1;
                if fails(&c) {
                    cur = c;
                    progress = true;
                }
            }
        }
        // flatten the path
        for k in 0..cur.files.len() {
            if budget == 0 {
                break;
            }
            if let Some((_, name)) = cur.files[k].rel.clone().rsplit_once('/') {
                if !cur.files.iter().any(|f| f.rel == name) {
                    let mut c = cur.clone();
                    c.files[k].rel = name.to_string();
                    budget -= 1;
                    if fails(&c) {
                        cur = c;
                        progress = true;
                    }
                }
            }
        }
    }
    cur
}

// ---------------------------------------------------------------------------------------------

struct Ctx {
    env: Env,
    /// how many failures were already shrunk per (writer, finding)
    shrunk: BTreeMap<String, u32>,
}

fn report_ofails(rep: &mut Report, ctx: &mut Ctx, case: &Case, writer: &str, ofails: &[OFail], do_shrink: bool) {
    let mut seen: Vec<Option<&'static str>> = vec![];
    for f in ofails {
        if seen.contains(&f.finding) {
            continue;
        }
        seen.push(f.finding);
        let key = format!("{}/{:?}", writer, f.finding);
        let n = ctx.shrunk.entry(key).or_insert(0);
        let mut what = f.what.clone();
        let mut min = case.clone();
        if do_shrink && *n < 2 {
            *n += 1;
            let finding = f.finding;
            let env = &ctx.env;
            min = shrink(case, &mut |c: &Case| observe(env, c, writer).ofails.iter().any(|g| g.finding == finding));
            if let Some(g) = observe(env, &min, writer).ofails.iter().find(|g| g.finding == finding) {
                what = g.what.clone();
            }
        }
        if let Some(id) = f.finding {
            // a known defect shows up in a large share of the cases: count all, record three
            let k = format!("finding.{}", id);
            rep.count(&k);
            if rep.distribution[&k] > 3 {
                continue;
            }
        }
        rep.fail("oracle", f.finding, what, case_json(&min, writer));
    }
}

fn disagreement(rep: &mut Report, ctx: &mut Ctx, case: &Case, writer: &str, why: String, model: &str, imp: &str, do_shrink: bool) {
    rep.disagreements_checked += 1;
    let mut min = case.clone();
    let key = format!("{}/disagreement", writer);
    let n = ctx.shrunk.entry(key).or_insert(0);
    if do_shrink && *n < 2 {
        *n += 1;
        let env = &ctx.env;
        let wd = rep.workdir.clone();
        min = shrink(case, &mut |c: &Case| {
            let o = observe(env, c, writer);
            let m = run_model_named("gm_c13", &[request(env, writer, c)], &wd, "shrink");
            o.ofails.is_empty() && agree(writer, &m[0], &o.canon, c).is_some()
        });
    }
    let mut cj = case_json(&min, writer);
    if do_shrink {
        let o = observe(&ctx.env, &min, writer);
        let m = run_model_named("gm_c13", &[request(&ctx.env, writer, &min)], &rep.workdir, "shrink");
        cj["model"] = json!(m[0]);
        cj["impl"] = json!(o.canon);
    } else {
        cj["model"] = json!(model);
        cj["impl"] = json!(imp);
    }
    rep.fail(
        "disagreement",
        None,
        format!("{} writer differs from Stats.{}: {} (theorems C13_{}_* no longer transfer)", writer, writer, why, writer),
        cj,
    );
}

fn tally(rep: &mut Report, case: &Case) {
    rep.count(&format!("files={}", case.files.len().min(9)));
    rep.count(&format!("precision={}", case.precision));
    if case.branch {
        rep.count("html.branch_enabled");
    }
    let depth = case.files.iter().map(|f| f.rel.matches('/').count()).max().unwrap_or(0);
    rep.count(&format!("tree.max_depth={}", depth));
    for f in &case.files {
        if f.cov.lines.is_empty() {
            rep.count("file.no_lines");
        }
        if f.cov.functions.is_empty() {
            rep.count("file.no_functions");
        }
        if f.cov.branches.is_empty() {
            rep.count("file.no_branches");
        }
        if f.rel_abs {
            rep.count("file.absolute_rel_path");
        }
        if !f.exists {
            rep.count("file.source_missing");
        }
        if !f.rel.contains('/') {
            rep.count("file.in_root_dir");
        }
        if !f.cov.lines.is_empty() && f.cov.lines.values().all(|&n| n == 0) {
            rep.count("file.nothing_covered");
        }
        if !f.cov.lines.is_empty() && f.cov.lines.values().all(|&n| n > 0) {
            rep.count("file.fully_covered");
        }
    }
}

fn nontrivial(case: &Case) -> bool {
    case.files.len() >= 2 || case.files.iter().any(|f| f.cov.lines.is_empty())
}

pub fn run(rep: &mut Report) {
    rep.rule = "result sets of 0..9 files in generated directory trees (depth 0..6, shared and distinct \
                directories, relative and absolute rel_path, existing and missing sources), records with 0..12 \
                lines (none / all / some covered), 0..4 branch lines, 0..4 functions; precision 0..4; every set \
                goes through lcov, covdir, cobertura, markdown, ade (and html for a share). non-trivial = at least \
                two files (a level that sums children) or a file without lines (zero total); distinct = distinct \
                canonical request text"
        .to_string();
    rep.notes.push(
        "floating point is not modelled: the model gives exact rationals and each printed figure must lie within \
         half a unit of the last printed place (+1e-9 for f64 formats, +2e-5 for markdown's f32; cobertura 1e-12, \
         ade 1e-6) of it; the badge is compared as the truncated integer. Result sets have pairwise distinct \
         paths (a repeated path is C12's subject)."
            .to_string(),
    );
    let mut ctx = Ctx {
        env: Env::new(&rep.workdir),
        shrunk: BTreeMap::new(),
    };
    // corpus first: minimised past failures (corpus/C13/*.json); each must hold on the current tree
    let mut corpus: Vec<std::path::PathBuf> = std::fs::read_dir("/verif/corpus/C13")
        .map(|rd| rd.flatten().map(|e| e.path()).filter(|p| p.extension().map(|x| x == "json").unwrap_or(false)).collect())
        .unwrap_or_default();
    corpus.sort();
    for p in corpus {
        let parsed = std::fs::read_to_string(&p).ok().and_then(|t| serde_json::from_str::<serde_json::Value>(&t).ok());
        let Some((case, writer)) = parsed.as_ref().and_then(|v| case_from_json(&v["case"])) else {
            rep.notes.push(format!("corpus file {} is not a C13 case", p.display()));
            continue;
        };
        let Some(w) = WRITERS.iter().find(|w| **w == writer).copied() else { continue };
        let o = observe(&ctx.env, &case, w);
        let req = request(&ctx.env, w, &case);
        rep.case(&req, true);
        rep.count("corpus.cases");
        let m = run_model_named("gm_c13", &[req], &rep.workdir, "corpus");
        if !o.ofails.is_empty() {
            report_ofails(rep, &mut ctx, &case, w, &o.ofails, false);
        }
        if o.ofails.iter().all(|f| f.finding.is_some()) {
            if let Some(why) = agree(w, &m[0], &o.canon, &case) {
                disagreement(rep, &mut ctx, &case, w, why, &m[0], &o.canon, false);
            }
        }
    }

    obs::FIGS.with(|f| *f.borrow_mut() = Some(vec![]));
    printed::FIGS2.with(|f| *f.borrow_mut() = Some(vec![]));
    let mut rng = Rng::new(rep.seed ^ 0xC13);
    let n = rep.budget(1_600, 12);
    let html_every = 4;
    let mut reqs: Vec<String> = vec![];
    let mut pend: Vec<(usize, &'static str, String, bool)> = vec![]; // case index, writer, impl canon, oracle failed
    let mut cases: Vec<Case> = vec![];
    for i in 0..n {
        let case = gen_case(&mut rng);
        tally(rep, &case);
        let collision = has_name_collision(&ctx.env, &case);
        if collision {
            rep.count("covdir.name_collision");
        }
        let dup_only = collision && !has_file_dir_collision(&case) && !dup_paths(&case).is_empty();
        if dup_only {
            rep.count("html.duplicate_path_case");
        }
        for &w in WRITERS {
            // a file and a directory of one name cannot be laid out as source files; the same path
            // twice can (the "duplicate half" of the collisions: always run)
            if w == "html" && !dup_only && (i % html_every != 0 || collision) {
                continue;
            }
            let o = observe(&ctx.env, &case, w);
            let req = request(&ctx.env, w, &case);
            rep.case(&req, nontrivial(&case));
            rep.count(&format!("writer.{}", w));
            if o.canon.starts_with("panic") {
                rep.count("outcome.panic");
            }
            if !o.ofails.is_empty() {
                report_ofails(rep, &mut ctx, &case, w, &o.ofails, true);
            }
            pend.push((cases.len(), w, o.canon, o.ofails.iter().any(|f| f.finding.is_none())));
            reqs.push(req);
        }
        cases.push(case);
    }

    // boundary stream: line 0 (covdir: `line_num - 1`) and line 2^32-1 (cobertura, ade: `last + 1`)
    let nb = rep.budget(60, 5);
    for i in 0..nb {
        let mut case = gen_case(&mut rng);
        if case.files.is_empty() {
            continue;
        }
        let k = rng.below(case.files.len() as u64) as usize;
        let ws: &[&'static str] = if i % 2 == 0 {
            case.files[k].cov.lines.insert(0, rng.below(2));
            &["covdir", "lcov", "markdown", "cobertura", "ade"]
        } else {
            case.files[k].cov.lines.insert(u32::MAX, rng.below(2));
            &["cobertura", "ade", "lcov", "markdown"]
        };
        for &w in ws {
            let o = observe(&ctx.env, &case, w);
            let req = request(&ctx.env, w, &case);
            rep.case(&req, true);
            rep.count(&format!("boundary.{}.{}", if i % 2 == 0 { "line0" } else { "line_u32max" }, w));
            if o.canon.starts_with("panic") {
                rep.count("outcome.panic");
            }
            if !o.ofails.is_empty() {
                report_ofails(rep, &mut ctx, &case, w, &o.ofails, true);
            }
            pend.push((cases.len(), w, o.canon, o.ofails.iter().any(|f| f.finding.is_none())));
            reqs.push(req);
        }
        cases.push(case);
    }

    // tie stream (part Printed): rates exactly between two printable values
    {
        let env2 = Env::new(&rep.workdir);
        let mut trng = Rng::new(fnv64(&(rep.seed ^ 0xC13_71E).to_le_bytes()));
        let mut tie_cases: Vec<(Case, &'static str)> = vec![];
        printed::tie_stream(rep, &env2, &mut trng, &mut |_rep: &mut Report, c: &Case, w: &'static str| tie_cases.push((c.clone(), w)));
        for (case, w) in tie_cases {
            let o = observe(&ctx.env, &case, w);
            let req = request(&ctx.env, w, &case);
            rep.case(&req, true);
            rep.count(&format!("tie.{}", w));
            if !o.ofails.is_empty() {
                report_ofails(rep, &mut ctx, &case, w, &o.ofails, false);
            }
            pend.push((cases.len(), w, o.canon, o.ofails.iter().any(|f| f.finding.is_none())));
            reqs.push(req);
            cases.push(case);
        }
    }

    // html stress (seeded change C12-5: a check-then-act on the shared directory map of
    // `get_dirs_result`): a few hundred directories of 2-3 tiny files each, the files of a directory
    // adjacent in the job queue, 8 worker threads. The ordinary oracles apply: every file has a row
    // on its directory's page, every page's summary is the sum of its rows and of its files, the
    // directory rows of index.html add up to the global totals behind the badge and coverage.json.
    {
        let mut srng = Rng::new(fnv64(&(rep.seed ^ 0xC13_57E5).to_le_bytes()));
        let t0 = std::time::Instant::now();
        for round in 0..rep.budget(12, 2) {
            let ndirs = 300;
            let mut files = vec![];
            for d in 0..ndirs {
                for f in 0..(2 + srng.below(2)) {
                    let mut cov = grcov::CovResult::default();
                    cov.lines.insert(1, srng.below(3));
                    if srng.chance(1, 2) {
                        cov.lines.insert(2, srng.below(2));
                    }
                    files.push(FileCase { rel: format!("st{}/d{:03}/f{}.c", round % 2, d, f), rel_abs: false, exists: true, src_lines: Some(2), cov });
                }
            }
            let case = Case { files, precision: 2, branch: false, threads: 8 };
            let o = observe(&ctx.env, &case, "html");
            let req = request(&ctx.env, "html", &case);
            rep.case(&req, true);
            rep.count("stress.html.300_directories_8_threads");
            if !o.ofails.is_empty() {
                report_ofails(rep, &mut ctx, &case, "html", &o.ofails, false);
            }
            pend.push((cases.len(), "html", o.canon, o.ofails.iter().any(|f| f.finding.is_none())));
            reqs.push(req);
            cases.push(case);
        }
        rep.notes.push(format!("html stress: {:.1} s", t0.elapsed().as_secs_f64()));
    }

    let model = run_model_named("gm_c13", &reqs, &rep.workdir, "c13");
    let mut sampled = std::collections::BTreeSet::new();
    for (j, (ci, w, canon, oracle_failed)) in pend.iter().enumerate() {
        if (1..=2).contains(&cases[*ci].files.len()) && rep.samples.len() < 4 && sampled.insert(*w) {
            rep.sample(json!({"request": reqs[j], "impl": canon, "model": model[j]}));
        }
        if model[j] == "panic" {
            rep.count("model.panic");
        }
        if let Some(why) = agree(w, &model[j], canon, &cases[*ci]) {
            if *oracle_failed {
                // the failing input was already reported by the oracle
                rep.disagreements_checked += 1;
                continue;
            }
            let case = cases[*ci].clone();
            disagreement(rep, &mut ctx, &case, w, why, &model[j], canon, true);
        }
    }
    // the tolerance lives in the model (`Stats/Printed.lean`): every printed figure the oracles
    // evaluated goes through `printedOK`; the float evaluation of the harness must agree with it
    let figs = obs::FIGS.with(|f| f.borrow_mut().take()).unwrap_or_default();
    let freqs: Vec<String> = figs.iter().map(|f| f.0.clone()).collect();
    let fans = run_model_named("gm_c13", &freqs, &rep.workdir, "c13printed");
    let mut bad = 0;
    for (k, (req, ok)) in figs.iter().enumerate() {
        rep.count(if *ok { "printed.admissible" } else { "printed.rejected" });
        if fans[k] != if *ok { "1" } else { "0" } {
            bad += 1;
            if bad <= 5 {
                rep.disagreements_checked += 1;
                rep.fail("disagreement", None, "printed figure: the harness' float check and the model's printedOK differ".into(),
                    json!({"op": "printed", "request": req, "harness": ok, "model": fans[k]}));
            }
        }
    }
    rep.notes.push(format!("{} printed figures checked against the model's printedOK", figs.len()));
    // large totals (part Printed), then every judged figure against Stats/Rounded.lean
    {
        let env2 = Env::new(&rep.workdir);
        let mut brng = Rng::new(fnv64(&(rep.seed ^ 0xC13_B16).to_le_bytes()));
        printed::big_totals(rep, &env2, &mut brng);
    }
    printed::compare_with_model(rep);
    // the file pages against Writers.Docs.htmlRows / Stats.htmlStats (item 22)
    {
        let rows = ROWS.with(|v| std::mem::take(&mut *v.borrow_mut()));
        let rreqs: Vec<String> = rows.iter().map(|r| r.0.clone()).collect();
        let rans = run_model_named("gm_c13", &rreqs, &rep.workdir, "c13rows");
        let mut bad = 0;
        for (k, (req, got)) in rows.iter().enumerate() {
            rep.count("html.file_page_rows_compared");
            let parts: Vec<&str> = got.split(' ').collect();
            rep.count(if parts[0] == parts[1] { "html.file_page.header_equals_listed_rows" } else { "html.file_page.header_counts_unlisted_lines" });
            if rans[k] != *got {
                bad += 1;
                if bad <= 3 {
                    rep.disagreements_checked += 1;
                    rep.fail("disagreement", None, "html file page: header / listed rows differ from Stats.htmlStats / Writers.Docs.htmlRows".into(),
                        json!({"op": "c13.rows", "request": req, "impl": got, "model": rans[k]}));
                }
            }
        }
    }
    mdbytes::run(rep);
}

pub fn replay(rep: &mut Report, case: &serde_json::Value) {
    if case["op"].as_str().map(|o| o.starts_with("c13.md.")).unwrap_or(false) {
        return mdbytes::replay(rep, case);
    }
    let Some((c, writer)) = case_from_json(case) else {
        rep.notes.push("replay file has no C13 case".into());
        return;
    };
    let mut ctx = Ctx {
        env: Env::new(&rep.workdir),
        shrunk: BTreeMap::new(),
    };
    let Some(w) = WRITERS.iter().find(|w| **w == writer).copied() else {
        rep.notes.push(format!("unknown writer {:?}", writer));
        return;
    };
    let o = observe(&ctx.env, &c, w);
    let req = request(&ctx.env, w, &c);
    rep.case(&req, true);
    let m = run_model_named("gm_c13", &[req.clone()], &rep.workdir, "replay");
    rep.sample(json!({"request": req, "impl": o.canon, "model": m[0]}));
    if !o.ofails.is_empty() {
        report_ofails(rep, &mut ctx, &c, w, &o.ofails, false);
    } else if let Some(why) = agree(w, &m[0], &o.canon, &c) {
        disagreement(rep, &mut ctx, &c, w, why, &m[0], &o.canon, false);
    }
}

fn main() {
    corrlib::run_main("C13", run, replay);
}
