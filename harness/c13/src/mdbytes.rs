//! C13, part MdBytes — the byte layer of the small writers. The REAL `output_markdown`,
//! `output_files`, `gen_badge` (all five styles), `gen_coverage_json` and the badge / coverage.json
//! files of whole `output_html` runs are compared BYTE FOR BYTE with the Lean model
//! (`Writers/MdBytes.lean`: tabled's table layout, the f32 / f64 percentage arithmetic and
//! `{:.p$}` formatting, the Tera badge templates, serde_json's struct writer). Streams:
//!
//! * `md`     result sets with benign and hostile names (`|`, blanks, TAB, CR, LF, empty, non-ASCII)
//!            through `output_markdown`: ASCII names byte for byte, otherwise cell for cell (display
//!            width of non-ASCII text is outside the model); the model's strict reader
//!            `parseMarkdown` on the real bytes against the input; independent oracles (layout:
//!            equal line lengths and aligned column bars; figures: covered/total, missed ranges and
//!            percentages recomputed here); `output_files` byte for byte.
//! * `badge`  `gen_badge` ×5 and `gen_coverage_json` on `HtmlStats` values (zero totals, threshold
//!            neighbours, totals up to 2^57) under several limit configurations and precisions;
//!            the model's template matcher and JSON reader on the real bytes; independent oracles
//!            (figure = ⌊100c/t⌋ in integers, colour from the decimal limits, message within the
//!            printed precision, badge and message consistent).
//! * `html`   whole `output_html` runs with a config file: the six files against the model's global
//!            totals of the shown files.
//! * `fig`    the float model alone against rustc's f32 / f64 arithmetic on large operands (the f32
//!            path of markdown cannot be reached with 2^24 lines through the real writer).
use crate::decode::*;
use crate::gen::*;
use corrlib::*;
use grcov::*;
use serde_json::{json, Value};
use std::path::{Path, PathBuf};

const DRV: &str = "gm_c13";

// ---------------------------------------------------------------------------------------------
// markdown cases

#[derive(Clone, Debug)]
struct MdCase {
    precision: usize,
    files: Vec<(String, CovResult)>,
}

const TAME: &[&str] = &["a.c", "src/lib.rs", "core/util/io.cpp", "m o.h", "x", "very/long/path/to/some/deeply/nested/file_name_that_is_long.cpp", "k.rs", "t/zz.c"];
const HOSTILE: &[&str] = &[
    "x | y.c", "tab\tname.c", "trail ", " lead.c", "", "-", "|", "a|b|c", "cr\r", "mid\rcr.c", "two\nlines.c", "\n", "nl\n", "\u{1}ctl", "del\u{7f}.c", "%", "100.00%",
    "1 / 2", "---", "| file |", "a\n\nb", "  ", "q \n r",
];
const WIDE: &[&str] = &["zé.c", "日本/語.c", "über/x.rs", "e\u{301}.c", "🎩.rs", "a\u{a0}b", "ｗｉｄｅ.h"];

fn gen_md_cov(rng: &mut Rng) -> CovResult {
    let mut c = gen_cov(rng);
    if rng.chance(1, 8) {
        // a long file: multi-digit figures, long range lists
        let n = rng.range(50, 600);
        let dense = rng.chance(1, 2);
        for _ in 0..n {
            let l = rng.range(1, if dense { 700 } else { 100_000 }) as u32;
            c.lines.insert(l, if rng.chance(1, 3) { 0 } else { rng.range(1, 50) });
        }
    }
    if rng.chance(1, 25) {
        c.lines.insert(u32::MAX, rng.below(2));
    }
    c
}

fn gen_md_case(rng: &mut Rng, kind: u64) -> MdCase {
    let n = match rng.below(12) {
        0 => 0,
        1 => 1,
        _ => rng.range(2, 8) as usize,
    };
    let mut files: Vec<(String, CovResult)> = vec![];
    let mut tries = 0;
    while files.len() < n && tries < 60 {
        tries += 1;
        let name = match kind {
            0 => rng.pick(TAME).to_string(),
            1 => {
                if rng.chance(1, 2) {
                    rng.pick(HOSTILE).to_string()
                } else if rng.chance(1, 2) {
                    // random printable ASCII
                    (0..rng.range(0, 14)).map(|_| (0x20 + rng.below(0x5f) as u8) as char).collect()
                } else {
                    rng.pick(TAME).to_string()
                }
            }
            _ => {
                if rng.chance(1, 2) {
                    rng.pick(WIDE).to_string()
                } else {
                    rng.pick(TAME).to_string()
                }
            }
        };
        if files.iter().any(|f| f.0 == name) {
            continue;
        }
        files.push((name, gen_md_cov(rng)));
    }
    let precision = if rng.chance(1, 10) { *rng.pick(&[5usize, 6, 9, 12]) } else { rng.below(5) as usize };
    MdCase { precision, files }
}

fn md_tuples(c: &MdCase) -> Vec<ResultTuple> {
    c.files.iter().map(|(n, cov)| (PathBuf::from(format!("/src_root/{}", n)), PathBuf::from(n), cov.clone())).collect()
}

fn md_request(c: &MdCase) -> String {
    let mut s = format!("c13.md.markdown {}", c.precision);
    for (n, cov) in &c.files {
        s.push_str(&format!(" R{}={}", hex(n.as_bytes()), show_cov(cov)));
    }
    s
}

fn md_json(c: &MdCase) -> Value {
    json!({"op": "c13.md.markdown", "precision": c.precision,
           "files": c.files.iter().map(|(n, cov)| json!({"rel_hex": hex(n.as_bytes()), "cov": show_cov(cov)})).collect::<Vec<_>>()})
}

fn md_from_json(v: &Value) -> Option<MdCase> {
    Some(MdCase {
        precision: v["precision"].as_u64()? as usize,
        files: v["files"]
            .as_array()?
            .iter()
            .map(|f| Some((String::from_utf8(unhex(f["rel_hex"].as_str()?)).ok()?, parse_cov(f["cov"].as_str()?))))
            .collect::<Option<Vec<_>>>()?,
    })
}

fn run_markdown(dir: &Path, c: &MdCase) -> Result<Vec<u8>, String> {
    let p = dir.join("report.md");
    let _ = std::fs::remove_file(&p);
    let t = md_tuples(c);
    let pr = c.precision;
    let pp = p.clone();
    guarded(move || output_markdown(&t, Some(&pp), pr))?;
    Ok(std::fs::read(&p).unwrap_or_default())
}

/// the independent statement of `format_lines`: maximal runs of consecutive missed instrumented
/// lines (consecutive in the map; a covered line ends a run, an uninstrumented gap does not)
fn expected_ranges(cov: &CovResult) -> Vec<(u64, u64)> {
    let mut out: Vec<(u64, u64)> = vec![];
    let mut open: Option<(u64, u64)> = None;
    for (&l, &n) in &cov.lines {
        if n == 0 {
            open = Some(match open {
                None => (l as u64, l as u64),
                Some((s, _)) => (s, l as u64),
            });
        } else if let Some(r) = open.take() {
            out.push(r);
        }
    }
    if let Some(r) = open {
        out.push(r);
    }
    out
}

fn hit(cov: &CovResult) -> u64 {
    cov.lines.values().filter(|&&n| n != 0).count() as u64
}

/// |printed − 100·c/t| ≤ half a unit of the last place + f32 noise; "100" when t = 0; inside [0,100]
fn pct_ok(fig: &str, c: u64, t: u64, p: usize, eps: f64) -> Result<(), String> {
    if !fig.bytes().all(|b| b.is_ascii_digit() || b == b'.') || fig.is_empty() {
        return Err(format!("figure {:?} is not a plain decimal", fig));
    }
    let frac = fig.split_once('.').map(|x| x.1.len()).unwrap_or(0);
    if frac != p {
        return Err(format!("figure {:?} does not have {} decimals", fig, p));
    }
    let v: f64 = fig.parse().map_err(|_| format!("figure {:?}", fig))?;
    let exact = if t == 0 { 100.0 } else { 100.0 * c as f64 / t as f64 };
    if (v - exact).abs() > 0.5 * 10f64.powi(-(p as i32)) + eps {
        return Err(format!("figure {} but 100·{}/{} = {}", fig, c, t, exact));
    }
    if !(0.0..=100.0).contains(&v) {
        return Err(format!("figure {} outside [0,100]", fig));
    }
    Ok(())
}

fn is_tame(n: &str) -> bool {
    !n.is_empty() && n.is_ascii() && n.trim() == n && !n.contains('|') && !n.bytes().any(|b| b < 0x20 || b == 0x7f)
}
/// the guard of the model's round trip: ASCII, one line, no blank at the end
fn guard_ok(n: &str) -> bool {
    n.is_ascii() && !n.contains('\n') && !n.ends_with(' ')
}

/// layout + figures of one real report, judged without the model
fn md_oracle(c: &MdCase, bytes: &[u8]) -> Vec<String> {
    let mut out = vec![];
    let text = String::from_utf8_lossy(bytes).to_string();
    let ascii = c.files.iter().all(|f| f.0.is_ascii());
    let one_line = c.files.iter().all(|f| !f.0.contains('\n'));
    if !text.ends_with('\n') {
        out.push("report does not end with a line feed".into());
    }
    let lines: Vec<&str> = text.split('\n').collect();
    // table lines = everything before the first empty line
    let k = lines.iter().position(|l| l.is_empty()).unwrap_or(lines.len());
    let table = &lines[..k];
    if ascii && one_line {
        if table.len() != c.files.len() + 2 {
            out.push(format!("{} table lines for {} files", table.len(), c.files.len()));
        }
        if let Some(sep) = table.get(1) {
            if !sep.bytes().all(|b| b == b'|' || b == b'-') {
                out.push(format!("separator line {:?}", sep));
            }
            let bars: Vec<usize> = sep.bytes().enumerate().filter(|x| x.1 == b'|').map(|x| x.0).collect();
            if bars.len() != 5 {
                out.push(format!("{} columns", bars.len().saturating_sub(1)));
            }
            for l in table {
                if l.len() != sep.len() {
                    out.push(format!("line {:?} is {} bytes, the separator {}", l, l.len(), sep.len()));
                } else if bars.iter().any(|&i| l.as_bytes()[i] != b'|') {
                    out.push(format!("line {:?}: column bars not aligned", l));
                } else if bars.windows(2).any(|w| l.as_bytes()[w[0] + 1] != if *l == *sep { b'-' } else { b' ' } || l.as_bytes()[w[1] - 1] != if *l == *sep { b'-' } else { b' ' }) {
                    out.push(format!("line {:?}: a cell is not padded on both sides", l));
                }
            }
            // some cell is as wide as its column (no column wider than needed)
            for w in bars.windows(2) {
                let tight = table.iter().filter(|l| **l != *sep && l.len() == sep.len()).any(|l| l.as_bytes()[w[1] - 2] != b' ');
                if !tight && w[1] >= w[0] + 3 && c.files.iter().all(|f| guard_ok(&f.0)) {
                    out.push(format!("column at {} is wider than its widest cell", w[0]));
                }
            }
        }
    }
    if c.files.iter().all(|f| is_tame(&f.0)) {
        match decode_markdown(&text) {
            Err(e) => out.push(format!("undecodable: {}", e)),
            Ok(doc) => {
                if doc.rows.len() != c.files.len() {
                    out.push(format!("{} rows for {} files", doc.rows.len(), c.files.len()));
                }
                let (mut tc, mut tl) = (0u64, 0u64);
                for (r, (n, cov)) in doc.rows.iter().zip(c.files.iter()) {
                    let (cv, t) = (hit(cov), cov.lines.len() as u64);
                    tc += cv;
                    tl += t;
                    if r.file != *n {
                        out.push(format!("row named {:?}, result {:?}", r.file, n));
                    }
                    if (r.covered, r.total) != (cv, t) {
                        out.push(format!("{}: printed {} / {}, the record has {} / {}", n, r.covered, r.total, cv, t));
                    }
                    if !cov.lines.contains_key(&0) && r.missed != expected_ranges(cov) {
                        out.push(format!("{}: missed ranges {:?}, the lines imply {:?}", n, r.missed, expected_ranges(cov)));
                    }
                    if let Err(e) = pct_ok(&r.pct.0, cv, t, c.precision, 2e-5) {
                        out.push(format!("{}: {}", n, e));
                    }
                }
                if let Err(e) = pct_ok(&doc.total.0, tc, tl, c.precision, 2e-5) {
                    out.push(format!("total: {}", e));
                }
            }
        }
    }
    out
}

/// lines → cells (split at `|`, blanks trimmed, the dashes of the separator collapsed)
fn cells_of(bytes: &[u8]) -> Vec<Vec<String>> {
    String::from_utf8_lossy(bytes)
        .split('\n')
        .map(|l| {
            l.split('|')
                .map(|c| {
                    let t = c.trim_matches(' ');
                    if !t.is_empty() && t.bytes().all(|b| b == b'-') { "-".to_string() } else { t.to_string() }
                })
                .collect()
        })
        .collect()
}

/// what `c13.md.parse` must answer for this input, the printed percentages taken from `pcts`
fn expected_parse(c: &MdCase, pcts: Option<&[String]>) -> String {
    let mut toks = vec!["ok".to_string()];
    for (i, (n, cov)) in c.files.iter().enumerate() {
        let rg: Vec<String> = expected_ranges(cov).iter().map(|r| format!("{}-{}", r.0, r.1)).collect();
        toks.push(format!("M{};{};{}/{};{}", hex(n.as_bytes()), pcts.map(|p| hex(p[i].as_bytes())).unwrap_or_else(|| "*".into()), hit(cov), cov.lines.len(), rg.join(",")));
    }
    toks.push(format!("T{}", pcts.map(|p| hex(p[c.files.len()].as_bytes())).unwrap_or_else(|| "*".into())));
    toks.join(" ")
}

/// equal up to the `*` placeholders of the percentage fields
fn parse_agrees(expected: &str, got: &str) -> bool {
    let (e, g): (Vec<&str>, Vec<&str>) = (expected.split(' ').collect(), got.split(' ').collect());
    e.len() == g.len()
        && e.iter().zip(g.iter()).all(|(a, b)| {
            if let (Some(a), Some(b)) = (a.strip_prefix('M'), b.strip_prefix('M')) {
                let (x, y): (Vec<&str>, Vec<&str>) = (a.split(';').collect(), b.split(';').collect());
                x.len() == y.len() && x.iter().zip(y.iter()).all(|(p, q)| *p == "*" || p == q)
            } else {
                *a == "T*" && b.starts_with('T') || a == b
            }
        })
}

struct MdPend {
    case: MdCase,
    real: Result<Vec<u8>, String>,
    files_real: Option<Vec<u8>>,
    oracle_failed: bool,
}

fn md_check(rep: &mut Report, p: &MdPend, model: &str, parse_ans: Option<&str>, files_ans: Option<&str>) {
    let c = &p.case;
    let real = match &p.real {
        Ok(b) => b,
        Err(e) => {
            rep.fail("disagreement", None, format!("output_markdown panics ({}), the model returns", e), md_json(c));
            return;
        }
    };
    rep.count("md.compared_with_model");
    let Some(mbytes) = model.strip_prefix("ok h").map(unhex) else {
        rep.fail("disagreement", None, format!("model answer {:?}", &model[..model.len().min(60)]), md_json(c));
        return;
    };
    let ascii = c.files.iter().all(|f| f.0.is_ascii());
    let same = if ascii { *real == mbytes } else { cells_of(real) == cells_of(&mbytes) };
    if !same && !p.oracle_failed {
        let mut cj = md_json(c);
        cj["impl"] = json!(String::from_utf8_lossy(real));
        cj["model"] = json!(String::from_utf8_lossy(&mbytes));
        rep.fail(
            "disagreement",
            None,
            format!("output_markdown differs from MdBytes.markdownBytes {} (theorems C13_md_* no longer transfer)", if ascii { "byte for byte" } else { "cell for cell" }),
            cj,
        );
    }
    if let Some(ans) = parse_ans {
        let tame = c.files.iter().all(|f| is_tame(&f.0));
        let pcts: Option<Vec<String>> = if tame {
            decode_markdown(&String::from_utf8_lossy(real)).ok().map(|d| d.rows.iter().map(|r| r.pct.0.clone()).chain(std::iter::once(d.total.0.clone())).collect())
        } else {
            None
        };
        let line0 = c.files.iter().any(|f| f.1.lines.contains_key(&0));
        let exp = expected_parse(c, pcts.as_deref());
        if !line0 && !parse_agrees(&exp, ans) && !p.oracle_failed {
            let mut cj = md_json(c);
            cj["expected"] = json!(exp);
            cj["model"] = json!(ans);
            rep.fail("disagreement", None, "MdBytes.parseMarkdown on the real report does not return the rows of the input".into(), cj);
        }
    }
    if let (Some(fr), Some(fa)) = (&p.files_real, files_ans) {
        if fa.strip_prefix("ok h").map(unhex).as_ref() != Some(fr) {
            rep.fail("disagreement", None, "output_files differs from Docs.filesBytes".into(), md_json(c));
        }
    }
}

fn run_md(rep: &mut Report, dir: &Path) {
    let mut rng = Rng::new(rep.seed ^ 0xC13_0D01);
    let n = rep.budget(360, 10);
    let mut pend: Vec<MdPend> = vec![];
    let mut reqs: Vec<String> = vec![];
    let mut idx: Vec<(usize, Option<usize>, Option<usize>)> = vec![];
    for i in 0..n {
        if rep.verdict_clear() {
            break;
        }
        let kind = match i % 6 {
            0 | 1 => 0,
            2 | 3 | 4 => 1,
            _ => 2,
        };
        let c = gen_md_case(&mut rng, kind);
        let req = md_request(&c);
        let ascii = c.files.iter().all(|f| f.0.is_ascii());
        let guard = c.files.iter().all(|f| guard_ok(&f.0));
        rep.case(&req, c.files.len() >= 2 && c.files.iter().any(|f| f.1.lines.values().any(|&h| h == 0)));
        rep.count(["md.names.tame", "md.names.hostile_ascii", "md.names.non_ascii"][kind as usize]);
        rep.count(if ascii { "md.compare.bytes" } else { "md.compare.cells" });
        rep.count(&format!("md.precision={}", c.precision.min(5)));
        if c.files.is_empty() {
            rep.count("md.empty_report");
        }
        if c.files.iter().any(|f| f.0.contains('\n')) {
            rep.count("md.multi_line_cell");
        }
        if c.files.iter().any(|f| f.1.lines.is_empty()) {
            rep.count("md.file_without_lines");
        }
        let real = run_markdown(dir, &c);
        let mut oracle_failed = false;
        if let Ok(b) = &real {
            let fails = md_oracle(&c, b);
            if let Some(f) = fails.first() {
                oracle_failed = true;
                let mut cj = md_json(&c);
                cj["impl"] = json!(String::from_utf8_lossy(b));
                rep.fail("oracle", None, format!("markdown report: {}", f), cj);
            }
        }
        let mi = reqs.len();
        reqs.push(req);
        let pi = if guard && ascii && real.is_ok() {
            rep.count("md.reader_on_real_bytes");
            reqs.push(format!("c13.md.parse h{}", hex(real.as_ref().unwrap())));
            Some(reqs.len() - 1)
        } else {
            None
        };
        let (files_real, fi) = if i % 3 == 0 {
            let p = dir.join("files.txt");
            let t = md_tuples(&c);
            let pp = p.clone();
            let _ = guarded(move || output_files(&t, Some(&pp)));
            let mut s = "c13.md.files".to_string();
            for (nm, cov) in &c.files {
                s.push_str(&format!(" R{}={}", hex(nm.as_bytes()), show_cov(cov)));
            }
            reqs.push(s);
            rep.count("md.files_report");
            (Some(std::fs::read(&p).unwrap_or_default()), Some(reqs.len() - 1))
        } else {
            (None, None)
        };
        idx.push((mi, pi, fi));
        pend.push(MdPend { case: c, real, files_real, oracle_failed });
    }
    let ans = run_model_named(DRV, &reqs, &rep.workdir, "c13md");
    for (p, (mi, pi, fi)) in pend.iter().zip(idx.iter()) {
        if rep.verdict_clear() {
            break;
        }
        if rep.samples.len() < 4 && p.case.files.len() == 1 && p.real.is_ok() {
            rep.sample(json!({"request": reqs[*mi], "impl": String::from_utf8_lossy(p.real.as_ref().unwrap()), "model": ans[*mi]}));
        }
        md_check(rep, p, &ans[*mi], pi.map(|k| ans[k].as_str()), fi.map(|k| ans[k].as_str()));
    }
}

// ---------------------------------------------------------------------------------------------
// badges and coverage.json

#[derive(Clone, Copy, Debug, PartialEq)]
struct Lim {
    mant: u64,
    scale: u32,
}
impl Lim {
    fn text(&self) -> String {
        if self.scale == 0 {
            return self.mant.to_string();
        }
        let s = format!("{:0>width$}", self.mant, width = self.scale as usize + 1);
        format!("{}.{}", &s[..s.len() - self.scale as usize], &s[s.len() - self.scale as usize..])
    }
    fn args(&self) -> String {
        format!("{} {}", self.mant, self.scale)
    }
}

const LIMITS: &[(Option<(Lim, Lim)>, &str)] = &[
    (None, "default"),
    (Some((Lim { mant: 25, scale: 0 }, Lim { mant: 125, scale: 1 })), "25/12.5"),
    (Some((Lim { mant: 100, scale: 0 }, Lim { mant: 0, scale: 0 })), "100/0"),
    (Some((Lim { mant: 333, scale: 1 }, Lim { mant: 101, scale: 1 })), "33.3/10.1"),
    (Some((Lim { mant: 9999, scale: 2 }, Lim { mant: 999, scale: 1 })), "99.99/99.9"),
    (Some((Lim { mant: 101, scale: 0 }, Lim { mant: 1005, scale: 1 })), "101/100.5"),
    (Some((Lim { mant: 50, scale: 0 }, Lim { mant: 75, scale: 0 })), "50/75"),
    (Some((Lim { mant: 66667, scale: 3 }, Lim { mant: 33333, scale: 3 })), "66.667/33.333"),
    (Some((Lim { mant: 900, scale: 1 }, Lim { mant: 7, scale: 0 })), "90.0/7"),
    (Some((Lim { mant: 1, scale: 3 }, Lim { mant: 0, scale: 1 })), "0.001/0.0"),
];
const DEFAULT_LIMS: (Lim, Lim) = (Lim { mant: 90, scale: 0 }, Lim { mant: 75, scale: 0 });

const STYLES: &[(&str, html::BadgeStyle)] = &[
    ("flat", html::BadgeStyle::Flat),
    ("flat_square", html::BadgeStyle::FlatSquare),
    ("for_the_badge", html::BadgeStyle::ForTheBadge),
    ("plastic", html::BadgeStyle::Plastic),
    ("social", html::BadgeStyle::Social),
];

fn write_config(dir: &Path, lims: &Option<(Lim, Lim)>) -> Option<PathBuf> {
    lims.map(|(hi, med)| {
        let p = dir.join("limits.json");
        std::fs::write(&p, format!("{{\"hi_limit\": {}, \"med_limit\": {}}}", hi.text(), med.text())).unwrap();
        p
    })
}

fn gen_stats(rng: &mut Rng, lims: (Lim, Lim)) -> (u64, u64) {
    match rng.below(10) {
        0 => (0, 0),
        1 | 2 => {
            let t = rng.range(1, 200);
            (rng.range(0, t), t)
        }
        3 | 4 | 5 => {
            // a neighbour of a threshold: the least c with 100c/t ≥ limit, and the one below
            let l = if rng.chance(1, 2) { lims.0 } else { lims.1 };
            let t = match rng.below(3) {
                0 => rng.range(1, 1000),
                1 => rng.range(1, 1 << 20),
                _ => rng.range(1, 1 << 40),
            };
            let den = 100u128 * 10u128.pow(l.scale);
            let c = ((l.mant as u128 * t as u128 + den - 1) / den) as u64;
            let c = if rng.chance(1, 2) { c } else { c.saturating_sub(1) };
            (c.min(t), t)
        }
        6 => {
            // whole percentages and their neighbours
            let t = rng.range(1, 1 << 30);
            let k = rng.range(0, 100);
            let c = (k as u128 * t as u128 / 100) as u64;
            ((c + rng.below(2)).min(t), t)
        }
        7 => {
            let t = rng.range(1, 1 << 24);
            (rng.range(0, t), t)
        }
        8 => {
            let t = rng.range(1 << 52, 1 << 54);
            (rng.range(0, t), t)
        }
        _ => {
            let t = rng.range(1, (1 << 57) - 1);
            (if rng.chance(1, 4) { t } else { rng.range(0, t) }, t)
        }
    }
}

fn level_of_decimal(num: u128, den: u128, lims: (Lim, Lim)) -> &'static str {
    // num/den ≥ mant/10^scale  ⇔  num·10^scale ≥ mant·den
    let ge = |l: Lim| num * 10u128.pow(l.scale) >= l.mant as u128 * den;
    if ge(lims.0) {
        "hi"
    } else if ge(lims.1) {
        "med"
    } else {
        "low"
    }
}
/// |100c/t − limit| is within float noise of a limit: the f64 comparison may go either way
fn near_limit(c: u64, t: u64, lims: (Lim, Lim)) -> bool {
    if t == 0 {
        return false;
    }
    let v = 100.0 * c as f64 / t as f64;
    [lims.0, lims.1].iter().any(|l| (v - l.mant as f64 / 10f64.powi(l.scale as i32)).abs() < 1e-9)
}

struct BadgePend {
    case: Value,
    c: u64,
    t: u64,
    p: usize,
    lims: (Lim, Lim),
    /// per style: real bytes; then coverage.json
    real: Vec<Vec<u8>>,
    first_req: usize,
    oracle_failed: bool,
}

fn badge_oracle(c: u64, t: u64, p: usize, lims: (Lim, Lim), real: &[Vec<u8>]) -> Vec<String> {
    let mut out = vec![];
    let cur: u64 = if t == 0 { 100 } else { (c as u128 * 100 / t as u128) as u64 };
    let lv = level_of_decimal(cur as u128, 1, lims);
    let colour = match lv {
        "hi" => "#97ca00",
        "med" => "#dfb317",
        _ => "#e05d44",
    };
    for ((name, _), b) in STYLES.iter().zip(real.iter()) {
        let text = String::from_utf8_lossy(b).to_string();
        match decode_badge(&text) {
            Ok(f) => {
                if f != cur.to_string() {
                    out.push(format!("badge {} shows {}% for {} / {} (⌊100c/t⌋ = {})", name, f, c, t, cur));
                }
                if text.matches(&format!("{}%", cur)).count() < 3 {
                    out.push(format!("badge {}: the figure is not printed at every place", name));
                }
            }
            Err(e) => out.push(format!("badge {}: {}", name, e)),
        }
        if cur > 100 {
            out.push(format!("badge figure {} > 100", cur));
        }
        if *name != "social" {
            let n = ["#97ca00", "#dfb317", "#e05d44"].iter().filter(|k| text.contains(**k)).count();
            if n != 1 || !text.contains(&format!("fill=\"{}\"", colour)) {
                out.push(format!("badge {}: colour is not {} ({} of limits {} / {})", name, colour, lv, lims.0.text(), lims.1.text()));
            }
        }
    }
    // coverage.json
    let jt = String::from_utf8_lossy(&real[5]).to_string();
    match serde_json::from_str::<Value>(&jt) {
        Ok(v) => {
            let msg = v["message"].as_str().unwrap_or("");
            match msg.strip_suffix('%') {
                Some(f) => {
                    if let Err(e) = pct_ok(f, c, t, p, 1e-9) {
                        out.push(format!("coverage.json: {}", e));
                    }
                    // the same totals as the badge: ⌊message⌋ and the badge agree up to the rounding of the message
                    if let Ok(x) = f.parse::<f64>() {
                        let half = 0.5 * 10f64.powi(-(p as i32)) + 1e-9;
                        if x + half < cur as f64 || x - half >= cur as f64 + 1.0 {
                            out.push(format!("coverage.json says {} but the badges {}", msg, cur));
                        }
                    }
                }
                None => out.push(format!("coverage.json message {:?}", msg)),
            }
            if !near_limit(c, t, lims) {
                let lv = if t == 0 { level_of_decimal(100, 1, lims) } else { level_of_decimal(100 * c as u128, t as u128, lims) };
                let name = match lv {
                    "hi" => "green",
                    "med" => "yellow",
                    _ => "red",
                };
                if v["color"].as_str() != Some(name) {
                    out.push(format!("coverage.json color {:?}, the limits imply {}", v["color"], name));
                }
            }
            if v["schemaVersion"] != json!(1) || v["label"] != json!("coverage") || v.as_object().map(|o| o.len()) != Some(4) {
                out.push("coverage.json: not the shields.io endpoint schema".into());
            }
        }
        Err(e) => out.push(format!("coverage.json is not JSON: {}", e)),
    }
    out
}

fn run_badge_files(out: &Path, cfg: Option<&Path>, c: u64, t: u64, p: usize) -> Result<Vec<Vec<u8>>, String> {
    let _ = std::fs::remove_dir_all(out);
    std::fs::create_dir_all(out).unwrap();
    let cfg = cfg.map(|p| p.to_path_buf());
    let o = out.to_path_buf();
    guarded(move || {
        let (tera, conf) = html::get_config(cfg.as_deref(), false, p, true, html::HtmlResources::Cdn);
        let stats = HtmlStats { total_lines: t as usize, covered_lines: c as usize, ..Default::default() };
        for (_, st) in STYLES {
            html::gen_badge(&tera, &stats, &conf, &o, *st);
        }
        html::gen_coverage_json(&stats, &conf, &o, p);
    })?;
    let mut v: Vec<Vec<u8>> = STYLES.iter().map(|(n, _)| std::fs::read(out.join("badges").join(format!("{}.svg", n))).unwrap_or_default()).collect();
    v.push(std::fs::read(out.join("coverage.json")).unwrap_or_default());
    Ok(v)
}

fn badge_requests(c: u64, t: u64, p: usize, lims: (Lim, Lim), real: &[Vec<u8>]) -> Vec<String> {
    let mut reqs = vec![];
    for (n, _) in STYLES {
        reqs.push(format!("c13.md.badge {} {} {} {} {}", n, c, t, lims.0.args(), lims.1.args()));
    }
    reqs.push(format!("c13.md.json {} {} {} {} {}", p, c, t, lims.0.args(), lims.1.args()));
    for ((n, _), b) in STYLES.iter().zip(real.iter()) {
        reqs.push(format!("c13.md.badgeparse {} h{}", n, hex(b)));
    }
    reqs.push(format!("c13.md.jsonparse h{}", hex(&real[5])));
    reqs
}

fn badge_check(rep: &mut Report, b: &BadgePend, ans: &[String]) {
    rep.count("md.compared_with_model");
    if b.oracle_failed {
        return;
    }
    for k in 0..6 {
        let name = if k < 5 { STYLES[k].0 } else { "coverage.json" };
        if ans[k].strip_prefix("ok h").map(unhex).as_ref() != Some(&b.real[k]) {
            let mut cj = b.case.clone();
            cj["file"] = json!(name);
            cj["impl"] = json!(String::from_utf8_lossy(&b.real[k]));
            cj["model"] = json!(ans[k].strip_prefix("ok h").map(|h| String::from_utf8_lossy(&unhex(h)).to_string()));
            rep.fail("disagreement", None, format!("{} differs byte for byte from MdBytes.{} (theorems C13_badge_* / C13_coverage_json_* no longer transfer)", name, if k < 5 { "badgeBytes" } else { "coverageJsonBytes" }), cj);
            return;
        }
    }
    // the model's readers on the real bytes
    let cur: u64 = if b.t == 0 { 100 } else { (b.c as u128 * 100 / b.t as u128) as u64 };
    for k in 0..5 {
        let text = String::from_utf8_lossy(&b.real[k]).to_string();
        let colour = ["#97ca00", "#dfb317", "#e05d44"].iter().find(|c| text.contains(**c)).map(|c| hex(c.as_bytes())).unwrap_or_else(|| "-".into());
        let width = text.split("width=\"").nth(1).and_then(|r| r.split('"').next()).unwrap_or("");
        let exp = format!("ok {} {} {}", cur, colour, hex(width.as_bytes()));
        if ans[6 + k] != exp {
            let mut cj = b.case.clone();
            cj["expected"] = json!(exp);
            cj["model"] = json!(ans[6 + k]);
            rep.fail("disagreement", None, format!("MdBytes.parseBadge on the real {} badge", STYLES[k].0), cj);
            return;
        }
    }
    let v: Value = serde_json::from_slice(&b.real[5]).unwrap_or(Value::Null);
    let exp = format!("ok {} {}", hex(v["message"].as_str().unwrap_or("").trim_end_matches('%').as_bytes()), hex(v["color"].as_str().unwrap_or("").as_bytes()));
    if ans[11] != exp {
        let mut cj = b.case.clone();
        cj["expected"] = json!(exp);
        cj["model"] = json!(ans[11]);
        rep.fail("disagreement", None, "MdBytes.parseCoverageJson on the real coverage.json".into(), cj);
    }
}

fn run_badges(rep: &mut Report, dir: &Path) {
    let mut rng = Rng::new(rep.seed ^ 0xC13_BAD6);
    let per_cfg = rep.budget(22, 8);
    let out = dir.join("badge_out");
    let mut pend: Vec<BadgePend> = vec![];
    let mut reqs: Vec<String> = vec![];
    for (li, (lims_opt, lname)) in LIMITS.iter().enumerate() {
        let cfg = write_config(dir, lims_opt);
        let lims = lims_opt.unwrap_or(DEFAULT_LIMS);
        for j in 0..per_cfg {
            if rep.verdict_clear() {
                return;
            }
            let (c, t) = gen_stats(&mut rng, lims);
            let p = if rng.chance(1, 8) { *rng.pick(&[5usize, 7, 10, 17]) } else { rng.below(5) as usize };
            let case = json!({"op": "c13.md.badge", "covered": c, "total": t, "precision": p, "limits": li});
            rep.case(&format!("badge {} {} {} {}", c, t, p, lname), t == 0 || c as u128 * 100 % t.max(1) as u128 != 0);
            rep.count(&format!("badge.limits.{}", lname));
            rep.count(if t == 0 { "badge.total_zero" } else if t >= 1 << 53 { "badge.total_above_2^53" } else if t >= 1 << 24 { "badge.total_above_2^24" } else { "badge.total_small" });
            let real = match run_badge_files(&out, cfg.as_deref(), c, t, p) {
                Ok(r) => r,
                Err(e) => {
                    rep.fail("oracle", None, format!("gen_badge / gen_coverage_json panics: {}", e), case);
                    continue;
                }
            };
            let cur: u64 = if t == 0 { 100 } else { (c as u128 * 100 / t as u128) as u64 };
            rep.count(&format!("badge.level.{}", level_of_decimal(cur as u128, 1, lims)));
            rep.count(&format!("badge.digits={}", cur.to_string().len()));
            let fails = badge_oracle(c, t, p, lims, &real);
            let oracle_failed = !fails.is_empty();
            if let Some(f) = fails.first() {
                rep.fail("oracle", None, f.clone(), case.clone());
            }
            if j == 0 && li < 2 {
                rep.sample(json!({"case": case, "flat_square.svg": String::from_utf8_lossy(&real[1]), "coverage.json": String::from_utf8_lossy(&real[5])}));
            }
            let first_req = reqs.len();
            reqs.extend(badge_requests(c, t, p, lims, &real));
            pend.push(BadgePend { case, c, t, p, lims, real, first_req, oracle_failed });
        }
    }
    let ans = run_model_named(DRV, &reqs, &rep.workdir, "c13badge");
    for b in &pend {
        if rep.verdict_clear() {
            break;
        }
        let _ = (b.p, b.lims);
        badge_check(rep, b, &ans[b.first_req..b.first_req + 12]);
    }
}

// ---------------------------------------------------------------------------------------------
// whole html runs

fn html_run(env: &Env, case: &Case, cfg: Option<&Path>) -> Result<Vec<Vec<u8>>, String> {
    let tuples = env.tuples(case);
    let out = env.out.join("mdbytes.html");
    let _ = std::fs::remove_dir_all(&out);
    let (o, cfg, th, br, pr) = (out.clone(), cfg.map(|p| p.to_path_buf()), case.threads, case.branch, case.precision);
    guarded(move || output_html(&tuples, Some(&o), th, br, cfg.as_deref(), pr, &None, true, html::HtmlResources::Cdn))?;
    let mut v: Vec<Vec<u8>> = STYLES.iter().map(|(n, _)| std::fs::read(out.join("badges").join(format!("{}.svg", n))).unwrap_or_default()).collect();
    v.push(std::fs::read(out.join("coverage.json")).unwrap_or_default());
    let _ = std::fs::remove_dir_all(&out);
    Ok(v)
}

fn html_request(env: &Env, case: &Case, lims: (Lim, Lim)) -> String {
    let mut s = format!("c13.md.html {} {} {}", case.precision, lims.0.args(), lims.1.args());
    for f in &case.files {
        s.push(' ');
        s.push_str(&file_token(env, f));
    }
    s
}

fn html_check(rep: &mut Report, case: &Case, li: usize, real: &[Vec<u8>], ans: &str) -> bool {
    let lims = LIMITS[li].0.unwrap_or(DEFAULT_LIMS);
    let mut cj = case_json(case, "html");
    cj["op"] = json!("c13.md.html");
    cj["limits"] = json!(li);
    // oracle: the totals of the files that get a page
    let (mut c, mut t) = (0u64, 0u64);
    for f in &case.files {
        if !f.rel_abs && f.exists {
            t += f.cov.lines.len() as u64;
            c += hit(&f.cov);
        }
    }
    let fails = badge_oracle(c, t, case.precision, lims, real);
    if let Some(f) = fails.first() {
        rep.fail("oracle", None, format!("html report, global totals {} / {}: {}", c, t, f), cj);
        return false;
    }
    rep.count("md.compared_with_model");
    let toks: Vec<&str> = ans.split(' ').collect();
    if toks.len() != 9 || toks[0] != "ok" {
        rep.fail("disagreement", None, format!("model answer {:?}", &ans[..ans.len().min(60)]), cj);
        return false;
    }
    if toks[1] != c.to_string() || toks[2] != t.to_string() {
        rep.fail("disagreement", None, format!("global totals: model {} / {}, shown files {} / {}", toks[1], toks[2], c, t), cj);
        return false;
    }
    for k in 0..6 {
        if toks[3 + k].strip_prefix('h').map(unhex).as_ref() != Some(&real[k]) {
            let name = if k < 5 { STYLES[k].0 } else { "coverage.json" };
            cj["impl"] = json!(String::from_utf8_lossy(&real[k]));
            rep.fail("disagreement", None, format!("output_html: {} differs byte for byte from MdBytes.html{}", name, if k < 5 { "Badge" } else { "CoverageJson" }), cj);
            return false;
        }
    }
    true
}

fn run_html(rep: &mut Report) {
    let mut rng = Rng::new(rep.seed ^ 0xC13_4731);
    let env = Env::new(&rep.workdir.join("mdbytes_html"));
    let n = rep.budget(40, 8);
    let mut pend: Vec<(Case, usize, Vec<Vec<u8>>)> = vec![];
    let mut reqs = vec![];
    for i in 0..n {
        if rep.verdict_clear() {
            break;
        }
        let case = gen_case(&mut rng);
        if has_name_collision(&env, &case) {
            continue;
        }
        let li = (i as usize) % LIMITS.len();
        let cfg = write_config(&env.out, &LIMITS[li].0);
        let req = html_request(&env, &case, LIMITS[li].0.unwrap_or(DEFAULT_LIMS));
        rep.case(&req, case.files.len() >= 2);
        rep.count("html.runs");
        match html_run(&env, &case, cfg.as_deref()) {
            Ok(real) => {
                reqs.push(req);
                pend.push((case, li, real));
            }
            Err(e) => {
                let mut cj = case_json(&case, "html");
                cj["op"] = json!("c13.md.html");
                cj["limits"] = json!(li);
                rep.fail("oracle", None, format!("output_html panics: {}", e), cj);
            }
        }
    }
    let ans = run_model_named(DRV, &reqs, &rep.workdir, "c13mdhtml");
    for ((case, li, real), a) in pend.iter().zip(ans.iter()) {
        if rep.verdict_clear() {
            break;
        }
        html_check(rep, case, *li, real, a);
    }
}

// ---------------------------------------------------------------------------------------------
// the float model against rustc's arithmetic

fn fig_real(k: u32, p: usize, c: u64, t: u64) -> String {
    // the two expressions of output.rs 660-666 and html.rs 237-245, verbatim
    if k == 32 {
        let v: f32 = if t == 0 { 100.0 } else { c as usize as f32 * 100.0 / t as usize as f32 };
        format!("{:.p$}", v)
    } else {
        let v: f64 = if t != 0 { c as usize as f64 / t as usize as f64 * 100.0 } else { 100.0 };
        format!("{:.p$}", v)
    }
}

fn run_fig(rep: &mut Report) {
    let mut rng = Rng::new(rep.seed ^ 0xC13_F10A);
    let n = rep.budget(1500, 10);
    let mut reqs = vec![];
    let mut exp = vec![];
    for _ in 0..n {
        let k = if rng.chance(2, 3) { 32 } else { 64 };
        let bits = rng.range(1, 63);
        let t = rng.range(1, (1u64 << bits).max(2));
        let c = match rng.below(5) {
            0 => t,
            1 => t / 2,
            2 => (rng.range(0, 100) as u128 * t as u128 / 100) as u64,
            _ => rng.range(0, t),
        };
        let p = if rng.chance(1, 6) { rng.range(5, 24) as usize } else { rng.below(5) as usize };
        rep.count(&format!("fig.f{}", k));
        rep.count(if bits > 53 { "fig.operands>2^53" } else if bits > 24 { "fig.operands>2^24" } else { "fig.operands_small" });
        reqs.push(format!("c13.md.fig {} {} {} {}", k, p, c, t));
        exp.push(format!("ok {}", hex(fig_real(k, p, c, t).as_bytes())));
    }
    let ans = run_model_named(DRV, &reqs, &rep.workdir, "c13fig");
    let mut bad = 0;
    for ((r, e), a) in reqs.iter().zip(exp.iter()).zip(ans.iter()) {
        rep.case(r, true);
        if e != a {
            bad += 1;
            if bad <= 3 {
                rep.disagreements_checked += 1;
                rep.fail(
                    "disagreement",
                    None,
                    format!("float model: rustc prints {:?}, MdBytes.fmtFixed {:?}", String::from_utf8_lossy(&unhex(&e[3..])), String::from_utf8_lossy(&unhex(a.get(3..).unwrap_or("")))),
                    json!({"op": "c13.md.fig", "request": r}),
                );
            }
        }
    }
}

// ---------------------------------------------------------------------------------------------

pub fn run(rep: &mut Report) {
    let t0 = std::time::Instant::now();
    rep.rule.push_str(
        "; mdbytes streams: result sets with tame, hostile-ASCII and non-ASCII names through output_markdown (bytes == MdBytes.markdownBytes, cell for cell \
         when a name is not ASCII; parseMarkdown of the real bytes == the input rows), HtmlStats values through gen_badge x5 / gen_coverage_json under ten \
         limit configurations (bytes == badgeBytes / coverageJsonBytes), whole output_html runs, and the f32/f64 figure model against rustc",
    );
    let dir = rep.workdir.join("mdbytes");
    std::fs::create_dir_all(&dir).unwrap();
    run_md(rep, &dir);
    run_badges(rep, &dir);
    run_html(rep);
    run_fig(rep);
    rep.notes.push(format!("mdbytes part: {:.1} s", t0.elapsed().as_secs_f64()));
}

pub fn replay(rep: &mut Report, case: &Value) {
    let dir = rep.workdir.join("mdbytes");
    std::fs::create_dir_all(&dir).unwrap();
    match case["op"].as_str().unwrap_or("") {
        "c13.md.markdown" => {
            let Some(c) = md_from_json(case) else {
                rep.notes.push("replay: not a c13.md.markdown case".into());
                return;
            };
            let req = md_request(&c);
            rep.case(&req, true);
            let real = run_markdown(&dir, &c);
            let mut oracle_failed = false;
            if let Ok(b) = &real {
                if let Some(f) = md_oracle(&c, b).first() {
                    oracle_failed = true;
                    rep.fail("oracle", None, format!("markdown report: {}", f), md_json(&c));
                }
            }
            let mut reqs = vec![req];
            let guard = c.files.iter().all(|f| guard_ok(&f.0));
            if guard && real.is_ok() {
                reqs.push(format!("c13.md.parse h{}", hex(real.as_ref().unwrap())));
            }
            let ans = run_model_named(DRV, &reqs, &rep.workdir, "replay");
            rep.sample(json!({"request": reqs[0], "impl": real.as_ref().map(|b| String::from_utf8_lossy(b).to_string()).unwrap_or_default(), "model": ans[0]}));
            let p = MdPend { case: c, real, files_real: None, oracle_failed };
            md_check(rep, &p, &ans[0], ans.get(1).map(|s| s.as_str()), None);
        }
        "c13.md.badge" => {
            let (Some(c), Some(t), Some(p), Some(li)) = (case["covered"].as_u64(), case["total"].as_u64(), case["precision"].as_u64(), case["limits"].as_u64()) else {
                rep.notes.push("replay: not a c13.md.badge case".into());
                return;
            };
            let li = (li as usize).min(LIMITS.len() - 1);
            let lims = LIMITS[li].0.unwrap_or(DEFAULT_LIMS);
            let cfg = write_config(&dir, &LIMITS[li].0);
            rep.case(&format!("badge {} {} {} {}", c, t, p, li), true);
            match run_badge_files(&dir.join("badge_out"), cfg.as_deref(), c, t, p as usize) {
                Ok(real) => {
                    let fails = badge_oracle(c, t, p as usize, lims, &real);
                    if let Some(f) = fails.first() {
                        rep.fail("oracle", None, f.clone(), case.clone());
                    }
                    let reqs = badge_requests(c, t, p as usize, lims, &real);
                    let ans = run_model_named(DRV, &reqs, &rep.workdir, "replay");
                    rep.sample(json!({"request": reqs[5], "impl": String::from_utf8_lossy(&real[5]), "model": ans[5]}));
                    let b = BadgePend { case: case.clone(), c, t, p: p as usize, lims, real, first_req: 0, oracle_failed: !fails.is_empty() };
                    badge_check(rep, &b, &ans);
                }
                Err(e) => rep.fail("oracle", None, format!("gen_badge / gen_coverage_json panics: {}", e), case.clone()),
            }
        }
        "c13.md.html" => {
            let Some((c, _)) = case_from_json(case) else {
                rep.notes.push("replay: not a c13.md.html case".into());
                return;
            };
            let li = (case["limits"].as_u64().unwrap_or(0) as usize).min(LIMITS.len() - 1);
            let env = Env::new(&rep.workdir.join("mdbytes_html"));
            let cfg = write_config(&env.out, &LIMITS[li].0);
            let req = html_request(&env, &c, LIMITS[li].0.unwrap_or(DEFAULT_LIMS));
            rep.case(&req, true);
            match html_run(&env, &c, cfg.as_deref()) {
                Ok(real) => {
                    let ans = run_model_named(DRV, &[req.clone()], &rep.workdir, "replay");
                    rep.sample(json!({"request": req, "impl": String::from_utf8_lossy(&real[5]), "model": ans[0].split(' ').take(3).collect::<Vec<_>>().join(" ")}));
                    html_check(rep, &c, li, &real, &ans[0]);
                }
                Err(e) => rep.fail("oracle", None, format!("output_html panics: {}", e), case.clone()),
            }
        }
        "c13.md.fig" => {
            let Some(r) = case["request"].as_str() else { return };
            let f: Vec<&str> = r.split(' ').collect();
            if f.len() != 5 {
                return;
            }
            let (k, p, c, t) = (f[1].parse().unwrap_or(32), f[2].parse().unwrap_or(0), f[3].parse().unwrap_or(0), f[4].parse().unwrap_or(0));
            rep.case(r, true);
            let ans = run_model_named(DRV, &[r.to_string()], &rep.workdir, "replay");
            let e = format!("ok {}", hex(fig_real(k, p, c, t).as_bytes()));
            rep.sample(json!({"request": r, "impl": e, "model": ans[0]}));
            if ans[0] != e {
                rep.fail("disagreement", None, "float model differs from rustc".into(), case.clone());
            }
        }
        other => rep.notes.push(format!("replay: unknown mdbytes op {:?}", other)),
    }
}
