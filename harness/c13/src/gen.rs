//! C13 generator: result sets (files in a directory tree + coverage records), their JSON form
//! for replay, and the request text for the Lean driver.
use corrlib::*;
use grcov::{CovResult, Function};
use serde_json::{json, Value};
use std::path::{Component, Path, PathBuf};

#[derive(Clone, Debug)]
pub struct FileCase {
    /// path relative to the source root (normalised, `/`-separated)
    pub rel: String,
    /// hand `rel_path` to the writers as the absolute path (a file outside `--source-dir`)
    pub rel_abs: bool,
    /// the source file exists under the source root (the HTML writer opens it)
    pub exists: bool,
    /// number of lines of the source file (`None`: the two-line source of the first sessions'
    /// corpus). The HTML file page lists one row per SOURCE line; its header counts the RECORD's
    /// lines (second review, item 22): generated as `highest line of the record + k`, k ∈ -3..=3
    pub src_lines: Option<u32>,
    pub cov: CovResult,
}

/// the text of a source with `n` lines
pub fn source_text(n: Option<u32>) -> String {
    match n {
        None => "int x;\nint y;\n".to_string(),
        Some(n) => (1..=n).map(|i| format!("int l{};\n", i)).collect(),
    }
}

#[derive(Clone, Debug)]
pub struct Case {
    pub files: Vec<FileCase>,
    pub precision: usize,
    pub branch: bool,
    pub threads: usize,
}

pub struct Env {
    /// canonical source root: `abs_path = root/rel`
    pub root: PathBuf,
    /// scratch directory the writers write into
    pub out: PathBuf,
}

impl Env {
    pub fn new(workdir: &Path) -> Env {
        let root = workdir.join("src_root");
        let out = workdir.join("out");
        std::fs::create_dir_all(&root).unwrap();
        std::fs::create_dir_all(&out).unwrap();
        Env {
            root: std::fs::canonicalize(&root).unwrap(),
            out,
        }
    }
    pub fn abs(&self, f: &FileCase) -> PathBuf {
        self.root.join(&f.rel)
    }
    /// make the file system agree with `exists`
    pub fn materialise(&self, f: &FileCase) {
        let p = self.abs(f);
        if f.exists {
            let want = source_text(f.src_lines);
            if std::fs::metadata(&p).map(|m| m.len() != want.len() as u64).unwrap_or(true) {
                std::fs::create_dir_all(p.parent().unwrap()).unwrap();
                std::fs::write(&p, want).unwrap();
            }
        } else if p.exists() {
            let _ = std::fs::remove_file(&p);
        }
    }
    pub fn tuples(&self, case: &Case) -> Vec<grcov::ResultTuple> {
        case.files
            .iter()
            .map(|f| {
                self.materialise(f);
                let abs = self.abs(f);
                let rel = if f.rel_abs {
                    abs.clone()
                } else {
                    PathBuf::from(&f.rel)
                };
                (abs, rel, f.cov.clone())
            })
            .collect()
    }
}

pub fn comps(p: &Path) -> Vec<Vec<u8>> {
    p.components()
        .map(|c| match c {
            Component::RootDir => b"/".to_vec(),
            other => other.as_os_str().to_str().unwrap().as_bytes().to_vec(),
        })
        .collect()
}

fn join_hex(cs: &[Vec<u8>]) -> String {
    cs.iter().map(|c| hex(c)).collect::<Vec<_>>().join("/")
}

/// `<r><o>|<rel comps>|<abs comps>|<cov>`
pub fn file_token(env: &Env, f: &FileCase) -> String {
    let abs = comps(&env.abs(f));
    let rel = if f.rel_abs {
        abs.clone()
    } else {
        comps(Path::new(&f.rel))
    };
    format!(
        "{}{}|{}|{}|{}",
        if f.rel_abs { 0 } else { 1 },
        if f.exists { 1 } else { 0 },
        join_hex(&rel),
        join_hex(&abs),
        show_cov(&f.cov)
    )
}

pub fn request(env: &Env, op: &str, case: &Case) -> String {
    let mut s = op.to_string();
    for f in &case.files {
        s.push(' ');
        s.push_str(&file_token(env, f));
    }
    s
}

pub fn case_json(case: &Case, writer: &str) -> Value {
    json!({
        "writer": writer,
        "precision": case.precision,
        "branch": case.branch,
        "threads": case.threads,
        "files": case.files.iter().map(|f| json!({
            "rel": f.rel, "rel_abs": f.rel_abs, "exists": f.exists, "src_lines": f.src_lines, "cov": show_cov(&f.cov)
        })).collect::<Vec<_>>(),
    })
}

pub fn case_from_json(v: &Value) -> Option<(Case, String)> {
    let files = v["files"]
        .as_array()?
        .iter()
        .map(|f| {
            Some(FileCase {
                rel: f["rel"].as_str()?.to_string(),
                rel_abs: f["rel_abs"].as_bool()?,
                exists: f["exists"].as_bool()?,
                src_lines: f["src_lines"].as_u64().map(|n| n as u32),
                cov: parse_cov(f["cov"].as_str()?),
            })
        })
        .collect::<Option<Vec<_>>>()?;
    Some((
        Case {
            files,
            precision: v["precision"].as_u64()? as usize,
            branch: v["branch"].as_bool()?,
            threads: v["threads"].as_u64().unwrap_or(1) as usize,
        },
        v["writer"].as_str()?.to_string(),
    ))
}

// ---------------------------------------------------------------------------------------------

const DIRS: &[&str] = &["a", "b", "src", "lib", "x y", "über", "core", "t"];
const STEMS: &[&str] = &["main", "lib", "m o", "util", "zé", "x", "k"];
const EXTS: &[&str] = &[".c", ".rs", ".h", ".cpp"];
const FNAMES: &[&str] = &["f", "main", "g", "Cls#m", "é∀", "_ZN3foo3barEv", "h1", "h2"];
const COUNTS: &[u64] = &[1, 1, 2, 7, 1000, (1 << 32) + 1, (1 << 63) - 1];

/// a directory of the given depth; `shared` biases towards few distinct directories so that
/// directories get several children
fn gen_dir(rng: &mut Rng, depth: usize, shared: bool) -> Vec<&'static str> {
    (0..depth)
        .map(|_| {
            if shared {
                DIRS[rng.below(3) as usize]
            } else {
                *rng.pick(DIRS)
            }
        })
        .collect()
}

pub fn gen_cov(rng: &mut Rng) -> CovResult {
    let mut c = CovResult::default();
    // lines
    let shape = rng.below(10);
    let nl = match shape {
        0 => 0,              // a file without lines
        1 => 1,
        _ => rng.range(1, 12),
    };
    let span = if rng.chance(1, 12) { 3000 } else { 30 };
    let all_hit = rng.chance(1, 8);
    let none_hit = !all_hit && rng.chance(1, 8);
    for _ in 0..nl {
        let l = rng.range(1, span) as u32;
        let n = if all_hit {
            *rng.pick(COUNTS)
        } else if none_hit || rng.chance(2, 5) {
            0
        } else {
            *rng.pick(COUNTS)
        };
        c.lines.insert(l, n);
    }
    // branches: mostly on instrumented lines, sometimes on a line that has no count
    if rng.chance(3, 5) {
        let nb = rng.range(1, 4);
        let keys: Vec<u32> = c.lines.keys().cloned().collect();
        for _ in 0..nb {
            let l = if !keys.is_empty() && rng.chance(5, 6) {
                *rng.pick(&keys)
            } else {
                rng.range(1, span) as u32
            };
            let len = if rng.chance(1, 15) { 0 } else { rng.range(1, 5) };
            c.branches
                .insert(l, (0..len).map(|_| rng.chance(1, 2)).collect());
        }
    }
    // functions
    if rng.chance(7, 10) {
        let nf = rng.range(1, 4);
        for _ in 0..nf {
            let name = *rng.pick(FNAMES);
            c.functions.insert(
                name.to_string(),
                Function {
                    start: rng.range(1, span + 2) as u32,
                    executed: rng.chance(1, 2),
                },
            );
        }
    }
    c
}

pub fn gen_case(rng: &mut Rng) -> Case {
    let kind = rng.below(20);
    let nfiles = match kind {
        0 => 0, // the empty report
        1 | 2 => 1,
        _ => rng.range(2, 9) as usize,
    };
    let shared = rng.chance(2, 3);
    let max_depth = *rng.pick(&[0usize, 1, 2, 3, 6]);
    let p_abs = *rng.pick(&[0u64, 0, 1, 3]); // share of files handed over with an absolute rel_path
    let p_missing = *rng.pick(&[0u64, 0, 1, 3]);
    let root_files = rng.chance(1, 4);
    let mut files: Vec<FileCase> = vec![];
    let mut tries = 0;
    while files.len() < nfiles && tries < 100 {
        tries += 1;
        let lo: u64 = if root_files || max_depth == 0 { 0 } else { 1 };
        let depth = if root_files && rng.chance(1, 3) {
            0
        } else {
            rng.range(lo, max_depth as u64) as usize
        };
        let mut parts: Vec<String> = gen_dir(rng, depth, shared)
            .into_iter()
            .map(|s| s.to_string())
            .collect();
        let exists = !rng.chance(p_missing, 10);
        // a missing file never shares its name with an existing one (names are disjoint pools)
        let stem = *rng.pick(STEMS);
        let name = format!(
            "{}{}{}",
            if exists { "" } else { "gone_" },
            stem,
            rng.pick(EXTS)
        );
        parts.push(name);
        let rel = parts.join("/");
        if files.iter().any(|f| f.rel == rel) {
            continue;
        }
        let cov = gen_cov(rng);
        // the source has `highest line + k` lines, k ∈ -3..=3 (0 in half of the cases): the page lists
        // the source's lines, the header counts the record's
        let last = cov.lines.keys().last().copied().unwrap_or(0) as i64;
        let k = if rng.chance(1, 2) { 0 } else { rng.range(0, 6) as i64 - 3 };
        files.push(FileCase {
            rel,
            rel_abs: rng.chance(p_abs, 10),
            exists,
            src_lines: Some((last + k).max(0) as u32),
            cov,
        });
    }
    // name collisions in the covdir `children` object (about one case in 14): a file without
    // extension named like a directory that other files live in, or the same rel path twice
    if !files.is_empty() && rng.chance(1, 14) {
        let k = rng.below(files.len() as u64) as usize;
        let parts: Vec<&str> = files[k].rel.split('/').collect();
        // (only below a file that is filed under its relative path: the two then collide in the tree,
        // and the html writer – which would find a directory where the source should be – is skipped)
        if parts.len() >= 2 && !files[k].rel_abs && rng.chance(2, 3) {
            let depth = rng.range(1, parts.len() as u64 - 1) as usize;
            let rel = parts[..depth].join("/");
            if !files.iter().any(|f| f.rel == rel) {
                files.push(FileCase { rel, rel_abs: false, exists: false, src_lines: None, cov: gen_cov(rng) });
            }
        } else {
            // the same path twice: ONE source file on disk, long enough for both records
            let mut dup = files[k].clone();
            dup.cov = gen_cov(rng);
            let last = dup.cov.lines.keys().last().copied().unwrap_or(0).max(files[k].cov.lines.keys().last().copied().unwrap_or(0));
            dup.src_lines = Some(last.max(files[k].src_lines.unwrap_or(0)));
            files[k].src_lines = dup.src_lines;
            files.push(dup);
        }
    }
    Case {
        files,
        precision: rng.below(5) as usize,
        branch: rng.chance(1, 2),
        threads: rng.range(1, 3) as usize,
    }
}

/// two results with the same path (the "duplicate half" of the collisions): rel path → how often
pub fn dup_paths(case: &Case) -> std::collections::BTreeMap<String, usize> {
    let mut n = std::collections::BTreeMap::new();
    for f in &case.files {
        *n.entry(f.rel.clone()).or_insert(0usize) += 1;
    }
    n.retain(|_, c| *c > 1);
    n
}

/// a file whose path is a directory of another result: cannot be laid out as source files
pub fn has_file_dir_collision(case: &Case) -> bool {
    case.files.iter().any(|f| case.files.iter().any(|g| g.rel.starts_with(&format!("{}/", f.rel))))
}

/// the paths the covdir writer files the results under collide: two results at the same path, or a
/// file whose path is a directory of another result (the guard `PGuard` of Props/C13Docs.lean fails)
pub fn has_name_collision(env: &Env, case: &Case) -> bool {
    let paths: Vec<Vec<Vec<u8>>> = case
        .files
        .iter()
        .map(|f| if f.rel_abs { comps(&env.abs(f)) } else { comps(Path::new(&f.rel)) })
        .collect();
    for (i, p) in paths.iter().enumerate() {
        for (j, q) in paths.iter().enumerate() {
            if i != j && (p == q || (q.len() > p.len() && q[..p.len()] == p[..])) {
                return true;
            }
        }
    }
    false
}
