//! C12 part Java — one record per source file when the Java/Kotlin partial-path lookup of
//! `rewrite_paths` (`map_partial_path`, path_rewriting.rs 177-209, 253-334, 347-356) is in play,
//! and the key step of `add_results` for canonical paths that are not UTF-8 (lib.rs 116-124).
//!
//! Trees are multi-module JVM layouts: every module of a chain of suffix-related directory names
//! (`app`, `webapp`, `mywebapp`; `core`, `testcore`, …) carries a file with the same name and the
//! same layout below the module (`src/com/acme/Main.java`), some modules are repeated one level
//! down (`sub/app/…`: the deeper path ENDS WITH the shallower one component-wise; before fix fdef150
//! an existing `app/…` was then re-mapped to it — corpus/C12/java-nested-module-existing-file.json)
//! or in a hidden directory; in some trees all modules sit below a common `mods/` directory and the
//! inputs also contain PARTIAL paths (`app/src/M.java` for `mods/app/src/M.java`). The inputs name existing files through spellings that `add_results` canonicalises
//! (plain, `./`, `//`, `/./`, absolute), and — this is what switches the lookup on — mostly also a
//! covered file that is not on disk. Options as `main` passes them: `--source-dir S`, prefix dir =
//! `S` (main's default) or none.
//!
//! Tie: `Rewrite.addThenRewriteJ` (driver op `c12.java.addrewrite`, walk order read by the harness
//! with `read_dir`, as in harness/c11 partial.rs). Oracle (no call into grcov): every existing file
//! named by the inputs has exactly one record, under its own source-relative path, carrying the
//! clamped sums of the inputs that name it; no path is listed twice.
use crate::pathgen::*;
use crate::{covdir_check, covdir_domain, covdir_of, expected_lines, FINDING};
use corrlib::*;
use grcov::CovResult;
use serde_json::{json, Value};
use std::collections::{BTreeMap, BTreeSet};
use std::path::Path;
use std::sync::Mutex;

const CHAINS: &[&[&str]] = &[
    &["app", "webapp", "mywebapp", "oldmywebapp"],
    &["core", "testcore", "itestcore"],
    &["api", "webapi", "newwebapi"],
    &["client", "webclient"],
    &["cli", "db", "server"], // not suffix-related
];
const LAYOUTS: &[(&str, &str)] = &[
    ("src/com/acme", "Main.java"),
    ("src/acme", "Util.kt"),
    ("src", "M.java"),
    ("", "Top.java"),
    ("src/main/kotlin", "App.kt"),
];

fn add_file(dirs: &mut Vec<String>, files: &mut Vec<String>, path: &str) {
    let parts: Vec<&str> = path.split('/').collect();
    let mut p = String::new();
    for d in &parts[..parts.len() - 1] {
        if !p.is_empty() {
            p.push('/');
        }
        p.push_str(d);
        if !dirs.contains(&p) {
            dirs.push(p.clone());
        }
    }
    if !files.contains(&path.to_string()) {
        files.push(path.to_string());
    }
}

/// `nested`: also generate `sub/<module>/…` and hidden copies (the baseline's own weak spots)
fn build_mtree(rng: &mut Rng, base: &Path, idx: u64, nested: bool) -> Tree {
    // every fourth tree: all modules below one common directory (partial paths `app/…` then name
    // `mods/app/…`, and `mods/webapp/…` ends with them textually but not component-wise)
    let parent = if idx % 4 >= 2 { "mods/" } else { "" };
    let mut dirs: Vec<String> = vec![];
    let mut files: Vec<String> = vec![];
    let mut chains: Vec<usize> = (0..CHAINS.len()).collect();
    rng.shuffle(&mut chains);
    let mut layouts: Vec<usize> = (0..LAYOUTS.len()).collect();
    rng.shuffle(&mut layouts);
    for c in 0..rng.range(2, 3) as usize {
        let chain = CHAINS[chains[c]];
        let (lay, name) = LAYOUTS[layouts[c]];
        let mut mods: Vec<&str> = chain.to_vec();
        rng.shuffle(&mut mods);
        for (k, m) in mods.iter().enumerate() {
            if k >= 2 && rng.chance(1, 4) {
                continue;
            }
            let below = if lay.is_empty() { name.to_string() } else { format!("{}/{}", lay, name) };
            add_file(&mut dirs, &mut files, &format!("src/{}{}/{}", parent, m, below));
            if nested && rng.chance(1, 4) {
                add_file(&mut dirs, &mut files, &format!("src/{}/{}/{}", rng.pick(&["sub", "a", "zz", "q", "k9", "deep"]), m, below));
            }
            if nested && rng.chance(1, 6) {
                add_file(&mut dirs, &mut files, &format!("src/.gen/{}/{}", m, below));
            }
        }
    }
    add_file(&mut dirs, &mut files, "src/lib/util.c");
    add_file(&mut dirs, &mut files, "src/native/jni.c");
    // creation order is scrambled: nothing in the property may depend on how a directory lists
    // its entries
    rng.shuffle(&mut dirs);
    rng.shuffle(&mut files);
    for top in ["src", "other", "cw"] {
        if !dirs.contains(&top.to_string()) {
            dirs.push(top.to_string());
        }
    }
    materialise(base, idx, &dirs, &files)
}

/// the tree's entries in the order an unsorted walk yields them (pre-order, `readdir` order)
pub fn walk_order(root: &Path, out: &mut Vec<String>) {
    out.push(root.to_str().unwrap().to_string());
    let is_dir = std::fs::symlink_metadata(root).map(|m| m.is_dir()).unwrap_or(false);
    if is_dir {
        if let Ok(rd) = std::fs::read_dir(root) {
            for e in rd.flatten() {
                walk_order(&e.path(), out);
            }
        }
    }
}

fn is_jk(p: &str) -> bool {
    matches!(Path::new(p).extension().and_then(|e| e.to_str()), Some("java") | Some("kt"))
}

struct JCase {
    cfg: Cfg,
    batches: Vec<Vec<(String, CovResult)>>,
}

impl JCase {
    fn flat(&self) -> Vec<(String, CovResult)> {
        self.batches.iter().flatten().cloned().collect()
    }
    fn to_json(&self, t: &Tree) -> Value {
        json!({"op": "c12.java", "tree": t.to_json(), "cfg": self.cfg.to_json(),
               "batches": self.batches.iter().map(|b| b.iter().map(|(k, c)| json!([k, show_cov(c)])).collect::<Vec<_>>()).collect::<Vec<_>>()})
    }
    fn from_json(v: &Value) -> JCase {
        JCase {
            cfg: Cfg::from_json(&v["cfg"]),
            batches: v["batches"]
                .as_array()
                .unwrap()
                .iter()
                .map(|b| b.as_array().unwrap().iter().map(|e| (e[0].as_str().unwrap().to_string(), parse_cov(e[1].as_str().unwrap()))).collect())
                .collect(),
        }
    }
}

fn spell(rng: &mut Rng, t: &Tree, rel: &str, stats: &mut BTreeMap<String, u64>) -> String {
    let mut count = |k: &str| *stats.entry(format!("java.spelling.{}", k)).or_insert(0) += 1;
    let seps: Vec<usize> = rel.bytes().enumerate().filter(|(_, b)| *b == b'/').map(|(i, _)| i).collect();
    match rng.below(6) {
        0 | 1 => {
            count("plain");
            rel.to_string()
        }
        2 => {
            count("dot_slash");
            format!("./{}", rel)
        }
        3 if !seps.is_empty() => {
            count("double_slash");
            let mut k = rel.to_string();
            k.insert(*rng.pick(&seps), '/');
            k
        }
        4 if !seps.is_empty() => {
            count("dot_segment");
            let mut k = rel.to_string();
            k.insert_str(*rng.pick(&seps), "/.");
            k
        }
        _ => {
            count("absolute");
            format!("{}/{}", t.src, rel)
        }
    }
}

fn gen_jcase(rng: &mut Rng, t: &Tree, stats: &mut BTreeMap<String, u64>) -> JCase {
    let pd = if rng.chance(3, 4) { Some(t.src.clone()) } else { None };
    let cfg = Cfg { sd: Some(t.src.clone()), pd, mapping: None, ignore: vec![], keep: vec![], ine: false, filter: None };
    let all = t.real_files_under("src");
    let jfiles: Vec<&String> = all.iter().filter(|f| is_jk(f)).collect();
    let cfiles: Vec<&String> = all.iter().filter(|f| !is_jk(f)).collect();
    let mut targets: Vec<String> = vec![];
    for _ in 0..rng.range(2, 6) {
        let f = (*rng.pick(&jfiles)).clone();
        if !targets.contains(&f) {
            targets.push(f);
        }
    }
    if rng.chance(1, 3) {
        targets.push((*rng.pick(&cfiles)).clone());
    }
    let mut entries: Vec<(String, CovResult)> = vec![];
    let push = |rng: &mut Rng, k: String, entries: &mut Vec<(String, CovResult)>| {
        let i = entries.len() as u32;
        let mut c = gen_cov(rng, i);
        c.lines.insert(1, rng.below(4));
        entries.push((k, c));
    };
    for f in &targets {
        for _ in 0..rng.range(1, 3) {
            let k = spell(rng, t, f, stats);
            push(rng, k, &mut entries);
        }
    }
    // a covered file that is not in the checkout switches the lookup on
    match rng.below(12) {
        0 | 1 => *stats.entry("java.missing.none".into()).or_insert(0) += 1,
        2 | 3 => {
            *stats.entry("java.missing.non_java".into()).or_insert(0) += 1;
            push(rng, "build/gen/gone.c".into(), &mut entries);
        }
        4 | 5 | 6 => {
            // partial paths: an existing file without its leading 1.. components (what the lookup
            // is for)
            *stats.entry("java.missing.partial_path_of_existing".into()).or_insert(0) += 1;
            for _ in 0..rng.range(1, 2) {
                let f = *rng.pick(&jfiles);
                let cs: Vec<&str> = f.split('/').collect();
                if cs.len() < 2 {
                    continue;
                }
                let k = rng.range(1, cs.len() as u64 - 1) as usize;
                let part = cs[k..].join("/");
                if !entries.iter().any(|(e, _)| *e == part) {
                    push(rng, part, &mut entries);
                }
            }
        }
        _ => {
            *stats.entry("java.missing.generated_java".into()).or_insert(0) += 1;
            let k = rng.pick(&["build/generated/com/acme/Generated.java", "gen/Gone.kt", "Generated.java"]).to_string();
            push(rng, k, &mut entries);
        }
    }
    rng.shuffle(&mut entries);
    let nb = rng.range(1, 2) as usize;
    let mut batches: Vec<Vec<(String, CovResult)>> = vec![vec![]; nb];
    for e in entries {
        let b = rng.below(nb as u64) as usize;
        if !batches[b].iter().any(|(k, _)| *k == e.0) {
            batches[b].push(e);
        }
    }
    JCase { cfg, batches }
}

fn run_impl_j(case: &JCase) -> (Vec<String>, Result<Recs, String>) {
    let map: Mutex<grcov::CovResultMap> = Mutex::new(Default::default());
    let sd = case.cfg.sd.clone();
    let batches = case.batches.clone();
    if let Err(e) = guarded(|| {
        for b in batches {
            grcov::verif_add_results(b, &map, sd.as_deref().map(Path::new));
        }
    }) {
        return (vec![], Err(e));
    }
    let m = map.into_inner().unwrap();
    let mut keys: Vec<String> = m.keys().cloned().collect();
    keys.sort();
    (keys, call_rewrite(&case.cfg, m))
}

fn jreq(op: &str, t: &Tree, ord: &[String], case: &JCase) -> String {
    let o: Vec<String> = ord.iter().map(|p| format!("p{}", hex(p.as_bytes()))).collect();
    let r = request("R", t, &case.cfg, &case.flat());
    format!("{} O{} {}", op, o.join(","), &r[2..])
}

// ---------------------------------------------------------------------------------------------
// independent re-statement

/// the canonical regular file below `src` that `src.join(key)` denotes, relative to `src`
fn existing_rel(t: &Tree, key: &str) -> Option<String> {
    let p = std::fs::canonicalize(Path::new(&t.src).join(key)).ok()?;
    if !p.is_file() {
        return None;
    }
    p.to_str()?.strip_prefix(&format!("{}/", t.src)).map(|s| s.to_string())
}

struct Look {
    needed: bool,
    cands: BTreeMap<String, Vec<String>>,
    src: std::path::PathBuf,
}

/// lines 256-334 restated over the harness's own walk of the tree (component-wise `ends_with`)
fn look(t: &Tree, ord: &[String], cfg: &Cfg, map_keys: &[String]) -> Look {
    let sd = Path::new(cfg.sd.as_ref().unwrap());
    let has_java = map_keys.iter().any(|k| is_jk(k));
    let needed = has_java
        && map_keys.iter().any(|k| {
            let mut p = Path::new(k);
            if let Some(pd) = &cfg.pd {
                p = p.strip_prefix(pd).unwrap_or(p);
            }
            !sd.join(p).exists()
        });
    let mut cands: BTreeMap<String, Vec<String>> = BTreeMap::new();
    if needed {
        let covered: BTreeSet<&str> = map_keys.iter().map(|k| k.rsplit(|c| c == '/' || c == '\\').next().unwrap()).collect();
        let pre = format!("{}/", t.src);
        for p in ord {
            let Some(rel) = p.strip_prefix(&pre) else { continue };
            if rel.split('/').any(|c| c.starts_with('.')) {
                continue;
            }
            let name = rel.rsplit('/').next().unwrap();
            let regular = std::fs::symlink_metadata(p).map(|m| m.is_file()).unwrap_or(false);
            if is_jk(name) && regular && covered.contains(name) {
                cands.entry(name.to_string()).or_default().push(rel.to_string());
            }
        }
    }
    Look { needed, cands, src: sd.to_path_buf() }
}

impl Look {
    /// where the lookup sends the path `rel` (prefix already removed)
    fn target(&self, rel: &str) -> String {
        if !self.needed || !is_jk(rel) || self.src.join(rel).is_file() {
            return rel.to_string();
        }
        let name = Path::new(rel).file_name().unwrap().to_str().unwrap();
        match self.cands.get(name) {
            None => rel.to_string(),
            Some(o) if o.len() == 1 => o[0].clone(),
            Some(o) => o.iter().find(|c| Path::new(c).ends_with(rel)).cloned().unwrap_or(rel.to_string()),
        }
    }
}

fn rel_of_key(cfg: &Cfg, key: &str) -> String {
    let k = key.replace('\\', "/");
    match &cfg.pd {
        Some(pd) => Path::new(&k).strip_prefix(pd).map(|r| r.to_str().unwrap().to_string()).unwrap_or(k),
        None => k,
    }
}

fn markers(c: &CovResult) -> BTreeSet<u32> {
    c.lines.keys().filter(|&&l| l >= MARK).map(|l| l - MARK).collect()
}

type Fail = (String, Option<&'static str>);

fn joracle(rep: &mut Report, t: &Tree, ord: &[String], case: &JCase, map_keys: &[String], r: &Result<Recs, String>, tag: &str, counting: bool) -> Vec<Fail> {
    let mut fails: Vec<Fail> = vec![];
    let recs = match r {
        Ok(x) => x,
        Err(e) => return vec![(format!("add_results + rewrite_paths panicked: {}", e), None)],
    };
    let flat = case.flat();
    let lk = look(t, ord, &case.cfg, map_keys);
    if counting {
        rep.count(if lk.needed { "java.lookup_needed" } else { "java.lookup_not_needed" });
    }
    // the files the inputs name
    let mut by_file: BTreeMap<String, Vec<usize>> = BTreeMap::new();
    let mut loose: Vec<usize> = vec![];
    for (i, (k, _)) in flat.iter().enumerate() {
        match existing_rel(t, k) {
            Some(f) => by_file.entry(f).or_default().push(i),
            None => loose.push(i),
        }
    }
    for (f, es) in &by_file {
        let want: BTreeSet<u32> = es.iter().flat_map(|&i| markers(&flat[i].1)).collect();
        let holding: Vec<&(String, String, CovResult)> = recs.iter().filter(|(_, _, c)| !markers(c).is_disjoint(&want)).collect();
        if holding.len() != 1 {
            fails.push((format!("existing file {:?} is named by {} inputs and its data is in {} records", f, es.len(), holding.len()), None));
            continue;
        }
        let (abs, rel, c) = holding[0];
        if markers(c) != want {
            fails.push((format!("the record of {:?} merges inputs {:?}, the inputs naming the file are {:?}", f, markers(c), want), None));
        }
        let covs: Vec<&CovResult> = es.iter().map(|&i| &flat[i].1).collect();
        if expected_lines(&covs) != c.lines {
            fails.push((format!("{:?}: line counts are not the clamped sums of the inputs naming it", f), None));
        }
        if rel != f || *abs != format!("{}/{}", t.src, f) {
            // (since fix fdef150 a path that names a file below the source dir is never looked up)
            fails.push((format!("existing file {:?} is reported as ({:?}, {:?})", f, abs, rel), None));
        }
    }
    // a key that does not canonicalise (partial path, missing file) is reported under what the
    // component-wise lookup answers for it
    for &i in &loose {
        let mk = markers(&flat[i].1);
        let k = rel_of_key(&case.cfg, &flat[i].0);
        if k.starts_with('/') || k.contains("..") {
            continue;
        }
        if let (Some(want), Some((_, rel, _))) = (spec_normalize(&lk.target(&k)), recs.iter().find(|(_, _, c)| !markers(c).is_disjoint(&mk))) {
            if counting && want != spec_normalize(&k).unwrap_or_default() {
                rep.count("java.partial_key_resolved_to_a_file");
            }
            if *rel != want {
                fails.push((format!("key {:?} is reported as {:?}; the lookup (first candidate in walk order that ends with the path, component-wise) gives {:?}", flat[i].0, rel, want), None));
            }
        }
    }
    // no path twice
    let mut n: BTreeMap<&str, usize> = BTreeMap::new();
    for (_, rel, _) in recs {
        *n.entry(rel).or_insert(0) += 1;
    }
    for (rel, cnt) in n.iter().filter(|(_, c)| **c > 1) {
        if counting {
            rep.count("java.out.duplicate_path");
        }
        // which inputs are behind the records of this path
        let behind: BTreeSet<u32> = recs.iter().filter(|(_, r, _)| r == rel).flat_map(|(_, _, c)| markers(c)).collect();
        // a key that does not canonicalise (a partial path, a missing file) and that the lookup
        // sends to this path: another spelling of the file, not merged (C12-respelled-duplicates)
        let partial_spelling = loose.iter().any(|&i| !markers(&flat[i].1).is_disjoint(&behind) && {
            let k = rel_of_key(&case.cfg, &flat[i].0);
            lk.target(&k) == **rel || spec_normalize(&k).as_deref() == Some(*rel)
        });
        if partial_spelling {
            fails.push((format!("{:?} is listed {} times (a partial / non-canonicalising spelling next to the file's own record)", rel, cnt), Some(FINDING)));
        } else {
            fails.push((format!("{:?} is listed {} times", rel, cnt), None));
        }
    }
    // totals of the tree-shaped report count every file once
    if fails.is_empty() && covdir_domain(recs) && !recs.is_empty() {
        match covdir_of(rep, recs, tag) {
            Ok(v) => {
                let mut bad = vec![];
                let (total, listed) = covdir_check(&v, &mut bad, "");
                let want: u64 = recs.iter().map(|(_, _, c)| c.lines.len() as u64).sum();
                if total != want || listed != total || !bad.is_empty() {
                    fails.push((format!("covdir: root linesTotal {} listed {} records {} {:?}", total, listed, want, bad), None));
                }
                if counting {
                    rep.count("java.covdir_totals_checked");
                }
            }
            Err(p) => fails.push((format!("output_covdir failed: {}", p), None)),
        }
    }
    fails
}

fn shrink_j(rep: &mut Report, t: &Tree, ord: &[String], case: &JCase, finding: Option<&'static str>) -> JCase {
    let mut cur = JCase { cfg: case.cfg.clone(), batches: vec![case.flat()] };
    let still = |rep: &mut Report, c: &JCase| {
        let (keys, r) = run_impl_j(c);
        let fails = joracle(rep, t, ord, c, &keys, &r, "jshrink", false);
        let first = fails.iter().find(|f| f.1.is_none()).or(fails.first());
        matches!(first, Some(f) if f.1 == finding)
    };
    if !still(rep, &cur) {
        return JCase { cfg: case.cfg.clone(), batches: case.batches.clone() };
    }
    let mut progress = true;
    while progress {
        progress = false;
        for i in 0..cur.batches[0].len() {
            if cur.batches[0].len() <= 1 {
                break;
            }
            let mut b = cur.batches[0].clone();
            b.remove(i);
            let c = JCase { cfg: cur.cfg.clone(), batches: vec![b] };
            if still(rep, &c) {
                cur = c;
                progress = true;
                break;
            }
        }
    }
    cur
}

fn check_case(rep: &mut Report, t: &Tree, ord: &[String], case: &JCase, keys: &[String], r: &Result<Recs, String>, model: &str, tag: &str) {
    let fails = joracle(rep, t, ord, case, keys, r, tag, true);
    let out = show_recs(r);
    let mut cj = case.to_json(t);
    if let Some(f) = fails.iter().find(|f| f.1.is_none()) {
        let mut what = f.0.clone();
        if rep.failures.iter().filter(|x| x.finding.is_none()).count() < 6 {
            let c = shrink_j(rep, t, ord, case, None);
            let (k2, r2) = run_impl_j(&c);
            if let Some(g) = joracle(rep, t, ord, &c, &k2, &r2, "jshrink", false).iter().find(|g| g.1.is_none()) {
                what = g.0.clone();
            }
            cj = c.to_json(t);
        }
        rep.fail("oracle", None, what, cj);
        return;
    }
    if out != model {
        rep.disagreements_checked += 1;
        cj["impl"] = json!(out);
        cj["model"] = json!(model);
        rep.fail("disagreement", None,
            "add_results + rewrite_paths (Java/Kotlin keys) differs from Rewrite.addThenRewriteJ (theorems C12_java_* no longer transfer)".into(), cj);
        return;
    }
    if let Some(f) = fails.first() {
        let mut what = f.0.clone();
        if rep.failures.iter().filter(|x| x.finding.as_deref() == f.1).count() < 4 {
            let c = shrink_j(rep, t, ord, case, f.1);
            let (k2, r2) = run_impl_j(&c);
            if let Some(g) = joracle(rep, t, ord, &c, &k2, &r2, "jshrink", false).first() {
                what = g.0.clone();
            }
            cj = c.to_json(t);
        }
        rep.fail("oracle", f.1, what, cj);
    }
}

fn run_tree(rep: &mut Report, t: &Tree, cases: &[JCase], tag: &str, sample: bool) {
    std::env::set_current_dir(&t.cw).unwrap();
    let mut ord = vec![];
    walk_order(Path::new(&t.root), &mut ord);
    let mut reqs = vec![];
    let mut ireqs = vec![];
    let mut outs = vec![];
    for case in cases {
        outs.push(run_impl_j(case));
        reqs.push(jreq("c12.java.addrewrite", t, &ord, case));
        ireqs.push(jreq("c12.java.info", t, &ord, case));
    }
    let model = run_model_named("gm_c12", &reqs, &rep.workdir, &format!("java{}", tag));
    let info = run_model_named("gm_c12", &ireqs, &rep.workdir, &format!("javainfo{}", tag));
    for (i, case) in cases.iter().enumerate() {
        let flat = case.flat();
        let respelled = {
            let mut seen = BTreeSet::new();
            flat.iter().any(|(k, _)| existing_rel(t, k).map_or(false, |f| !seen.insert(f)))
        };
        rep.case(&reqs[i], respelled || info[i].starts_with("needed=1"));
        rep.count(&format!("java.cfg.prefix_dir={}", if case.cfg.pd.is_some() { "=source" } else { "none" }));
        for tok in info[i].split(' ').skip(1) {
            if let Some(b) = tok.split(':').nth(1) {
                rep.count(&format!("java.model.{}", b));
            }
        }
        if sample && i == 0 {
            rep.sample(json!({"case": case.to_json(t), "impl": show_recs(&outs[i].1), "model": model[i], "model_info": info[i]}));
        }
        check_case(rep, t, &ord, case, &outs[i].0, &outs[i].1, &model[i], tag);
    }
    std::env::set_current_dir("/verif").unwrap();
}

// ---------------------------------------------------------------------------------------------
// closed witnesses of Props/C12.lean (part Java) on the real code

fn lines1(n: u64, mark: u32) -> CovResult {
    let mut c = CovResult::default();
    c.lines.insert(1, n);
    c.lines.insert(MARK + mark, 0);
    c
}

/// `C12_java_sibling_modules_one_record_each`: app / webapp with the same layout, three spellings
/// of each file, one generated file that is not on disk: every file once, counts summed
fn witness_siblings(rep: &mut Report) {
    let base = rep.workdir.join("fs");
    let s = |x: &[&str]| -> Vec<String> { x.iter().map(|y| y.to_string()).collect() };
    for (n, order) in [["webapp", "app"], ["app", "webapp"]].iter().enumerate() {
        let mut dirs = s(&["src", "other", "cw"]);
        let mut files = vec![];
        for m in order {
            dirs.push(format!("src/{}", m));
            dirs.push(format!("src/{}/src", m));
            files.push(format!("src/{}/src/M.java", m));
        }
        let t = materialise(&base, 3900 + n as u64, &dirs, &files);
        let abs = format!("{}/app/src/M.java", t.src);
        let batch: Vec<(String, CovResult)> = vec![
            ("app/src/M.java".to_string(), lines1(1, 0)),
            ("./app//src/./M.java".to_string(), lines1(2, 1)),
            (abs.clone(), lines1(3, 2)),
            ("webapp/src/M.java".to_string(), lines1(10, 3)),
            ("gen/Generated.java".to_string(), lines1(7, 4)),
        ];
        let case = JCase {
            cfg: Cfg { sd: Some(t.src.clone()), pd: Some(t.src.clone()), mapping: None, ignore: vec![], keep: vec![], ine: false, filter: None },
            batches: vec![batch],
        };
        rep.count("java.witness.sibling_modules");
        let (_, r) = run_impl_j(&case);
        let rels: Vec<(String, u64)> = match &r {
            Ok(v) => {
                let mut x: Vec<(String, u64)> = v.iter().map(|(_, r, c)| (r.clone(), c.lines[&1])).collect();
                x.sort();
                x
            }
            Err(_) => vec![],
        };
        let want = vec![("app/src/M.java".to_string(), 6u64), ("gen/Generated.java".to_string(), 7), ("webapp/src/M.java".to_string(), 10)];
        if rels == want {
            rep.count("java.witness.sibling_modules.reproduced_on_real_code");
        } else {
            rep.fail("oracle", None,
                format!("sibling modules app / webapp: expected one record per file {:?}, the report has {:?}", want, rels), case.to_json(&t));
        }
        run_tree(rep, &t, &[case], &format!("w{}", n), false);
    }
}

/// lib.rs 116-124 after 7f9b2b3: a canonical path that is not UTF-8 cannot be a key; the name stays
/// as given. `S/lnk -> \xff` (a directory whose name is the byte 0xFF), keys `lnk/a.c`, `lnk/./a.c`,
/// `ok/b.c`, `ok/./b.c`: the model (`addResultsU`) and the code keep the first two apart and merge
/// the last two.
fn utf8_witness(rep: &mut Report) {
    use std::ffi::OsStr;
    use std::os::unix::ffi::OsStrExt;
    let base = rep.workdir.join("fs");
    let root = base.join("t3950");
    let _ = std::fs::remove_dir_all(&root);
    std::fs::create_dir_all(root.join("src/ok")).unwrap();
    let root = std::fs::canonicalize(&root).unwrap();
    let src = root.join("src");
    let odd = src.join(OsStr::from_bytes(b"\xff"));
    if std::fs::create_dir_all(&odd).is_err() {
        rep.notes.push("part Java: the file system refuses a non-UTF-8 directory name; utf8 witness skipped".into());
        return;
    }
    std::fs::write(odd.join("a.c"), "int x;\n").unwrap();
    std::fs::write(src.join("ok/b.c"), "int x;\n").unwrap();
    let _ = std::os::unix::fs::symlink(OsStr::from_bytes(b"\xff"), src.join("lnk"));
    let batch: Vec<(String, CovResult)> = vec![
        ("lnk/a.c".to_string(), lines1(1, 0)),
        ("lnk/./a.c".to_string(), lines1(2, 1)),
        ("ok/b.c".to_string(), lines1(3, 2)),
        ("ok/./b.c".to_string(), lines1(4, 3)),
    ];
    let map: Mutex<grcov::CovResultMap> = Mutex::new(Default::default());
    let (b2, s2) = (batch.clone(), src.clone());
    let r = guarded(|| grcov::verif_add_results(b2, &map, Some(&s2)));
    rep.count("java.witness.non_utf8_canonical_path");
    let m = map.into_inner().unwrap();
    let got = match r {
        Err(e) => format!("panic {}", e),
        Ok(()) => {
            let mut v: Vec<String> = m.iter().map(|(k, c)| format!("K{}={}", hex(k.as_bytes()), show_cov(c))).collect();
            v.sort();
            format!("ok {}", v.join(" "))
        }
    };
    // the request, with the tree given in bytes
    let rootb = root.as_os_str().as_bytes();
    let p = |rel: &[u8]| -> String {
        let mut v = rootb.to_vec();
        if !rel.is_empty() {
            v.push(b'/');
            v.extend_from_slice(rel);
        }
        format!("p{}", hex(&v))
    };
    let mut dirs: Vec<String> = vec![];
    let mut anc = root.clone();
    loop {
        if anc.as_os_str().as_bytes() != b"/" {
            dirs.push(format!("p{}", hex(anc.as_os_str().as_bytes())));
        }
        if !anc.pop() {
            break;
        }
    }
    for d in [&b"src"[..], b"src/ok", b"src/\xff"] {
        dirs.push(p(d));
    }
    let files = [p(b"src/ok/b.c"), p(b"src/\xff/a.c")];
    let link = {
        let mut v = rootb.to_vec();
        v.extend_from_slice(b"/src/lnk");
        format!("l{}:{}", hex(&v), hex(b"\xff"))
    };
    let mut req = format!("c12.addkeys S+{} P- M- I K E0 Fn W{} D{} X{} Y{} |",
        hex(src.as_os_str().as_bytes()), hex(rootb), dirs.join(","), files.join(","), link);
    for (k, c) in &batch {
        req.push_str(&format!(" K{}={}", hex(k.as_bytes()), show_cov(c)));
    }
    let model = run_model_named("gm_c12", &[req.clone()], &rep.workdir, "utf8");
    rep.case(&req, true);
    let case = json!({"op": "c12.utf8", "request": req});
    // oracle: the two spellings of ok/b.c are merged; the spellings through the link stay apart
    // (their canonical path is not a string) — and nothing panics
    let keys: BTreeSet<String> = m.keys().cloned().collect();
    let merged = format!("{}/ok/b.c", src.display());
    if got.starts_with("panic") || !keys.contains(&merged) || !keys.contains("lnk/a.c") || !keys.contains("lnk/./a.c") || keys.len() != 3 {
        rep.fail("oracle", None, format!("add_results with a non-UTF-8 canonical path: keys {:?} ({})", keys, got.split(' ').next().unwrap_or("")), case.clone());
    } else {
        rep.count("java.witness.non_utf8_canonical_path.key_stays_as_given");
    }
    if got != model[0] {
        rep.disagreements_checked += 1;
        rep.fail("disagreement", None, "add_results differs from Rewrite.addResultsU on a canonical path that is not UTF-8".into(),
            json!({"op": "c12.utf8", "request": req, "impl": got, "model": model[0]}));
    }
    // what rewrite_paths then does with such a map is C14's subject (review item 10): counted only
    let cfg = Cfg { sd: Some(src.to_str().unwrap().to_string()), pd: None, mapping: None, ignore: vec![], keep: vec![], ine: false, filter: None };
    match call_rewrite_lossy(&cfg, m) {
        Ok(()) => rep.count("java.witness.non_utf8.rewrite_paths_returns"),
        Err(_) => rep.count("java.witness.non_utf8.rewrite_paths_panics"),
    }
    let _ = std::fs::remove_dir_all(&root);
}

fn call_rewrite_lossy(cfg: &Cfg, map: grcov::CovResultMap) -> Result<(), String> {
    let cfg = cfg.clone();
    guarded(move || {
        let _ = grcov::rewrite_paths(map, None, cfg.sd.as_deref().map(Path::new), None, false, &cfg.ignore[..], &cfg.keep[..], None, grcov::FileFilter::default());
    })
}

// ---------------------------------------------------------------------------------------------

pub fn run(rep: &mut Report) {
    let mut rng = Rng::new(fnv64(&(rep.seed ^ 0xC12_7A7A).to_le_bytes()));
    witness_siblings(rep);
    utf8_witness(rep);
    let base = rep.workdir.join("fs");
    let n_trees = rep.budget(8, 3);
    let per_tree = rep.budget(40, 4) * 8 / n_trees;
    for ti in 0..n_trees {
        // every other tree has sibling modules only; the others add nested / hidden copies
        let t = build_mtree(&mut rng, &base, 3000 + ti, ti % 2 == 1);
        let mut stats: BTreeMap<String, u64> = BTreeMap::new();
        let cases: Vec<JCase> = (0..per_tree).map(|_| gen_jcase(&mut rng, &t, &mut stats)).collect();
        for (k, v) in stats {
            rep.count_n(&k, v);
        }
        rep.count(if ti % 2 == 1 { "java.tree.nested_or_hidden_copies" } else { "java.tree.sibling_modules_only" });
        if (3000 + ti) % 4 >= 2 {
            rep.count("java.tree.modules_below_common_dir");
        }
        run_tree(rep, &t, &cases, &format!("{}", ti), ti < 1);
    }
    rep.rule.push_str("; part Java: multi-module trees (chains of suffix-related module names app/webapp/mywebapp, \
        core/testcore, api/webapi, …, each module with the same Java/Kotlin file below the same layout; every other tree also \
        nested `sub/<module>` and hidden copies), created in scrambled order; inputs = 2-6 existing files in 1-3 \
        canonicalising spellings each (plain, ./, //, /./, absolute) plus, in 5 of 6 cases, a covered file that is not on \
        disk (generated .java/.kt, a .c file, or a partial path of an existing file); --source-dir S with prefix dir S \
        (main's default) or none; non-trivial = a file named by two spellings or the lookup is switched on");
    rep.notes.push("part Java: the walk order handed to the model is read with read_dir from the generated tree (ext4 hash \
        order here); --ignore globs, symlinks inside the Java tree and path mappings are C11's part Partial".into());
}

pub fn replay(rep: &mut Report, case: &Value) {
    match case["op"].as_str().unwrap_or("") {
        "c12.utf8" => utf8_witness(rep),
        _ => {
            let base = rep.workdir.join("fs");
            let t = tree_from_json(&base, &case["tree"]);
            let c = JCase::from_json(case);
            run_tree(rep, &t, &[c], "replay", true);
        }
    }
}
