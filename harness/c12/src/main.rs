//! C12 — one record per source file: `add_results` + `rewrite_paths` + `output_covdir` on inputs
//! that name the same file through several spellings, against the Lean model (driver `gm_c12`,
//! ops `addrewrite` / `covdir` / `rewrite`) and the property oracles.
#[path = "../../c11/src/pathgen.rs"]
mod pathgen;
mod java;
use corrlib::*;
use grcov::CovResult;
use pathgen::*;
use serde_json::{json, Value};
use std::collections::{BTreeMap, BTreeSet};
use std::path::{Path, PathBuf};
use std::sync::Mutex;

const FINDING: &str = "C12-respelled-duplicates";
/// two distinct clean keys, one below the prefix dir and one not, collapse to one reported path
const PREFIX_FINDING: &str = "C12-prefix-collapses-distinct-keys";
/// two DIFFERENT files under one reported path: a relative key that resolves to a file OUTSIDE the
/// source dir S (through `guess_abs_path`'s "S ends with an ancestor of the key" heuristic: S = …/T,
/// key `T/../x`; or through a symbolic link followed by `..`) cannot be made relative to S, so
/// `fixup_rel_path` keeps the key's own normal form `x` as the reported path — which is also the
/// reported path of S/x
const ALIAS_FINDING: &str = "C12-outside-source-dir-keeps-own-name";

/// no source dir: the reported path is the LEXICAL normal form of the key (`normalize_path` drops
/// `x/..`), the absolute path is PHYSICAL (`canonicalize`: the parent of a symbolic link's target).
/// With a `..` behind a link the reported path then names another file than the record's own, and
/// two keys denoting different files share one reported path
const DOTDOT_FINDING: &str = "C12-dotdot-behind-link-resolved-lexically";

/// the entry a record's data comes from: every generated entry carries one count-0 line 20+i
fn entry_marks(c: &CovResult) -> BTreeSet<u32> {
    c.lines.keys().filter(|&&l| (20..1000).contains(&l)).cloned().collect()
}

/// `C12.lexName`, restated with std::path: backslashes to '/', `strip_prefix(prefix_dir)` when the
/// key starts with it, lexical normal form; None = the path escapes through ".."
fn lex_name(cfg: &Cfg, key: &str) -> Option<String> {
    let k = key.replace('\\', "/");
    let stripped = match &cfg.pd {
        Some(p) => Path::new(&k).strip_prefix(p).map(|r| r.to_str().unwrap().to_string()).unwrap_or(k.clone()),
        None => k.clone(),
    };
    spec_normalize(&stripped)
}

/// another spelling of the relative path `rel` (of a file below `home`)
fn respell(rng: &mut Rng, _t: &Tree, rel: &str, home: &str, pd: Option<&str>, stats: &mut BTreeMap<String, u64>) -> String {
    let mut count = |k: &str| *stats.entry(format!("spelling.{}", k)).or_insert(0) += 1;
    let seps: Vec<usize> = rel.bytes().enumerate().filter(|(_, b)| *b == b'/').map(|(i, _)| i).collect();
    let mut k = rel.to_string();
    match rng.below(11) {
        0 | 1 => count("plain"),
        2 => {
            count("dot_slash");
            k = format!("./{}", rel);
        }
        3 if !seps.is_empty() => {
            count("double_slash");
            k.insert(*rng.pick(&seps), '/');
        }
        4 if !seps.is_empty() => {
            count("dot_segment");
            k.insert_str(*rng.pick(&seps), "/.");
        }
        5 if !seps.is_empty() => {
            count("backslash");
            let i = *rng.pick(&seps);
            k.replace_range(i..i + 1, "\\");
        }
        6 => {
            count("absolute");
            k = format!("{}/{}", home, rel);
        }
        7 => {
            count("dotdot");
            k = format!("{}/../{}", rng.pick(DIRS), rel);
        }
        8 => {
            count("source_tail");
            k = format!("src/{}", rel);
        }
        9 if pd.is_some() => {
            count("prefixed");
            let p = pd.unwrap();
            k = if p.ends_with('/') || p.is_empty() { format!("{}{}", p, rel) } else { format!("{}/{}", p, rel) };
        }
        _ => count("plain"),
    }
    k
}

struct C12Case {
    cfg: Cfg,
    /// batches handed to add_results one after the other
    batches: Vec<Vec<(String, CovResult)>>,
}

impl C12Case {
    fn flat(&self) -> Vec<(String, CovResult)> {
        self.batches.iter().flatten().cloned().collect()
    }
    fn to_json(&self, t: &Tree) -> Value {
        json!({"op": "addrewrite", "tree": t.to_json(), "cfg": self.cfg.to_json(),
               "batches": self.batches.iter().map(|b| b.iter().map(|(k, c)| json!([k, show_cov(c)])).collect::<Vec<_>>()).collect::<Vec<_>>()})
    }
    fn from_json(v: &Value) -> C12Case {
        C12Case {
            cfg: Cfg::from_json(&v["cfg"]),
            batches: v["batches"]
                .as_array()
                .unwrap()
                .iter()
                .map(|b| {
                    b.as_array()
                        .unwrap()
                        .iter()
                        .map(|e| (e[0].as_str().unwrap().to_string(), parse_cov(e[1].as_str().unwrap())))
                        .collect()
                })
                .collect(),
        }
    }
}

fn gen_case(rng: &mut Rng, t: &Tree, stats: &mut BTreeMap<String, u64>) -> C12Case {
    let mut cfg = gen_cfg(rng, t, false);
    // the guards of C12_unique_partial are met often
    match rng.below(6) {
        0 | 1 => {
            cfg.sd = Some(t.src.clone());
            cfg.pd = if rng.chance(1, 2) { cfg.sd.clone() } else { None };
        }
        2 => {
            cfg.sd = None;
            cfg.pd = None;
        }
        _ => {}
    }
    let src_files = t.files_under("src");
    let n_targets = rng.range(1, 3);
    let mut entries: Vec<(String, CovResult)> = vec![];
    for _ in 0..n_targets {
        let (rel, home) = match rng.below(8) {
            0 => (rng.pick(&t.files_under("other")).clone(), t.other.clone()),
            1 => {
                let (ds, f) = (rng.pick(DIRS), rng.pick(FILES));
                (format!("nx/{}/{}", ds, f), t.src.clone())
            }
            _ => (rng.pick(&src_files).clone(), t.src.clone()),
        };
        // other names of the same file: paths through symbolic links (`inc -> lib`,
        // `compat.c -> lib/util.c`, chains, absolute targets) that canonicalise to it
        let canon = |r: &str| std::fs::canonicalize(Path::new(&home).join(r)).ok();
        let aliases: Vec<String> = if home == t.src && !t.rel_links.is_empty() && canon(&rel).is_some() {
            src_files.iter().filter(|v| **v != rel && canon(v) == canon(&rel)).cloned().collect()
        } else {
            vec![]
        };
        for _ in 0..rng.range(1, 4) {
            let base = if !aliases.is_empty() && rng.chance(1, 2) {
                *stats.entry("spelling.via_link".to_string()).or_insert(0) += 1;
                rng.pick(&aliases).clone()
            } else {
                rel.clone()
            };
            let k = if rng.chance(1, 6) {
                gen_key(rng, t, cfg.pd.as_deref(), &mut BTreeMap::new())
            } else {
                respell(rng, t, &base, &home, cfg.pd.as_deref(), stats)
            };
            let i = entries.len() as u32;
            let mut c = gen_cov(rng, i);
            // no 100000+ marker lines here: covdir writes one array slot per line number
            c.lines.remove(&(MARK + i));
            c.lines.insert(20 + i, 0);
            entries.push((k, c));
        }
    }
    rng.shuffle(&mut entries);
    if rng.chance(1, 12) {
        cfg.mapping = Some(vec![(entries[0].0.replace('\\', "/"), rng.pick(&src_files).clone())]);
    }
    // split into 1-3 batches; the same key string may occur in several batches (add_results merges)
    let nb = rng.range(1, 3) as usize;
    let mut batches: Vec<Vec<(String, CovResult)>> = vec![vec![]; nb];
    for e in entries {
        let b = rng.below(nb as u64) as usize;
        if !batches[b].iter().any(|(k, _)| *k == e.0) {
            batches[b].push(e);
        }
    }
    C12Case { cfg, batches }
}

/// add_results (each batch) then rewrite_paths, on the real code
fn run_impl_c12(case: &C12Case) -> Result<Recs, String> {
    let map: Mutex<grcov::CovResultMap> = Mutex::new(Default::default());
    let sd = case.cfg.sd.clone();
    let batches = case.batches.clone();
    guarded(|| {
        for b in batches {
            grcov::verif_add_results(b, &map, sd.as_deref().map(Path::new));
        }
    })?;
    let m = map.into_inner().unwrap();
    call_rewrite(&case.cfg, m)
}

/// paths reported more than once, and whether the records sharing one denote one file: their
/// absolute paths agree once relative ones are taken from the cwd and canonicalised (through
/// whatever links; "."/".." resolved lexically when the path does not exist)
fn duplicates(recs: &Recs, cwd: &str) -> Vec<(String, bool)> {
    let mut by_rel: BTreeMap<&str, BTreeSet<Option<String>>> = BTreeMap::new();
    let mut n: BTreeMap<&str, usize> = BTreeMap::new();
    for (a, r, _) in recs {
        by_rel.entry(r).or_default().insert(file_id(a, cwd));
        *n.entry(r).or_insert(0) += 1;
    }
    n.iter()
        .filter(|(_, c)| **c > 1)
        .map(|(r, _)| (r.to_string(), by_rel[r].len() == 1))
        .collect()
}

/// the physical file an absolute path of a record denotes
fn file_id(a: &str, cwd: &str) -> Option<String> {
    let full = if a.starts_with('/') { a.to_string() } else { format!("{}/{}", cwd, a) };
    match std::fs::canonicalize(&full) {
        Ok(p) => p.to_str().map(|s| s.to_string()),
        Err(_) => spec_normalize(&full),
    }
}

fn is_normal_key(k: &str) -> bool {
    !k.is_empty() && k != "/" && normal_form(k)
}

/// which guard of C12_unique_partial the case satisfies, decided without grcov
fn guard(case: &C12Case, t: &Tree) -> Option<&'static str> {
    let c = &case.cfg;
    if c.mapping.is_some() {
        return None;
    }
    let flat = case.flat();
    if c.sd.is_none() && c.pd.is_none() && flat.iter().all(|(k, _)| is_normal_key(k)) {
        return Some("normal_keys");
    }
    if c.sd.as_deref() == Some(t.src.as_str()) && (c.pd.is_none() || c.pd == c.sd) {
        let pre = format!("{}/", t.src);
        let all = flat.iter().all(|(k, _)| {
            std::fs::canonicalize(Path::new(&t.src).join(k))
                .map(|p| p.is_file() && p.to_str().unwrap().starts_with(&pre))
                .unwrap_or(false)
        });
        if all {
            return Some("canonical");
        }
    }
    None
}

/// covdir: every directory's totals are the sums over its listed children; returns the root's
/// (linesTotal, sum of linesTotal over the listed files)
/// no two records are filed under the same node by a tree-shaped writer (output_covdir keys a
/// record by its reported path, or by the canonical path when the reported path is absolute)
fn tree_paths_distinct(recs: &Recs) -> bool {
    let mut seen = BTreeSet::new();
    recs.iter().all(|(a, r, _)| seen.insert(if r.starts_with('/') { a.clone() } else { r.clone() }))
}

fn covdir_check(v: &Value, bad: &mut Vec<String>, path: &str) -> (u64, u64) {
    let total = v["linesTotal"].as_u64().unwrap_or(0);
    match v.get("children") {
        None => (total, total),
        Some(ch) => {
            let mut sum = 0;
            let mut listed = 0;
            for (name, c) in ch.as_object().unwrap() {
                let (t, l) = covdir_check(c, bad, &format!("{}/{}", path, name));
                sum += t;
                listed += l;
            }
            if sum != total {
                bad.push(format!("directory {:?}: linesTotal {} but its children add up to {}", path, total, sum));
            }
            (total, listed)
        }
    }
}

fn covdir_of(rep: &Report, recs: &Recs, tag: &str) -> Result<Value, String> {
    let out = rep.workdir.join(format!("covdir_{}.json", tag));
    let results: Vec<(PathBuf, PathBuf, CovResult)> = recs
        .iter()
        .map(|(a, r, c)| (PathBuf::from(a), PathBuf::from(r), c.clone()))
        .collect();
    let o = out.clone();
    guarded(move || grcov::output_covdir(&results, Some(&o), 2))?;
    let text = std::fs::read_to_string(&out).map_err(|e| e.to_string())?;
    serde_json::from_str(&text).map_err(|e| e.to_string())
}

/// covdir can represent the report: no record is a directory or the empty path, and no reported
/// path is also a directory prefix of another one (a name cannot be both a file and a directory)
fn covdir_domain(recs: &Recs) -> bool {
    recs.iter().all(|(a, r, _)| {
        !r.is_empty()
            && r != "/"
            && !Path::new(a).is_dir()
            && !recs.iter().any(|(_, r2, _)| r2.starts_with(&format!("{}/", r)))
    })
}

/// independent aggregation: the line counts a file's single record must carry
fn expected_lines(entries: &[&CovResult]) -> BTreeMap<u32, u64> {
    let mut m: BTreeMap<u32, u128> = BTreeMap::new();
    for c in entries {
        for (l, n) in &c.lines {
            *m.entry(*l).or_insert(0) += *n as u128;
        }
    }
    m.into_iter().map(|(l, n)| (l, n.min(u64::MAX as u128) as u64)).collect()
}

/// all oracles of one case on the implementation's own output
fn oracles(rep: &mut Report, t: &Tree, case: &C12Case, r: &Result<Recs, String>, tag: &str, counting: bool) -> Vec<(String, Option<&'static str>)> {
    let mut fails: Vec<(String, Option<&'static str>)> = vec![];
    let recs = match r {
        Ok(x) => x,
        Err(_) => return fails,
    };
    let dups = duplicates(recs, &t.cw);
    let g = guard(case, t);
    if counting {
        rep.count(&format!("guard.{}", g.unwrap_or("none")));
        rep.count_n("out.duplicate_path", dups.len() as u64);
    }
    // the raw keys, separators unified and "."/".." resolved lexically
    let lexical: Vec<Option<String>> = {
        let mut ks: Vec<String> = case.flat().iter().map(|(k, _)| k.clone()).collect();
        ks.sort();
        ks.dedup();
        ks.iter().map(|k| spec_normalize(&k.replace('\\', "/"))).collect()
    };
    let mut aliases = 0;
    // per file: the key `add_results` files an input under — the canonical path of
    // `source_dir.join(key)` when that exists (whatever the OTHER keys of the batch do)
    let flat = case.flat();
    let canon_of = |k: &str| -> Option<String> {
        case.cfg.sd.as_ref().and_then(|sd| std::fs::canonicalize(Path::new(sd).join(k)).ok()).and_then(|p| p.to_str().map(|s| s.to_string()))
    };
    let marked = !flat.is_empty() && flat.iter().all(|(_, c)| entry_marks(c).len() == 1);
    if marked {
        // every key that canonicalises must share ONE record with every other key of the same file
        let mut by_canon: BTreeMap<String, BTreeSet<u32>> = BTreeMap::new();
        for (k, c) in &flat {
            if let Some(p) = canon_of(k) {
                by_canon.entry(p).or_default().extend(entry_marks(c));
            }
        }
        for (p, marks) in &by_canon {
            let holding = recs.iter().filter(|(_, _, c)| !entry_marks(c).is_disjoint(marks)).count();
            if counting && marks.len() >= 2 {
                rep.count("perfile.canonicalising_keys_of_one_file");
            }
            if holding > 1 {
                fails.push((format!("C12_canonicalising_keys_share_one_entry fails: the inputs whose key canonicalises to {:?} are spread over {} records", p, holding), None));
            }
        }
    }
    let mut dup_names: Vec<Option<&'static str>> = vec![];
    for (rel, same_abs) in &dups {
        let respelled = lexical.iter().filter(|k| k.as_deref() == Some(rel.as_str())).count() >= 2;
        // matcher of C12-prefix-collapses-distinct-keys: no source dir, no mapping, a prefix dir;
        // two raw keys with DIFFERENT lexical normal forms (not respellings of each other) have
        // this path as their name once the prefix is removed
        let prefix_collapse = case.cfg.sd.is_none() && case.cfg.mapping.is_none() && case.cfg.pd.is_some() && !respelled && {
            let mut forms: BTreeSet<Option<String>> = BTreeSet::new();
            for (k, _) in case.flat() {
                if lex_name(&case.cfg, &k).as_deref() == Some(rel.as_str()) {
                    forms.insert(spec_normalize(&k.replace('\\', "/")));
                }
            }
            forms.len() >= 2
        };
        // matcher of C12-respelled-duplicates, per file: the records sharing the path denote ONE
        // file (equal absolute paths) and at most one of them stems from keys that canonicalise
        // under the source dir — the others come from spellings `add_results` cannot canonicalise
        // (backslash, prefixed, mapped, source-dir tail, `zz/../`, trailing '/', a missing file; or
        // there is no source dir at all and nothing is canonicalised)
        let sharing: Vec<&(String, String, CovResult)> = recs.iter().filter(|(_, r, _)| r == rel).collect();
        let name: Option<&'static str>;
        if g.is_some() {
            fails.push((format!("C12_unique_partial fails: {:?} reported more than once although the guard holds", rel), None));
            name = None;
        } else if prefix_collapse {
            fails.push((format!("{:?} is reported more than once (distinct keys that differ by the prefix dir)", rel), Some(PREFIX_FINDING)));
            name = Some(PREFIX_FINDING);
        } else if *same_abs {
            // (that keys with ONE canonical path sit in one record is checked above, per file,
            // and fails unnamed: what is left here are spellings add_results does not unify)
            if counting {
                let canon_marks: BTreeSet<u32> = flat.iter().filter(|(k, _)| canon_of(k).is_some()).flat_map(|(_, c)| entry_marks(c)).collect();
                let from_canonical = sharing.iter().filter(|(_, _, c)| !entry_marks(c).is_disjoint(&canon_marks)).count();
                rep.count(if case.cfg.sd.is_none() { "dup.one_file.no_source_dir" } else if from_canonical == 0 { "dup.one_file.no_key_canonicalises" }
                    else if from_canonical == 1 { "dup.one_file.one_canonical_record_plus_other_spellings" } else { "dup.one_file.keys_canonicalise_to_different_paths(prefix/mapping)" });
            }
            fails.push((format!("{:?} is reported more than once (one file; spellings that add_results does not canonicalise to one key)", rel), Some(FINDING)));
            name = Some(FINDING);
        } else if case.cfg.sd.as_ref().map_or(false, |sd| {
            // matcher of C12-outside-source-dir-keeps-own-name: a source dir; the records denote
            // different files; one of them has a RELATIVE reported path although its file is not
            // below the source dir (fixup_rel_path's fallback: the key's own normal form is kept)
            let csd = std::fs::canonicalize(sd).ok().and_then(|p| p.to_str().map(|s| s.to_string())).unwrap_or(sd.clone());
            sharing.iter().any(|(a, r, _)| !r.starts_with('/') && file_id(a, &t.cw).map_or(true, |f| !f.starts_with(&format!("{}/", csd))))
        }) {
            aliases += 1;
            fails.push((format!("{:?} is reported for two different files (one lies outside the source dir and keeps the key's own name as its relative path)", rel), Some(ALIAS_FINDING)));
            name = Some(ALIAS_FINDING);
        } else if case.cfg.sd.is_none() && sharing.iter().any(|(a, r, c)| {
            // matcher of C12-dotdot-behind-link-resolved-lexically: no source dir; the records denote
            // different files; for one of them the reported path, read from the cwd, is NOT the file
            // its absolute path denotes, and a key behind it has a ".." segment
            file_id(r, &t.cw) != file_id(a, &t.cw)
                && flat.iter().filter(|(_, c2)| !marked || !entry_marks(c2).is_disjoint(&entry_marks(c)))
                    .any(|(k, _)| spec_mapped(&case.cfg, k).split('/').any(|seg| seg == ".."))
        }) {
            fails.push((format!("{:?} is reported for two different files (a \"..\" behind a symbolic link: the reported path is lexical, the absolute path physical)", rel), Some(DOTDOT_FINDING)));
            name = Some(DOTDOT_FINDING);
        } else {
            fails.push((format!("{:?} is reported more than once with different absolute paths", rel), None));
            name = None;
        }
        dup_names.push(name);
    }
    // the finding a consequence of the duplicates (covdir totals) belongs to: unnamed as soon as one
    // duplicate is unnamed
    let dup_finding: Option<&'static str> = if dup_names.iter().any(|n| n.is_none()) { None } else { dup_names.first().cloned().flatten() };
    // the sharp criterion (C12_unique_iff_unfiltered): no source dir, no mapping, filters off —
    // the report has a duplicate path iff two distinct raw keys share a lexical name
    {
        let c = &case.cfg;
        if c.sd.is_none() && c.mapping.is_none() && c.ignore.is_empty() && c.keep.is_empty() && !c.ine && c.filter.is_none() {
            let mut ks: Vec<String> = case.flat().iter().map(|(k, _)| k.clone()).collect();
            ks.sort();
            ks.dedup();
            let names: Vec<String> = ks.iter().filter_map(|k| lex_name(c, k)).collect();
            let distinct: BTreeSet<&String> = names.iter().collect();
            let injective = distinct.len() == names.len();
            if counting {
                rep.count(if injective { "sharp.injective" } else { "sharp.not_injective" });
            }
            if injective != dups.is_empty() {
                fails.push((format!("C12_unique_iff_unfiltered fails: lexical names injective = {}, duplicate paths = {:?}", injective, dups), None));
            }
            if recs.len() != names.len() {
                fails.push((format!("{} keys have a lexical name, {} records reported", names.len(), recs.len()), None));
            }
        }
    }
    if counting && aliases > 0 {
        rep.count_n("out.distinct_files_one_path", aliases);
    }
    // aggregation under the canonical guard: one record per file with the clamped sums
    if g == Some("canonical") {
        let flat = case.flat();
        let mut by_file: BTreeMap<String, Vec<&CovResult>> = BTreeMap::new();
        for (k, c) in &flat {
            let p = std::fs::canonicalize(Path::new(&t.src).join(k)).unwrap();
            by_file.entry(p.to_str().unwrap().to_string()).or_default().push(c);
        }
        if by_file.len() != recs.len() {
            fails.push((format!("{} files named by the inputs, {} records reported", by_file.len(), recs.len()), None));
        }
        for (abs, rel, c) in recs {
            match by_file.get(abs) {
                Some(es) => {
                    if expected_lines(es) != c.lines {
                        fails.push((format!("{:?}: line counts are not the clamped sums of the inputs naming it", rel), None));
                    }
                    if format!("{}/{}", t.src, rel) != *abs {
                        fails.push((format!("{:?} is not relative to the source dir", rel), None));
                    }
                }
                None => fails.push((format!("record {:?} names no input file", abs), None)),
            }
        }
    }
    // totals of the covdir report
    if covdir_domain(recs) {
        match covdir_of(rep, recs, tag) {
            Ok(v) => {
                let mut bad = vec![];
                let (total, listed) = covdir_check(&v, &mut bad, "");
                let want: u64 = recs.iter().map(|(_, _, c)| c.lines.len() as u64).sum();
                if total != want {
                    fails.push((format!("covdir root linesTotal {} is not the sum over records {}", total, want), None));
                }
                // one file under two reported names: the records share the ABSOLUTE path (two keys
                // reach the file through a symbolic link and no source dir lets add_results
                // canonicalise them); covdir files absolute reported paths under the absolute path
                let mut abs_seen: BTreeSet<&String> = BTreeSet::new();
                let abs_dups = recs.iter().filter(|(a, _, _)| !abs_seen.insert(a)).count();
                if counting && abs_dups > 0 {
                    rep.count_n("out.one_file_two_names", abs_dups as u64);
                }
                if dups.is_empty() && listed != total {
                    fails.push(("covdir: no duplicate path, yet the listed files do not add up to the root total".into(),
                        if abs_dups > 0 { Some(FINDING) } else { None }));
                }
                if counting {
                    rep.count_n("out.covdir_total_mismatch", bad.len() as u64);
                }
                for b in bad {
                    fails.push((format!("covdir counts a file more than once: {}", b),
                        if !dups.is_empty() { dup_finding } else if abs_dups > 0 { Some(FINDING) } else { None }));
                }
            }
            Err(p) => fails.push((format!("output_covdir failed: {}", p), None)),
        }
    }
    fails
}

/// greedy shrinking of an oracle failure: drop inputs and options while the first failure keeps
/// its finding name (or stays unnamed)
fn shrink(rep: &mut Report, t: &Tree, case: &C12Case, finding: Option<&'static str>) -> (C12Case, Option<String>) {
    let (c, w) = shrink_inner(rep, t, case, finding);
    let r = run_impl_c12(&c);
    let fails = oracles(rep, t, &c, &r, "shrink", false);
    let what = fails.iter().find(|f| f.1.is_none()).or(fails.first()).map(|f| f.0.clone());
    (c, what.or(w))
}

fn shrink_inner(rep: &mut Report, t: &Tree, case: &C12Case, finding: Option<&'static str>) -> (C12Case, Option<String>) {
    let mut cur = C12Case { cfg: case.cfg.clone(), batches: vec![case.flat()] };
    let still = |rep: &mut Report, c: &C12Case| {
        let r = run_impl_c12(c);
        let fails = oracles(rep, t, c, &r, "shrink", false);
        let first = fails.iter().find(|f| f.1.is_none()).or(fails.first());
        matches!(first, Some(f) if f.1 == finding)
    };
    if !still(rep, &cur) {
        return (C12Case { cfg: case.cfg.clone(), batches: case.batches.clone() }, None);
    }
    let mut progress = true;
    while progress {
        progress = false;
        let mut cands: Vec<C12Case> = vec![];
        for i in 0..cur.batches[0].len() {
            if cur.batches[0].len() > 1 {
                let mut b = cur.batches[0].clone();
                b.remove(i);
                cands.push(C12Case { cfg: cur.cfg.clone(), batches: vec![b] });
            }
        }
        if cur.cfg.mapping.is_some() {
            let mut c = cur.cfg.clone();
            c.mapping = None;
            cands.push(C12Case { cfg: c, batches: cur.batches.clone() });
        }
        if cur.cfg.pd.is_some() {
            let mut c = cur.cfg.clone();
            c.pd = None;
            cands.push(C12Case { cfg: c, batches: cur.batches.clone() });
        }
        for c in cands {
            if still(rep, &c) {
                cur = c;
                progress = true;
                break;
            }
        }
    }
    (cur, None)
}

fn report_case(rep: &mut Report, t: &Tree, case: &C12Case, r: &Result<Recs, String>, model: &str, tag: &str) {
    let out = show_recs(r);
    let fails = oracles(rep, t, case, r, tag, true);
    let may_shrink = tag != "witness";
    let unnamed: Vec<&(String, Option<&'static str>)> = fails.iter().filter(|f| f.1.is_none()).collect();
    let mut cj = case.to_json(t);
    if let Some(f) = unnamed.first() {
        let mut what = f.0.clone();
        if may_shrink && rep.failures.iter().filter(|x| x.finding.is_none()).count() < 8 {
            let (c, w) = shrink(rep, t, case, None);
            cj = c.to_json(t);
            what = w.unwrap_or(what);
        }
        rep.fail("oracle", None, what, cj);
        return;
    }
    if out != model {
        rep.disagreements_checked += 1;
        cj["impl"] = json!(out);
        cj["model"] = json!(model);
        rep.fail("disagreement", None,
            "add_results + rewrite_paths differs from Rewrite.addThenRewrite (theorems C12_* no longer transfer)".into(), cj);
        return;
    }
    if let Some(f) = fails.first() {
        let mut what = f.0.clone();
        if may_shrink && rep.failures.iter().filter(|x| x.finding.as_deref() == f.1).count() < 8 {
            let (c, w) = shrink(rep, t, case, f.1);
            cj = c.to_json(t);
            what = w.unwrap_or(what);
        }
        rep.fail("oracle", f.1, what, cj);
    }
}

fn stream(rep: &mut Report, rng: &mut Rng) {
    let base = rep.workdir.join("fs");
    let n_trees = rep.budget(5, 4);
    let per_tree = rep.budget(400, 5) * 5 / n_trees;
    for ti in 0..n_trees {
        let t = build_tree(rng, &base, ti);
        std::env::set_current_dir(&t.cw).unwrap();
        let mut stats = BTreeMap::new();
        let mut reqs = vec![];
        let mut cases = vec![];
        let mut results = vec![];
        for _ in 0..per_tree {
            let case = gen_case(rng, &t, &mut stats);
            let r = run_impl_c12(&case);
            let req = request("addrewrite", &t, &case.cfg, &case.flat());
            let respelled = {
                let flat = case.flat();
                let mut norm = BTreeSet::new();
                flat.iter().any(|(k, _)| !norm.insert(spec_normalize(&k.replace('\\', "/"))))
            };
            rep.case(&req, respelled);
            rep.count(&format!("cfg.source_dir={}", if case.cfg.sd.is_some() { "some" } else { "none" }));
            rep.count(&format!("cfg.prefix_dir={}", match &case.cfg.pd { None => "none", p if *p == case.cfg.sd => "=source", _ => "other" }));
            if case.cfg.mapping.is_some() { rep.count("cfg.mapping"); }
            reqs.push(req);
            cases.push(case);
            results.push(r);
        }
        for (k, v) in stats {
            rep.count_n(&k, v);
        }
        let model = run_model_named("gm_c12", &reqs, &rep.workdir, &format!("addrewrite{}", ti));
        for i in 0..reqs.len() {
            if i == 0 && ti < 2 {
                rep.sample(json!({"case": cases[i].to_json(&t), "impl": show_recs(&results[i]), "model": model[i]}));
            }
            report_case(rep, &t, &cases[i], &results[i], &model[i], "gen");
        }
        // global totals against the model (`covdir`: dirTotal and listedTotal of the whole report)
        let mut creqs = vec![];
        let mut couts = vec![];
        for i in 0..reqs.len() {
            if let Ok(recs) = &results[i] {
                if i % 4 == 0 && !recs.is_empty() && covdir_domain(recs) {
                    if let Ok(v) = covdir_of(rep, recs, "tie") {
                        let mut bad = vec![];
                        let (total, listed) = covdir_check(&v, &mut bad, "");
                        // which record a tree writer keeps for a duplicated path depends on the
                        // order of the records: the listed total is compared only without duplicates
                        let nodup = duplicates(recs, &t.cw).is_empty() && tree_paths_distinct(recs);
                        creqs.push(request("covdir", &t, &cases[i].cfg, &cases[i].flat()));
                        couts.push((format!("{} {}", total, listed), i, nodup));
                    }
                }
            }
        }
        let cmodel = run_model_named("gm_c12", &creqs, &rep.workdir, &format!("covdir{}", ti));
        for j in 0..creqs.len() {
            rep.case(&creqs[j], true);
            rep.count("covdir.totals_compared");
            let same = if couts[j].2 {
                couts[j].0 == cmodel[j]
            } else {
                couts[j].0.split(' ').next() == cmodel[j].split(' ').next()
            };
            if !same {
                rep.disagreements_checked += 1;
                let mut cj = cases[couts[j].1].to_json(&t);
                cj["impl_totals"] = json!(couts[j].0);
                cj["model_totals"] = json!(cmodel[j]);
                rep.fail("disagreement", None, "covdir root total / listed total differ from Rewrite.dirTotal / listedTotal".into(), cj);
            }
        }
    }
    std::env::set_current_dir("/verif").unwrap();
}

/// DESIGN §7 item 14 / Props.C12.C12_duplicate_witness on the real code
fn witness(rep: &mut Report) {
    let base = rep.workdir.join("fs");
    let t = materialise(&base, 901, &["src".into(), "other".into(), "cw".into()], &[]);
    std::env::set_current_dir(&t.cw).unwrap();
    let keys = ["foo/bar.c", "foo/./bar.c", "foo//bar.c", "foo\\bar.c", "x/../foo/bar.c"];
    let batch: Vec<(String, CovResult)> = keys
        .iter()
        .enumerate()
        .map(|(i, k)| {
            let mut c = CovResult::default();
            c.lines.insert(1, i as u64 + 1);
            (k.to_string(), c)
        })
        .collect();
    let case = C12Case {
        cfg: Cfg { sd: None, pd: None, mapping: None, ignore: vec![], keep: vec![], ine: false, filter: None },
        batches: vec![batch],
    };
    let r = run_impl_c12(&case);
    let req = request("addrewrite", &t, &case.cfg, &case.flat());
    let model = run_model_named("gm_c12", &[req.clone()], &rep.workdir, "witness");
    rep.case(&req, true);
    rep.count("witness.five_spellings");
    // the Lean theorem's right-hand side, literally
    let want = format!(
        "ok {}",
        (1..=5)
            .map(|i| format!("A{}:R{}=L1:{};B;F", hex(b"foo/bar.c"), hex(b"foo/bar.c"), i))
            .collect::<Vec<_>>()
            .join(" ")
    );
    if model[0] != want {
        rep.fail("disagreement", None, "the driver does not reproduce C12_duplicate_witness".into(), case.to_json(&t));
    }
    rep.sample(json!({"witness": keys, "impl": show_recs(&r), "model": model[0]}));
    report_case(rep, &t, &case, &r, &model[0], "witness");
    std::env::set_current_dir("/verif").unwrap();
}

/// Props.C12.C12_prefix_collapse_witness on the real code: --prefix-dir p, keys p/a.c and a.c
fn witness_prefix(rep: &mut Report) {
    let base = rep.workdir.join("fs");
    let t = materialise(&base, 902, &["src".into(), "other".into(), "cw".into()], &[]);
    std::env::set_current_dir(&t.cw).unwrap();
    let batch: Vec<(String, CovResult)> = ["p/a.c", "a.c"]
        .iter()
        .enumerate()
        .map(|(i, k)| {
            let mut c = CovResult::default();
            c.lines.insert(1, i as u64 + 1);
            (k.to_string(), c)
        })
        .collect();
    let case = C12Case {
        cfg: Cfg { sd: None, pd: Some("p".into()), mapping: None, ignore: vec![], keep: vec![], ine: false, filter: None },
        batches: vec![batch],
    };
    let r = run_impl_c12(&case);
    let req = request("addrewrite", &t, &case.cfg, &case.flat());
    let model = run_model_named("gm_c12", &[req.clone()], &rep.workdir, "witnessp");
    rep.case(&req, true);
    rep.count("witness.prefix_collapse");
    let want = format!("ok {}", (1..=2).map(|i| format!("A{}:R{}=L1:{};B;F", hex(b"a.c"), hex(b"a.c"), i)).collect::<Vec<_>>().join(" "));
    if model[0] != want {
        rep.fail("disagreement", None, "the driver does not reproduce C12_prefix_collapse_witness".into(), case.to_json(&t));
    }
    if show_recs(&r) == want {
        rep.count("witness.prefix_collapse.reproduced_on_real_code");
    }
    report_case(rep, &t, &case, &r, &model[0], "witnessp");
    std::env::set_current_dir("/verif").unwrap();
}

/// Props.C12.C12_symlink_one_record / C12_symlink_no_source_dir_witness on the real code:
/// `lib/util.c`, `include -> lib`, `compat.c -> lib/util.c`, the three names of the one file
fn witness_links(rep: &mut Report) {
    let base = rep.workdir.join("fs");
    let s = |x: &[&str]| -> Vec<String> { x.iter().map(|y| y.to_string()).collect() };
    let mut t = materialise(&base, 904, &s(&["src", "other", "cw", "src/lib"]), &s(&["src/lib/util.c"]));
    add_links(&mut t, &[("src/include".into(), "lib".into()), ("src/compat.c".into(), "lib/util.c".into())]);
    t.cw = t.src.clone(); // the Lean witness runs from the source dir
    std::env::set_current_dir(&t.cw).unwrap();
    let batch: Vec<(String, CovResult)> = ["lib/util.c", "include/util.c", "compat.c"]
        .iter()
        .enumerate()
        .map(|(i, k)| {
            let mut c = CovResult::default();
            c.lines.insert(1, i as u64 + 1);
            (k.to_string(), c)
        })
        .collect();
    let abs = format!("{}/lib/util.c", t.src);
    for (name, sd, want) in [
        ("one_record", Some(t.src.clone()), format!("ok A{}:R{}=L1:6;B;F", hex(abs.as_bytes()), hex(b"lib/util.c"))),
        ("no_source_dir_three_records", None, {
            let mut v: Vec<String> = [("lib/util.c", 1), ("include/util.c", 2), ("compat.c", 3)]
                .iter()
                .map(|(r, n)| format!("A{}:R{}=L1:{};B;F", hex(abs.as_bytes()), hex(r.as_bytes()), n))
                .collect();
            v.sort();
            format!("ok {}", v.join(" "))
        }),
    ] {
        let case = C12Case {
            cfg: Cfg { sd, pd: None, mapping: None, ignore: vec![], keep: vec![], ine: false, filter: None },
            batches: vec![batch.clone()],
        };
        let r = run_impl_c12(&case);
        let req = request("addrewrite", &t, &case.cfg, &case.flat());
        let model = run_model_named("gm_c12", &[req.clone()], &rep.workdir, "witnessl");
        rep.case(&req, true);
        rep.count(&format!("witness.symlink.{}", name));
        if model[0] != want {
            rep.fail("disagreement", None, format!("the driver does not reproduce the Lean witness {}: {}", name, model[0]), case.to_json(&t));
        }
        if show_recs(&r) == want {
            rep.count(&format!("witness.symlink.{}.reproduced_on_real_code", name));
        } else {
            rep.fail("disagreement", None, format!("symlink witness {} no longer behaves as proved: {}", name, show_recs(&r)), case.to_json(&t));
        }
        report_case(rep, &t, &case, &r, &model[0], "witnessl");
    }
    std::env::set_current_dir("/verif").unwrap();
}

/// Props.C12.C12_existing_backslash_witness / _prefix_witness / _mapping_witness (second review, item
/// 6: an EXISTING file below --source-dir is still listed twice) and C12_outside_source_dir_witness
/// (two different files, one reported path) on the real code
fn witness_review6(rep: &mut Report) {
    let base = rep.workdir.join("fs");
    let s = |x: &[&str]| -> Vec<String> { x.iter().map(|y| y.to_string()).collect() };
    let mut t = materialise(&base, 905, &s(&["src", "other", "cw", "src/src"]), &s(&["src/src/a.c"]));
    t.cw = t.src.clone();
    // `x.c` directly below the tree root, i.e. NEXT TO the source dir `<root>/src` (which has no
    // sub-directory `src`: `<root>/src/src/../x.c` does not resolve)
    let mut t2 = materialise(&base, 906, &s(&["src", "other", "cw"]), &s(&["src/x.c", "x.c"]));
    t2.cw = t2.src.clone();
    let two = |k1: &str, k2: &str| -> Vec<(String, CovResult)> {
        [k1, k2].iter().enumerate().map(|(i, k)| {
            let mut c = CovResult::default();
            c.lines.insert(1, i as u64 + 1);
            (k.to_string(), c)
        }).collect()
    };
    let plain = Cfg { sd: Some(t.src.clone()), pd: None, mapping: None, ignore: vec![], keep: vec![], ine: false, filter: None };
    let plain2 = Cfg { sd: Some(t2.src.clone()), ..plain.clone() };
    let abs = format!("{}/src/a.c", t.src);
    let twice = |a1: &str, a2: &str, rel: &str| -> String {
        let mut v = vec![format!("A{}:R{}=L1:1;B;F", hex(a1.as_bytes()), hex(rel.as_bytes())), format!("A{}:R{}=L1:2;B;F", hex(a2.as_bytes()), hex(rel.as_bytes()))];
        v.sort();
        format!("ok {}", v.join(" "))
    };
    let cases: Vec<(&str, Cfg, Vec<(String, CovResult)>, String)> = vec![
        ("existing_backslash", plain.clone(), two("src\\a.c", "src/a.c"), twice(&abs, &abs, "src/a.c")),
        ("existing_prefix", Cfg { pd: Some("/builds/w".into()), ..plain.clone() }, two("/builds/w/src/a.c", "src/a.c"), twice(&abs, &abs, "src/a.c")),
        ("existing_mapping", Cfg { mapping: Some(vec![("obj/a.c".into(), "src/a.c".into())]), ..plain.clone() }, two("obj/a.c", "src/a.c"), twice(&abs, &abs, "src/a.c")),
        ("outside_source_dir", plain2, two("src/../x.c", "x.c"), twice(&format!("{}/x.c", t2.root), &format!("{}/x.c", t2.src), "x.c")),
    ];
    for (name, cfg, batch, want) in cases {
        let t = if name == "outside_source_dir" { t2.clone() } else { t.clone() };
        std::env::set_current_dir(&t.cw).unwrap();
        let case = C12Case { cfg, batches: vec![batch] };
        let r = run_impl_c12(&case);
        let req = request("addrewrite", &t, &case.cfg, &case.flat());
        let model = run_model_named("gm_c12", &[req.clone()], &rep.workdir, "witness6");
        rep.case(&req, true);
        rep.count(&format!("witness.{}", name));
        if model[0] != want {
            rep.fail("disagreement", None, format!("the driver does not reproduce the Lean witness {}: {}", name, model[0]), case.to_json(&t));
        }
        if show_recs(&r) == want {
            rep.count(&format!("witness.{}.reproduced_on_real_code", name));
        }
        report_case(rep, &t, &case, &r, &model[0], "witness6");
    }
    std::env::set_current_dir("/verif").unwrap();
}

/// Props.C12.C12_dotdot_behind_link_witness on the real code: cwd/bar.c, src/bar.c, cwd/lnk -> src/d
fn witness_dotdot(rep: &mut Report) {
    let base = rep.workdir.join("fs");
    let s = |x: &[&str]| -> Vec<String> { x.iter().map(|y| y.to_string()).collect() };
    let mut t = materialise(&base, 907, &s(&["src", "other", "cw", "src/d"]), &s(&["cw/bar.c", "src/bar.c"]));
    add_links(&mut t, &[("cw/lnk".into(), "{root}/src/d".into())]);
    std::env::set_current_dir(&t.cw).unwrap();
    let batch: Vec<(String, CovResult)> = ["bar.c", "lnk/../bar.c"].iter().enumerate().map(|(i, k)| {
        let mut c = CovResult::default();
        c.lines.insert(1, i as u64 + 1);
        (k.to_string(), c)
    }).collect();
    let case = C12Case { cfg: Cfg { sd: None, pd: None, mapping: None, ignore: vec![], keep: vec![], ine: false, filter: None }, batches: vec![batch] };
    let r = run_impl_c12(&case);
    let req = request("addrewrite", &t, &case.cfg, &case.flat());
    let model = run_model_named("gm_c12", &[req.clone()], &rep.workdir, "witnessdd");
    rep.case(&req, true);
    rep.count("witness.dotdot_behind_link");
    let mut v = vec![format!("A{}:R{}=L1:1;B;F", hex(format!("{}/bar.c", t.cw).as_bytes()), hex(b"bar.c")),
                     format!("A{}:R{}=L1:2;B;F", hex(format!("{}/bar.c", t.src).as_bytes()), hex(b"bar.c"))];
    v.sort();
    let want = format!("ok {}", v.join(" "));
    if model[0] != want {
        rep.fail("disagreement", None, format!("the driver does not reproduce C12_dotdot_behind_link_witness: {}", model[0]), case.to_json(&t));
    }
    if show_recs(&r) == want {
        rep.count("witness.dotdot_behind_link.reproduced_on_real_code");
    }
    report_case(rep, &t, &case, &r, &model[0], "witnessdd");
    std::env::set_current_dir("/verif").unwrap();
}

/// The same property through the command line (main()'s wiring of --source-dir, --prefix-dir and
/// --path-mapping around add_results and rewrite_paths): every input names files that exist under
/// the source directory (the `canonical` guard of C12_unique_partial), in several spellings.
fn cli_stream(rep: &mut Report, rng: &mut Rng) {
    use corrlib::pipe::{decode_lcov_report, run_grcov, RunCfg};
    let n = rep.budget(12, 10);
    for c in 0..n {
        let root = rep.workdir.join(format!("cli{}", c));
        let _ = std::fs::remove_dir_all(&root);
        let src = root.join("proj");
        let files = ["lib/util.c", "main.c", "lib/deep/x.c"];
        for f in files {
            std::fs::create_dir_all(src.join(f).parent().unwrap()).unwrap();
            std::fs::write(src.join(f), "int a;\nint b;\nint c;\nint d;\n").unwrap();
        }
        let src_abs = std::fs::canonicalize(&src).unwrap();
        let k = rng.range(2, 4) as usize;
        let mut want: BTreeMap<String, BTreeMap<u32, u64>> = BTreeMap::new();
        let mut args = vec![];
        let mut spellings = vec![];
        for i in 0..k {
            let mut text = String::from("TN:\n");
            for f in files {
                if rng.chance(1, 3) {
                    continue;
                }
                let sp = match rng.below(6) {
                    0 => f.to_string(),
                    1 => format!("./{}", f),
                    2 => f.replacen('/', "//", 1),
                    3 => format!("{}/{}", src_abs.display(), f),
                    4 => format!("lib/../{}", f),
                    _ => f.replacen('/', "/./", 1),
                };
                text.push_str(&format!("SF:{}\n", sp));
                for l in 1..=3u32 {
                    if rng.chance(2, 3) {
                        let h = rng.below(5);
                        text.push_str(&format!("DA:{},{}\n", l, h));
                        *want.entry(f.to_string()).or_default().entry(l).or_insert(0) += h;
                    }
                }
                want.entry(f.to_string()).or_default();
                text.push_str("end_of_record\n");
                spellings.push(sp);
            }
            std::fs::write(root.join(format!("in{}.info", i)), text).unwrap();
            args.push(format!("in{}.info", i));
        }
        let mut extra: Vec<String> = vec!["-t".into(), "lcov".into(), "--no-demangle".into(), "-s".into(), "proj".into()];
        let opt = rng.below(4);
        match opt {
            0 => {}
            1 => {
                std::fs::write(root.join("map.json"), "{}").unwrap();
                extra.extend(["--path-mapping".to_string(), "map.json".to_string()]);
            }
            2 => {
                std::fs::write(root.join("map.json"), "{\"not/in/any/input.c\": \"main.c\"}").unwrap();
                extra.extend(["--path-mapping".to_string(), "map.json".to_string()]);
            }
            _ => extra.extend(["-p".to_string(), src_abs.display().to_string()]),
        }
        let threads = *rng.pick(&[1usize, 2, 4]);
        let out = run_grcov(&RunCfg { dir: &root, args: args.clone(), threads, perturb: None, fault: None, limit: std::time::Duration::from_secs(60), extra: extra.clone() });
        rep.case(&format!("cli {:?} {:?} {}", spellings, extra, threads), spellings.len() > want.len());
        rep.count(&format!("cli.option={}", ["none", "path-mapping {}", "path-mapping unrelated", "prefix-dir"][opt as usize]));
        let case = json!({"op": "cli", "spellings": spellings, "extra": extra, "threads": threads});
        if out.exit != Some(0) {
            rep.fail("oracle", None, format!("grcov exited with {:?}: {}", out.exit, out.stderr.lines().last().unwrap_or("")), case);
            continue;
        }
        // SF records as written (the decoder would already merge repeated names)
        let sfs: Vec<&str> = out.stdout.lines().filter_map(|l| l.strip_prefix("SF:")).collect();
        let mut dup = false;
        for (i, a) in sfs.iter().enumerate() {
            dup |= sfs[..i].contains(a);
        }
        let got: BTreeMap<String, BTreeMap<u32, u64>> = match decode_lcov_report(&out.stdout) {
            Ok(m) => m.into_iter().map(|(k, v)| (k, v.lines)).collect(),
            Err(e) => {
                rep.fail("oracle", None, format!("report is not valid lcov: {}", e), case);
                continue;
            }
        };
        if dup || got != want {
            rep.fail(
                "oracle",
                None,
                format!("CLI: files existing under --source-dir and named by several spellings are not reported once each with summed counts (a file listed twice: {})", dup),
                json!({"case": case, "SF": sfs, "report": format!("{:?}", got), "expected": format!("{:?}", want)}),
            );
        }
        let _ = std::fs::remove_dir_all(&root);
    }
}

pub fn run(rep: &mut Report) {
    rep.rule = "trees as in C11; 1-3 target files (mostly under the source dir, some outside or missing), each \
        named by 1-4 spellings (plain, ./, //, /./, backslash, absolute, name/../, source-dir tail, prefixed, or a \
        free C11 key), shuffled into 1-3 add_results batches; configurations over source dir / prefix dir / mapping \
        with the two guards of C12_unique_partial met in about half of the cases; the report is also written with \
        output_covdir; non-trivial = two inputs have the same lexical normal form (same file, different spelling)"
        .to_string();
    // corrlib's Rng::new is linear in the seed (seed+2 is the same stream two draws later): hash it first
    let mut rng = Rng::new(fnv64(&(rep.seed ^ 0xC12).to_le_bytes()));
    witness(rep);
    witness_prefix(rep);
    witness_links(rep);
    witness_review6(rep);
    witness_dotdot(rep);
    corpus(rep);
    java::run(rep);
    stream(rep, &mut rng);
    std::env::set_current_dir("/verif").unwrap();
    cli_stream(rep, &mut rng);
    rep.notes.push("matchers (second review, item 6): per file — all inputs whose key canonicalises (canonicalize(source_dir.join(key))) to ONE path must sit in ONE record, whatever the other keys, the mapping or the prefix: an unnamed failure otherwise; a path listed twice for ONE file (canonical absolute paths equal) is C12-respelled-duplicates (spellings add_results does not unify: counted as dup.one_file.*); a path listed for two DIFFERENT files fails unless it is C12-outside-source-dir-keeps-own-name (a relative reported path whose file is not below the source dir)".into());
    rep.notes.push("the main stream is in-process (add_results, rewrite_paths, output_covdir); a second, small stream drives the CLI with files existing under --source-dir and --path-mapping / --prefix-dir options. every second tree has symbolic links (directory and file links, chains, relative and absolute targets, into and out of the source dir, dangling, loops) and files are also named through them; Java/Kotlin keys and markers are outside the generated domain; keys that denote a directory are not written with output_covdir (it panics on an empty path: not this property)".into());
}

/// corpus/C12/*.json: minimised past disagreements, replayed first on every run
fn corpus(rep: &mut Report) {
    let mut files: Vec<std::path::PathBuf> = std::fs::read_dir("/verif/corpus/C12")
        .map(|d| d.filter_map(|e| e.ok().map(|e| e.path())).collect())
        .unwrap_or_default();
    files.sort();
    for f in files {
        if let Ok(text) = std::fs::read_to_string(&f) {
            if let Ok(v) = serde_json::from_str::<Value>(&text) {
                rep.count("corpus.case");
                replay(rep, &v["case"]);
            }
        }
    }
}

pub fn replay(rep: &mut Report, case: &Value) {
    if case["op"].as_str().map_or(false, |o| o.starts_with("c12.")) {
        return java::replay(rep, case);
    }
    if case["op"].as_str() == Some("addrewrite") {
        let base = rep.workdir.join("fs");
        let t = tree_from_json(&base, &case["tree"]);
        std::env::set_current_dir(&t.cw).unwrap();
        let c = C12Case::from_json(case);
        let r = run_impl_c12(&c);
        let req = request("addrewrite", &t, &c.cfg, &c.flat());
        let model = run_model_named("gm_c12", &[req.clone()], &rep.workdir, "replay");
        rep.case(&req, true);
        report_case(rep, &t, &c, &r, &model[0], "replay");
        // the covdir totals of the report against the model (same comparison as in `stream`)
        if let Ok(recs) = &r {
            if !recs.is_empty() && covdir_domain(recs) {
                if let Ok(v) = covdir_of(rep, recs, "replay") {
                    let mut bad = vec![];
                    let (total, listed) = covdir_check(&v, &mut bad, "");
                    let nodup = duplicates(recs, &t.cw).is_empty() && tree_paths_distinct(recs);
                    let creq = request("covdir", &t, &c.cfg, &c.flat());
                    let cm = run_model_named("gm_c12", &[creq.clone()], &rep.workdir, "replaycov");
                    let got = format!("{} {}", total, listed);
                    let same = if nodup { got == cm[0] } else { got.split(' ').next() == cm[0].split(' ').next() };
                    rep.case(&creq, true);
                    if !same {
                        rep.disagreements_checked += 1;
                        let mut cj = c.to_json(&t);
                        cj["impl_totals"] = json!(got);
                        cj["model_totals"] = json!(cm[0]);
                        cj["impl_records"] = json!(show_recs(&r));
                        cj["covdir"] = v.clone();
                        rep.fail("disagreement", None, "covdir root total / listed total differ from Rewrite.dirTotal / listedTotal".into(), cj);
                    }
                }
            }
        }
        std::env::set_current_dir("/verif").unwrap();
    }
}

fn main() {
    corrlib::run_main("C12", run, replay);
}
