//! C20 part `LlvmRun` — the LLVM half end to end with stand-in tools whose OUTPUT DEPENDS ON
//! THEIR INPUT: the stub llvm-profdata reads its list the way the real tool does (lines
//! `<weight>,<file>`, a missing file is an error), and writes a merged profile that names the ids
//! of the profiles it merged; the stub llvm-cov derives its lcov from the binary AND from the
//! content of the `--instr-profile` file it is pointed at. So a run in which an export reads
//! another work item's merged profile, or a profile that has vanished, produces a different
//! report and a different log.
//!
//! One case = 1-6 profiles of BOTH kinds (`.profraw` and `.profdata` = up to two LLVM work items)
//! over a directory, a zip and plain arguments — directory and file names with commas, a leading
//! '#', leading / inner blanks, non-ASCII, digit names `0/`, `1/` (a worker's directory name) and
//! `inputs/` — 1-5 ELF-headed binaries (a quarter fail to export) plus decoys, `--threads`
//! 1, 2 or 4.
//!
//! Oracles (independent of the model): one merge invocation per kind present, fed exactly the ids
//! of that kind, each once; every binary exported exactly once per merged profile AND against
//! that profile's content; report = aggregate of the exports so defined.
//! Model ties: `c20.llvm.list` (llvm-profdata's reading of the recorded stdin = the paths, each
//! weight 1), `c20.llvm.stdin` (the recorded stdin byte for byte from the paths),
//! `c20.llvm.run` (merge log, export log, report), `c20.wd.layout` (`tmp/<i>` and
//! `tmp/inputs/…` from the `-o` argument and the listed paths).
//!
//! A profile below a directory whose name contains a line feed cannot be named in llvm-profdata's
//! list (a name that is not UTF-8 cannot either — `to_string_lossy` —, but such a directory entry
//! panics the producer, `producer.rs:33 clean_path`, before any tool runs: C17's ground): the merge of its work item fails, that item's coverage is lost with exit
//! status 0 — named finding C20-profile-path-with-newline (matcher: the case has such a
//! path, exactly the item that contains it contributes nothing, everything else is as required).
use corrlib::pipe::*;
use corrlib::*;
use serde_json::json;
use std::ffi::OsString;
use std::io::Write;
use std::os::unix::ffi::{OsStrExt, OsStringExt};
use std::path::Path;
use std::time::Duration;

pub const FINDING_UNLISTABLE: &str = "C20-profile-path-with-newline";

pub const PROFDATA_STUB3: &str = r#"#!/bin/sh
# stand-in for llvm-profdata merge -f - -sparse -o <out>
log="$STUB_LOG"; out=""; prev=""
for a in "$@"; do if [ "$prev" = "-o" ]; then out="$a"; fi; prev="$a"; done
t="$log.$$"
cat > "$t.in"
rc=0; ids=""
{
  printf 'PROFDATA'
  for a in "$@"; do if [ "$a" = "$out" ]; then printf ' <out>'; else printf ' %s' "$a"; fi; done
  printf '\n'
  printf 'OUT %s\n' "$out"
  printf 'STDIN %s\n' "$(od -An -v -tx1 "$t.in" | tr -d ' \n')"
  while IFS= read -r line; do
    case "$line" in
      1,*) f="${line#1,}"
           if [ -f "$f" ]; then id="$(cat "$f")"; ids="$ids $id"; printf 'PROFILE %s\n' "$id"; else printf 'PROFILE missing\n'; rc=1; fi;;
      *) printf 'PROFILE badline\n'; rc=1;;
    esac
  done < "$t.in"
  printf 'END %s\n' "$rc"
} > "$t"
cat "$t" >> "$log"; rm -f "$t" "$t.in"
if [ "$rc" != 0 ]; then echo "error: No such file or directory" >&2; exit 1; fi
printf 'merged%s\n' "$ids" > "$out"
if [ -n "$STUB_DELAY" ]; then sleep "$STUB_DELAY"; fi
exit 0
"#;

pub const COV_STUB3: &str = r#"#!/bin/sh
# stand-in for llvm-cov export <binary> --instr-profile <p> --format lcov
log="$STUB_LOG"; bin="$2"; pf="$4"
if [ -f "$pf" ]; then content="$(cat "$pf")"; else content="MISSING"; fi
printf 'COV %s %s %s %s %s | %s\n' "$1" "$(basename "$bin")" "$3" "$5" "$6" "$content" >> "$log"
if [ "$content" = "MISSING" ]; then echo "error: $pf: No such file or directory" >&2; exit 1; fi
if [ -f "$bin.fail" ]; then echo "stub: cannot export $bin" >&2; exit 1; fi
cat "$bin.lcov"
set -- $content; shift
for id in "$@"; do printf 'SF:prof/%s.rs\nDA:1,1\nend_of_record\n' "$id"; done
exit 0
"#;

#[derive(Clone, Debug)]
struct Prof {
    id: String,
    raw: bool,      // .profraw (true) or .profdata
    place: char,    // D directory, Z zip, P plain argument
    rel: Vec<u8>,   // path below the directory / inside the zip / the plain file name
    unlistable: bool,
}

fn dir_comp(rng: &mut Rng, i: usize, allow_bad: bool) -> (Vec<u8>, bool) {
    match rng.below(if allow_bad { 18 } else { 16 }) {
        0 => (format!("svc{}", i).into_bytes(), false),
        1 => (b"sub".to_vec(), false),
        2 => (b"0".to_vec(), false),
        3 => (b"1".to_vec(), false),
        4 => (b"7".to_vec(), false),
        5 => (b"a,b".to_vec(), false),
        6 => (b"#c".to_vec(), false),
        7 => (b" lead".to_vec(), false),
        8 => (b"in ner".to_vec(), false),
        9 => ("é".as_bytes().to_vec(), false),
        10 => (b"inputs".to_vec(), false),
        11 => (b"x#y,z".to_vec(), false),
        12 => (b"1,x".to_vec(), false),
        16 | 17 => (b"nl\nx".to_vec(), true),
        _ => (format!("d{}", i).into_bytes(), false),
    }
}

fn file_name(rng: &mut Rng, i: usize, raw: bool) -> Vec<u8> {
    let ext = if raw { "profraw" } else { "profdata" };
    match rng.below(8) {
        0 | 1 => format!("default.{}", ext),
        2 => format!("a,b{}.{}", i, ext),
        3 => format!("#h{}.{}", i, ext),
        4 => format!(" s{}.{}", i, ext),
        5 => format!("t {}.{}", i, ext),
        _ => format!("p{}.{}", i, ext),
    }
    .into_bytes()
}

fn os(b: &[u8]) -> OsString {
    OsString::from_vec(b.to_vec())
}

struct Bin {
    name: String,
    fails: bool,
    lcov: Vec<u8>,
}

fn export_bytes(b: &Bin, ids: &[String]) -> Vec<u8> {
    let mut v = b.lcov.clone();
    for id in ids {
        v.extend_from_slice(format!("SF:prof/{}.rs\nDA:1,1\nend_of_record\n", id).as_bytes());
    }
    v
}

fn sorted<T: Ord>(mut v: Vec<T>) -> Vec<T> {
    v.sort();
    v
}

pub fn run(rep: &mut Report, rng: &mut Rng) {
    let n = rep.budget(70, 6);
    let stubs = rep.workdir.join("stubs3");
    std::fs::create_dir_all(&stubs).unwrap();
    super::write_exec(&stubs.join("llvm-profdata"), PROFDATA_STUB3);
    super::write_exec(&stubs.join("llvm-cov"), COV_STUB3);
    let mut reqs: Vec<String> = vec![];
    let mut expect: Vec<(String, serde_json::Value, &'static str)> = vec![];
    for c in 0..n {
        if rep.verdict_clear() {
            break;
        }
        let dir = rep.workdir.join(format!("lr{}", c));
        let _ = std::fs::remove_dir_all(&dir);
        std::fs::create_dir_all(dir.join("cwd")).unwrap();
        std::fs::create_dir_all(dir.join("profdir")).unwrap();
        // ---- profiles
        let k = rng.range(1, 6) as usize;
        let allow_bad = c % 23 == 7; // the unlistable names are rare: one or two cases per quick run
        let mut profs: Vec<Prof> = vec![];
        for i in 0..k {
            let raw = rng.chance(1, 2);
            let place = *rng.pick(&['D', 'D', 'Z', 'P']);
            let (rel, bad) = match place {
                'P' => {
                    // plain arguments: unique names (the same argument twice is the same file twice)
                    let mut f = format!("q{}", i).into_bytes();
                    f.extend_from_slice(&file_name(rng, i, raw));
                    (f, false)
                }
                _ => {
                    let mut p: Vec<u8> = vec![];
                    let mut bad = false;
                    for d in 0..rng.below(3) {
                        let (comp, b) = dir_comp(rng, i * 3 + d as usize, allow_bad && place == 'D');
                        bad |= b;
                        p.extend_from_slice(&comp);
                        p.push(b'/');
                    }
                    // unique per profile: two profiles must not share a path
                    p.extend_from_slice(format!("u{}", i).as_bytes());
                    p.push(b'/');
                    p.extend_from_slice(&file_name(rng, i, raw));
                    (p, bad)
                }
            };
            profs.push(Prof { id: format!("profile-{}-{}", c, i), raw, place, rel, unlistable: bad });
        }
        let mut args: Vec<String> = vec![];
        let mut zip_entries: Vec<(String, String)> = vec![];
        for p in &profs {
            match p.place {
                'D' => {
                    let full = dir.join("profdir").join(os(&p.rel));
                    std::fs::create_dir_all(full.parent().unwrap()).unwrap();
                    std::fs::write(&full, &p.id).unwrap();
                }
                'Z' => zip_entries.push((String::from_utf8(p.rel.clone()).unwrap(), p.id.clone())),
                _ => {
                    std::fs::write(dir.join(os(&p.rel)), &p.id).unwrap();
                    args.push(format!("../{}", String::from_utf8(p.rel.clone()).unwrap()));
                }
            }
        }
        if profs.iter().any(|p| p.place == 'D') {
            args.push("../profdir".into());
        }
        if !zip_entries.is_empty() {
            let f = std::fs::File::create(dir.join("profiles.zip")).unwrap();
            let mut z = zip::ZipWriter::new(f);
            let o = zip::write::SimpleFileOptions::default().compression_method(zip::CompressionMethod::Stored);
            for (name, id) in &zip_entries {
                z.start_file(name.as_str(), o).unwrap();
                z.write_all(id.as_bytes()).unwrap();
            }
            z.finish().unwrap();
            args.push("../profiles.zip".into());
        }
        rng.shuffle(&mut args);
        // ---- binaries
        let nb = rng.range(1, 5) as usize;
        let mut bins: Vec<Bin> = vec![];
        std::fs::create_dir_all(dir.join("bins/nested/deeper")).unwrap();
        let cfg = corrlib::lcov::GenCfg { allow_zero_taken: true, allow_first_branch_nonzero: true, allow_overflow_sum: true, allow_non_ascii: false };
        for b in 0..nb {
            let name = format!("bin{}", b);
            let sub = *rng.pick(&["", "nested/", "nested/deeper/"]);
            let path = dir.join("bins").join(format!("{}{}", sub, name));
            let mut elf = vec![0x7f, b'E', b'L', b'F', 2, 1, 1, 0];
            elf.extend_from_slice(&[0u8; 200]);
            std::fs::write(&path, &elf).unwrap();
            let fails = rng.chance(1, 4);
            let mut secs = vec![corrlib::lcov::gen_section(rng, &cfg)];
            secs[0].sf = rng.pick(&["src/a.rs", "src/b.rs", "lib/c.rs"]).to_string();
            secs[0].pre.clear();
            for r in secs[0].recs.iter_mut() {
                if let corrlib::lcov::Rec::Fn(st, n) = r {
                    *st = 10 + (fnv64(n.as_bytes()) % 50) as u32;
                }
            }
            let lcov = corrlib::lcov::render(&secs, false);
            std::fs::write(format!("{}.lcov", path.display()), &lcov).unwrap();
            if fails {
                std::fs::write(format!("{}.fail", path.display()), "x").unwrap();
            }
            bins.push(Bin { name, fails, lcov });
        }
        std::fs::write(dir.join("bins/readme.txt"), "hello").unwrap();
        std::fs::write(dir.join("bins/nested/empty"), "").unwrap();
        std::fs::write(dir.join("bins/nested/script.sh"), "#!/bin/sh\necho\n").unwrap();
        let kinds: Vec<bool> = [false, true].iter().copied().filter(|r| profs.iter().any(|p| p.raw == *r)).collect();
        let threads = if kinds.len() == 2 { *rng.pick(&[1usize, 2, 2, 4]) } else { *rng.pick(&[1usize, 2, 4]) };
        let log = dir.join("stub.log");
        std::env::set_var("STUB_LOG", &log);
        if kinds.len() == 2 && threads > 1 {
            std::env::set_var("STUB_DELAY", "0.03");
        }
        let out = run_grcov(&RunCfg {
            dir: &dir.join("cwd"),
            args: args.clone(),
            threads,
            perturb: None,
            fault: None,
            limit: Duration::from_secs(60),
            extra: vec!["-t".into(), "lcov".into(), "--branch".into(), "--no-demangle".into(),
                "--binary-path".into(), "../bins".into(), "--llvm-path".into(), stubs.to_str().unwrap().into()],
        });
        std::env::remove_var("STUB_LOG");
        std::env::remove_var("STUB_DELAY");
        let case = json!({"op": "c20.llvmrun", "args": args, "threads": threads,
            "profiles": profs.iter().map(|p| json!({"id": p.id, "raw": p.raw, "place": p.place.to_string(), "rel_hex": hex(&p.rel)})).collect::<Vec<_>>(),
            "bins": bins.iter().map(|b| json!({"name": b.name, "fails": b.fails, "lcov_hex": hex(&b.lcov)})).collect::<Vec<_>>()});
        rep.case(&format!("llvmrun {} {:?} {:?}", c, profs.iter().map(|p| (p.raw, p.place, hex(&p.rel))).collect::<Vec<_>>(), bins.iter().map(|b| (&b.name, b.fails)).collect::<Vec<_>>()),
            kinds.len() == 2 && threads >= 2);
        rep.count(&format!("llvmrun.items={}", kinds.len()));
        rep.count(&format!("llvmrun.threads={}", threads));
        if kinds.len() == 2 && threads >= 2 {
            rep.count("llvmrun.two_items_two_or_more_threads");
        }
        for p in &profs {
            if p.rel.contains(&b',') { rep.count("llvmrun.name_with_comma"); }
            if p.rel.starts_with(b"#") || p.rel.windows(2).any(|w| w == b"/#") { rep.count("llvmrun.name_component_starting_with_hash"); }
            if p.rel.contains(&b' ') { rep.count("llvmrun.name_with_blank"); }
            if p.rel.starts_with(b"0/") || p.rel.starts_with(b"1/") || p.rel.starts_with(b"7/") { rep.count("llvmrun.top_directory_named_like_worker_dir"); }
            if p.unlistable { rep.count("llvmrun.name_with_newline"); }
        }
        if c == 0 {
            rep.sample(case.clone());
        }
        if out.exit != Some(0) {
            rep.fail("oracle", None, format!("grcov exited with {:?}: {}", out.exit, out.stderr.lines().last().unwrap_or("")), case);
            continue;
        }
        // ---- what the tools saw
        let logtext = String::from_utf8_lossy(&std::fs::read(&log).unwrap_or_default()).to_string();
        struct Merge { out: String, stdin: Vec<u8>, ids: Vec<String>, rc: String }
        let mut merges: Vec<Merge> = vec![];
        let mut covs: Vec<(String, String)> = vec![]; // (binary, profile content)
        for l in logtext.lines() {
            if l.starts_with("PROFDATA") {
                if l != "PROFDATA merge -f - -sparse -o <out>" {
                    rep.fail("oracle", None, format!("llvm-profdata was started as {:?}", l), case.clone());
                }
                merges.push(Merge { out: String::new(), stdin: vec![], ids: vec![], rc: String::new() });
            } else if let Some(o) = l.strip_prefix("OUT ") {
                merges.last_mut().unwrap().out = o.to_string();
            } else if let Some(h) = l.strip_prefix("STDIN ") {
                merges.last_mut().unwrap().stdin = unhex(h);
            } else if l == "STDIN" {
            } else if let Some(p) = l.strip_prefix("PROFILE ") {
                merges.last_mut().unwrap().ids.push(p.to_string());
            } else if let Some(r) = l.strip_prefix("END ") {
                merges.last_mut().unwrap().rc = r.to_string();
            } else if let Some(r) = l.strip_prefix("COV export ") {
                let (head, content) = r.split_once(" | ").unwrap_or((r, ""));
                let w: Vec<&str> = head.split(' ').collect();
                if w.len() != 4 || w[1] != "--instr-profile" || w[2] != "--format" || w[3] != "lcov" {
                    rep.fail("oracle", None, format!("llvm-cov was started as {:?}", l), case.clone());
                }
                covs.push((w[0].to_string(), content.to_string()));
            }
        }
        // ---- the requirement, item by item
        let item_ids = |raw: bool| -> Vec<String> { profs.iter().filter(|p| p.raw == raw).map(|p| p.id.clone()).collect() };
        let bad_kind: Vec<bool> = kinds.iter().copied().filter(|r| profs.iter().any(|p| p.raw == *r && p.unlistable)).collect();
        // (kind, ids in the order the tool was given them) for the merges that name exactly one kind
        let mut item_of_merge: Vec<Option<bool>> = vec![];
        for m in &merges {
            let k = kinds.iter().copied().find(|r| sorted(m.ids.iter().filter(|i| *i != "missing" && *i != "badline").cloned().collect()) == sorted(item_ids(*r).into_iter().filter(|i| !profs.iter().any(|p| &p.id == i && p.unlistable)).collect::<Vec<_>>())
                && m.ids.iter().filter(|i| *i == "missing" || *i == "badline").count() >= profs.iter().filter(|p| p.raw == *r && p.unlistable).count().min(1));
            item_of_merge.push(k);
        }
        let strict_ok = merges.len() == kinds.len()
            && kinds.iter().all(|r| merges.iter().filter(|m| m.rc == "0" && sorted(m.ids.clone()) == sorted(item_ids(*r))).count() == 1);
        // content each item's merged profile must have: "merged <ids in list order>"
        let content_of = |m: &Merge| -> String { format!("merged {}", m.ids.join(" ")) };
        let good_merges: Vec<&Merge> = merges.iter().filter(|m| m.rc == "0").collect();
        let mut want_covs: Vec<(String, String)> = vec![];
        for m in &good_merges {
            for b in &bins {
                want_covs.push((b.name.clone(), content_of(m)));
            }
        }
        let exports_ok = sorted(covs.clone()) == sorted(want_covs.clone());
        // report = aggregate over (successful merge) × (binary that does not fail)
        let mut inputs: Vec<Input> = vec![];
        for m in &good_merges {
            for b in bins.iter().filter(|b| !b.fails) {
                let bytes = export_bytes(b, &m.ids);
                inputs.push(Input { name: b.name.clone(), format: "Info", id: String::new(), parsed: grcov::parse_lcov(bytes.clone(), true).unwrap(), bytes });
            }
        }
        let refs: Vec<&Input> = inputs.iter().collect();
        let want_report = show_map(&aggregate(&refs));
        let got_report = decode_lcov_report(&out.stdout).map(|m| show_map(&m));
        let report_ok = got_report.as_ref().ok() == Some(&want_report);
        // the degraded outcome of the finding: exactly the items with an unlistable path failed to merge
        let degraded = !bad_kind.is_empty()
            && merges.len() == kinds.len()
            && kinds.iter().all(|r| {
                let ms: Vec<(&Merge, &Option<bool>)> = merges.iter().zip(item_of_merge.iter()).filter(|(_, k)| **k == Some(*r)).collect();
                ms.len() == 1 && (ms[0].0.rc == "0") == !bad_kind.contains(r)
            })
            && exports_ok && report_ok;
        if !strict_ok {
            let named = degraded;
            rep.fail("oracle", if named { Some(FINDING_UNLISTABLE) } else { None },
                format!("merge invocations {:?}; expected one per profile kind present ({}), each fed exactly its profiles once: {:?}",
                    merges.iter().map(|m| (m.rc.clone(), m.ids.clone())).collect::<Vec<_>>(), kinds.len(),
                    kinds.iter().map(|r| item_ids(*r)).collect::<Vec<_>>()), case.clone());
            if !named {
                continue;
            }
        }
        if !exports_ok {
            rep.fail("oracle", None,
                format!("llvm-cov export invocations (binary, content of the profile it was pointed at) {:?}; expected every binary once per merged profile, against that profile: {:?}", sorted(covs.clone()), sorted(want_covs)), case.clone());
        }
        if !report_ok {
            rep.fail("oracle", None, "report differs from the aggregate, over the merged profiles, of what every binary exports against that profile".into(),
                json!({"case": case, "report": got_report, "aggregate": want_report}));
        }
        // ---- model ties
        // (1) llvm-profdata's reading of each recorded stdin, (2) the stdin from the paths
        let mut items_req: Vec<String> = vec![];
        let mut merges_sorted: Vec<&Merge> = merges.iter().collect();
        merges_sorted.sort_by(|a, b| a.stdin.cmp(&b.stdin));
        for m in &merges_sorted {
            // the harness' own reading: lines, each `1,<path>`
            let mut paths: Vec<Vec<u8>> = vec![];
            let mut wellformed = m.stdin.is_empty() || m.stdin.ends_with(b"\n");
            for line in m.stdin.split(|b| *b == b'\n') {
                if line.is_empty() { continue; }
                match line.strip_prefix(b"1,") {
                    Some(p) => paths.push(p.to_vec()),
                    None => wellformed = false,
                }
            }
            if m.rc != "0" {
                // an unlistable name: what the tool reads is not what grcov meant (the finding);
                // the model is asked about the items whose merge ran
                continue;
            }
            if !wellformed {
                rep.fail("oracle", None, "the merge tool's stdin is not a sequence of `1,<path>` lines".into(), json!({"case": case, "stdin_hex": hex(&m.stdin)}));
                continue;
            }
            reqs.push(format!("c20.llvm.list {}", hex(&m.stdin)));
            expect.push((if paths.is_empty() { "-".to_string() } else { paths.iter().map(|p| format!("1:{}", hex(p))).collect::<Vec<_>>().join(",") }, case.clone(), "llvm-profdata's reading of the recorded list (parseList)"));
            reqs.push(format!("c20.llvm.stdin {}", paths.iter().map(|p| hex(p)).collect::<Vec<_>>().join(",")));
            expect.push((hex(&m.stdin), case.clone(), "the list grcov writes (mergeStdin)"));
            // (4) layout: <tmp>/<i>/grcov.profdata and <tmp>/inputs/…
            let outp = Path::new(&m.out);
            if let (Some(wd), Some(name)) = (outp.parent(), outp.file_name()) {
                let tmp = wd.parent().unwrap_or(Path::new("/"));
                let idx = wd.file_name().and_then(|n| n.to_str()).and_then(|n| n.parse::<u64>().ok());
                if name != "grcov.profdata" || idx.map(|i| i >= threads as u64).unwrap_or(true) {
                    rep.fail("oracle", None, format!("the merged profile goes to {:?}: not `grcov.profdata` in the private directory `<tmp>/<i>`, i < {}", m.out, threads), case.clone());
                } else {
                    let prefix = format!("{}/inputs/", tmp.display());
                    for p in &paths {
                        if let Some(rel) = p.strip_prefix(prefix.as_bytes()) {
                            reqs.push(format!("c20.wd.layout {} {} {}", hex(tmp.as_os_str().as_bytes()), idx.unwrap(), hex(rel)));
                            expect.push((format!("{}|{}", hex(wd.as_os_str().as_bytes()), hex(p)), case.clone(), "worker directory / extraction destination (WorkDirs.layoutNew)"));
                            rep.count("llvmrun.layout_compared");
                        } else if p.starts_with(tmp.as_os_str().as_bytes()) {
                            rep.fail("oracle", None, format!("an extracted profile lies at {:?}: below the temporary directory but not below its `inputs/`", String::from_utf8_lossy(p)), case.clone());
                        }
                    }
                }
            }
            let ids = &m.ids;
            items_req.push(format!("{}|{}|{}",
                paths.iter().map(|p| hex(p)).collect::<Vec<_>>().join(","),
                hex(content_of(m).as_bytes()),
                bins.iter().map(|b| if b.fails { "-".to_string() } else { hex(&export_bytes(b, ids)) }).collect::<Vec<_>>().join(",")));
        }
        if items_req.is_empty() {
            // every work item of the run has an unlistable profile name (the recorded finding):
            // nothing is left to ask the model about
            rep.count("llvmrun.no_listable_item");
            continue;
        }
        reqs.push(format!("c20.llvm.run 1 {} {}", bins.iter().map(|b| hex(b.name.as_bytes())).collect::<Vec<_>>().join(","), items_req.join(";")));
        let mut stdins: Vec<String> = merges_sorted.iter().filter(|m| m.rc == "0").map(|m| hex(&m.stdin)).collect();
        stdins.sort();
        let obs = format!("merges={}|exports={}|report={}",
            stdins.join(","),
            sorted(covs.iter().map(|(b, c)| format!("{}@{}", hex(b.as_bytes()), hex(c.as_bytes()))).collect::<Vec<_>>()).join(","),
            got_report.clone().unwrap_or_else(|e| format!("undecodable: {}", e)));
        expect.push((obs, case.clone(), "merge log, export log and report of the run (LlvmTools.runLog / reportRun)"));
    }
    let ans = run_model(&reqs, &rep.workdir, "llvmrun");
    for i in 0..reqs.len() {
        let a = if reqs[i].starts_with("c20.llvm.run ") { canon_run(&ans[i]) } else { ans[i].clone() };
        rep.count(&format!("llvmrun.model.{}", reqs[i].split(' ').next().unwrap()));
        if a != expect[i].0 {
            rep.disagreements_checked += 1;
            rep.fail("disagreement", None, format!("model and real run differ in {}", expect[i].2),
                json!({"case": expect[i].1, "request": reqs[i], "model": ans[i], "observed": expect[i].0}));
        }
    }
}

/// the model's logs are in call order, the real ones in whatever order the workers ran: sort both
fn canon_run(a: &str) -> String {
    let parts: Vec<&str> = a.splitn(3, '|').collect();
    if parts.len() != 3 {
        return a.to_string();
    }
    let s = |p: &str, key: &str| -> String {
        let body = p.strip_prefix(key).unwrap_or(p);
        let mut v: Vec<&str> = if body.is_empty() { vec![] } else { body.split(',').collect() };
        v.sort();
        format!("{}{}", key, v.join(","))
    };
    format!("{}|{}|{}", s(parts[0], "merges="), s(parts[1], "exports="), parts[2])
}
