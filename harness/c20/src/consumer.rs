//! C20, part `Consumer`: the worker loop body of `grcov::consumer`, the gcov tool interface and
//! `find_binaries`, tied to the Lean model `GrcovModel/Consumer.lean`.
//!
//! The REAL `grcov::consumer` runs in a child process of this binary (one child per gcov version,
//! because `get_gcov_output_ext` is decided once per process) with ONE worker, a zero-capacity
//! channel (so that every item can be observed on its own: after `send(barrier)` returns, the
//! previous item is completely processed), a private working directory, `GCOV` pointing at a stub
//! that executes a per-notes-file script (write these files, make this directory, exit 0/1) and
//! `LLVM_PATH` pointing at stub llvm-profdata / llvm-cov. Observed per item: merged / rejected /
//! worker panicked, what it added to the result map; at the end the directory listing and the
//! argv the stub received. The same scenario goes to the model (`c20.cons.run`), and an independent
//! oracle restates the isolation clause: the contribution of an item is what its own tool output
//! contains, whatever the worker processed before.
use corrlib::pipe::*;
use corrlib::*;
use grcov::{CovResult, GcnoBuffers, ItemFormat, ItemType, WorkItem};
use serde_json::{json, Value};
use std::io::Write;
use std::path::{Path, PathBuf};
use std::process::Command;
use std::sync::{Arc, Mutex};
use std::time::Duration;

const GCOV_STUB: &str = r#"#!/bin/sh
if [ "$1" = "--version" ]; then cat "$C20_STUB_VERSION"; exit 0; fi
gcno=""
for a in "$@"; do case "$a" in -b|-c|-i) ;; *) gcno="$a";; esac; done
printf '%s\n' "$*" >> "$C20_STUB_ARGV"
. "$gcno.ctl"
"#;

const PROFDATA_STUB2: &str = r#"#!/bin/sh
out=""; prev=""
for a in "$@"; do if [ "$prev" = "-o" ]; then out="$a"; fi; prev="$a"; done
IFS= read -r first
first="${first#1,}"
. "$first.ctl"
"#;

const COV_STUB2: &str = r#"#!/bin/sh
key=$(cat "$C20_STUB_DIR/curkey")
f="$2.$key.lcov"
if [ -f "$f" ]; then cat "$f"; exit 0; fi
echo "stub: cannot export" >&2
exit 1
"#;

type Recs = Vec<(String, u64)>;

fn res_tok(r: &Recs) -> String {
    r.iter().map(|(n, k)| format!("{}={}", hex(n.as_bytes()), k)).collect::<Vec<_>>().join("+")
}
fn sorted_res(mut r: Recs) -> String {
    r.sort_by(|a, b| (a.0.as_bytes(), a.1).cmp(&(b.0.as_bytes(), b.1)));
    res_tok(&r)
}
/// identity of a batch of results: one record per (file, line)
fn project(rs: &[(String, CovResult)]) -> Recs {
    let mut v = vec![];
    for (n, c) in rs {
        for (l, _) in &c.lines {
            v.push((n.clone(), *l as u64));
        }
    }
    v
}
fn text_content(r: &Recs) -> Vec<u8> {
    let mut s = String::new();
    for (n, k) in r {
        s.push_str(&format!("file:{}\nfunction:{},1,f{}\nlcount:{},1\n", n, k, k, k));
    }
    s.into_bytes()
}
fn gz_content(r: &Recs) -> Vec<u8> {
    let files: Vec<Value> = r
        .iter()
        .map(|(n, k)| json!({"file": n, "functions": [], "lines": [{"line_number": k, "function_name": null, "count": 1, "unexecuted_block": false, "branches": []}]}))
        .collect();
    let j = json!({"format_version": "1", "gcc_version": "stub", "current_working_directory": "/", "data_file": "stub", "files": files});
    let mut e = flate2::write::GzEncoder::new(Vec::new(), flate2::Compression::fast());
    e.write_all(serde_json::to_string(&j).unwrap().as_bytes()).unwrap();
    e.finish().unwrap()
}
fn lcov_content(r: &Recs) -> Vec<u8> {
    let mut s = String::new();
    for (n, k) in r {
        s.push_str(&format!("SF:{}\nDA:{},1\nend_of_record\n", n, k));
    }
    s.into_bytes()
}

/// independent restatement of `rename_single_files` over std::path
fn rename_oracle(name: &str, stem: &str) -> String {
    match Path::new(stem).parent() {
        Some(par) if Path::new(name).parent() == Some(Path::new("")) => par.join(name).to_str().unwrap().to_string(),
        _ => name.to_string(),
    }
}

// ---------------------------------------------------------------------------------------------
// scenario

#[derive(Clone, Debug)]
struct Write_ {
    name: String,
    /// None = a sub-directory; Some((kind, recs)) with kind T Z B E
    content: Option<(char, Recs)>,
}

#[derive(Clone, Debug)]
enum Kind {
    P { stem: String, fname: String, ok: bool, writes: Vec<Write_> },
    U { stem: String, fixture: bool, outcome: Option<Recs> },
    C { bytes: Vec<u8>, outcome: Option<Recs> },
    /// profiles → tools: merge fails?, what is left as grcov.profdata, per binary the export (None =
    /// export fails, Some(bytes, parse outcome))
    L { merge_fail: bool, profdata: Option<(char, Recs)>, exports: Vec<Option<(Vec<u8>, Option<Recs>)>> },
}

#[derive(Clone, Debug)]
struct It {
    fmt: char,
    kind: Kind,
}

#[derive(Clone, Debug)]
struct Scenario {
    style: char, // S M X
    guess: bool,
    branch: bool,
    /// 0 = no --binary-path, 1 = a directory of binaries, 2 = a path that does not exist
    binary: u8,
    nbins: usize,
    items: Vec<It>,
}

fn content_bytes(c: &(char, Recs), id: usize) -> Vec<u8> {
    match c.0 {
        'T' => text_content(&c.1),
        'Z' => gz_content(&c.1),
        'E' => vec![],
        _ => format!("garbage {}\n", id).into_bytes(),
    }
}
fn content_tok(c: &(char, Recs)) -> String {
    match c.0 {
        'T' => format!("T{}", res_tok(&c.1)),
        'Z' => format!("Z{}", res_tok(&c.1)),
        'E' => "E".into(),
        _ => "B".into(),
    }
}
fn outcome_tok(o: &Option<Recs>) -> String {
    match o {
        Some(r) => format!("R{}", res_tok(r)),
        None => "X".into(),
    }
}

/// the model request and, per content number, the bytes of that content (for the final listing)
fn request(sc: &Scenario, ext_gz: bool, root: &Path) -> (String, Vec<Vec<u8>>) {
    let mut ids: Vec<Vec<u8>> = vec![];
    let mut items = vec![];
    for (i, it) in sc.items.iter().enumerate() {
        match &it.kind {
            Kind::P { stem, fname, ok, writes } => {
                let gcno = gcno_path(root, i, fname);
                let ws: Vec<String> = writes
                    .iter()
                    .map(|w| match &w.content {
                        None => format!("{}~D", hex(w.name.as_bytes())),
                        Some(c) => {
                            ids.push(content_bytes(c, ids.len()));
                            format!("{}~{}", hex(w.name.as_bytes()), content_tok(c))
                        }
                    })
                    .collect();
                items.push(format!("P:{}:{}:{}:{}:{}", it.fmt, hex(stem.as_bytes()), hex(gcno.to_str().unwrap().as_bytes()), *ok as u8, ws.join(",")));
            }
            Kind::U { stem, outcome, .. } => {
                ids.push(vec![]);
                items.push(format!("U:{}:{}:{}", it.fmt, hex(stem.as_bytes()), outcome_tok(outcome)));
            }
            Kind::C { outcome, .. } => {
                ids.push(vec![]);
                items.push(format!("C:{}:{}", it.fmt, outcome_tok(outcome)));
            }
            Kind::L { merge_fail, profdata, exports } => {
                let tool = if sc.binary == 0 || *merge_fail {
                    "X".to_string()
                } else if sc.binary == 2 {
                    "!".to_string()
                } else {
                    let l: Vec<String> = exports.iter().flatten().map(|(_, o)| {
                        ids.push(vec![]);
                        outcome_tok(o)
                    }).collect();
                    format!("O{}", l.join("/"))
                };
                let pd = match profdata {
                    Some(c) if sc.binary != 0 => {
                        ids.push(content_bytes(c, ids.len()));
                        content_tok(c)
                    }
                    _ => "-".to_string(),
                };
                items.push(format!("L:{}:{}:{}", it.fmt, tool, pd));
            }
        }
    }
    let env = format!("{}{}{}", sc.guess as u8, (sc.binary != 0) as u8, ext_gz as u8);
    (format!("c20.cons.run {} {}", env, if items.is_empty() { "-".to_string() } else { items.join(";") }), ids)
}

fn gcno_path(root: &Path, i: usize, fname: &str) -> PathBuf {
    root.join("items").join(i.to_string()).join(format!("{}.gcno", fname))
}

/// lay the scenario out on disk; returns the JSON the child needs
fn materialise(sc: &Scenario, ext_gz: bool, root: &Path) -> Value {
    let _ = std::fs::remove_dir_all(root);
    std::fs::create_dir_all(root.join("content")).unwrap();
    std::fs::create_dir_all(root.join("bins")).unwrap();
    let mut cid = 0usize;
    let mut put = |bytes: &[u8]| -> PathBuf {
        let p = root.join("content").join(format!("c{}", cid));
        cid += 1;
        std::fs::write(&p, bytes).unwrap();
        p
    };
    let mut elf = vec![0x7f, b'E', b'L', b'F', 2, 1, 1, 0];
    elf.extend_from_slice(&[0u8; 120]);
    for b in 0..sc.nbins {
        std::fs::write(root.join("bins").join(format!("bin{}", b)), &elf).unwrap();
    }
    let mut items = vec![];
    let mut ids = 0usize; // mirrors the numbering of `request`
    for (i, it) in sc.items.iter().enumerate() {
        let idir = root.join("items").join(i.to_string());
        std::fs::create_dir_all(&idir).unwrap();
        match &it.kind {
            Kind::P { stem, fname, ok, writes } => {
                let gcno = gcno_path(root, i, fname);
                std::fs::write(&gcno, b"stub notes").unwrap();
                let mut ctl = String::new();
                for w in writes {
                    match &w.content {
                        None => ctl.push_str(&format!("rm -rf \"./{}\"; mkdir -p \"./{}\"\n", w.name, w.name)),
                        Some(c) => {
                            let p = put(&content_bytes(c, ids));
                            ids += 1;
                            ctl.push_str(&format!("rm -rf \"./{}\"; cp \"{}\" \"./{}\"\n", w.name, p.display(), w.name));
                        }
                    }
                }
                ctl.push_str(if *ok { "exit 0\n" } else { "echo stub failure >&2\nexit 1\n" });
                std::fs::write(format!("{}.ctl", gcno.display()), ctl).unwrap();
                items.push(json!({"k": "P", "fmt": it.fmt.to_string(), "stem": stem, "gcno": gcno}));
            }
            Kind::U { stem, fixture, .. } => {
                ids += 1;
                items.push(json!({"k": "U", "fmt": it.fmt.to_string(), "stem": stem, "fixture": fixture}));
            }
            Kind::C { bytes, .. } => {
                ids += 1;
                items.push(json!({"k": "C", "fmt": it.fmt.to_string(), "hex": hex(bytes)}));
            }
            Kind::L { merge_fail, profdata, exports } => {
                let p0 = idir.join("p0.profraw");
                std::fs::write(&p0, b"profile").unwrap();
                let key = format!("k{}", i);
                let mut ctl = format!("echo {} > \"$C20_STUB_DIR/curkey\"\n", key);
                if sc.binary != 0 && !*merge_fail && sc.binary != 2 {
                    for (b, e) in exports.iter().enumerate() {
                        if let Some((bytes, _)) = e {
                            ids += 1;
                            std::fs::write(root.join("bins").join(format!("bin{}.{}.lcov", b, key)), bytes).unwrap();
                        }
                    }
                }
                if let Some(c) = profdata {
                    if sc.binary != 0 {
                        let p = put(&content_bytes(c, ids));
                        ids += 1;
                        ctl.push_str(&format!("cp \"{}\" \"$out\"\n", p.display()));
                    }
                }
                ctl.push_str(if *merge_fail { "echo stub merge failure >&2\nexit 1\n" } else { "exit 0\n" });
                std::fs::write(format!("{}.ctl", p0.display()), ctl).unwrap();
                items.push(json!({"k": "L", "fmt": it.fmt.to_string(), "paths": [p0, idir.join("p1.profraw")]}));
            }
        }
    }
    let _ = ext_gz;
    json!({
        "root": root, "wd": root.join("wd"), "guess": sc.guess, "branch": sc.branch,
        "binary": match sc.binary { 0 => Value::Null, 1 => json!(root.join("bins")), _ => json!(root.join("no-such-dir")) },
        "items": items,
    })
}

// ---------------------------------------------------------------------------------------------
// child process: the real code

fn fmt_of(s: &str) -> ItemFormat {
    match s {
        "G" => ItemFormat::Gcno,
        "R" => ItemFormat::Profraw,
        "D" => ItemFormat::Profdata,
        "I" => ItemFormat::Info,
        _ => ItemFormat::JacocoXml,
    }
}

fn garbage_gcno() -> Vec<u8> {
    b"not a notes file".to_vec()
}

fn make_item(v: &Value) -> WorkItem {
    let format = fmt_of(v["fmt"].as_str().unwrap());
    let item = match v["k"].as_str().unwrap() {
        "P" => ItemType::Path((v["stem"].as_str().unwrap().to_string(), PathBuf::from(v["gcno"].as_str().unwrap()))),
        "U" => {
            let (g, d) = if v["fixture"].as_bool().unwrap() {
                (std::fs::read("/repo/test/llvm/file.gcno").unwrap(), vec![std::fs::read("/repo/test/llvm/file.gcda").unwrap()])
            } else {
                (garbage_gcno(), vec![])
            };
            ItemType::Buffers(GcnoBuffers { stem: v["stem"].as_str().unwrap().to_string(), gcno_buf: g, gcda_buf: d })
        }
        "C" => ItemType::Content(unhex(v["hex"].as_str().unwrap())),
        _ => ItemType::Paths(v["paths"].as_array().unwrap().iter().map(|p| PathBuf::from(p.as_str().unwrap())).collect()),
    };
    WorkItem { format, item, name: "item".to_string() }
}

fn read_from(path: &Path, pos: &mut u64) -> String {
    use std::io::{Read, Seek, SeekFrom};
    let mut s = String::new();
    if let Ok(mut f) = std::fs::File::open(path) {
        let _ = f.seek(SeekFrom::Start(*pos));
        let _ = f.read_to_string(&mut s);
        *pos += s.len() as u64;
    }
    s
}

fn child_scenario(sc: &Value, log: &Path, log_pos: &mut u64) -> Value {
    let root = PathBuf::from(sc["root"].as_str().unwrap());
    let wd = PathBuf::from(sc["wd"].as_str().unwrap());
    std::fs::create_dir_all(&wd).unwrap();
    let argv_log = root.join("argv.log");
    std::env::set_var("C20_STUB_ARGV", &argv_log);
    std::env::set_var("C20_STUB_DIR", &root);
    let map: Arc<Mutex<grcov::CovResultMap>> = Arc::new(Mutex::new(fxmap()));
    let (tx, rx) = crossbeam_channel::bounded::<Option<WorkItem>>(0);
    let (wd2, map2) = (wd.clone(), Arc::clone(&map));
    let branch = sc["branch"].as_bool().unwrap();
    let guess = sc["guess"].as_bool().unwrap();
    let binary: Option<PathBuf> = sc["binary"].as_str().map(PathBuf::from);
    let h = std::thread::spawn(move || {
        grcov::consumer(&wd2, None, &map2, rx, branch, guess, binary.as_deref());
    });
    let mut out: Vec<String> = vec![];
    let _ = read_from(log, log_pos);
    for it in sc["items"].as_array().unwrap() {
        if tx.send(Some(make_item(it))).is_err() {
            break;
        }
        let barrier = WorkItem { format: ItemFormat::Info, item: ItemType::Paths(vec![]), name: "barrier".into() };
        if tx.send(Some(barrier)).is_err() {
            out.push("panic".into());
            break;
        }
        let events = read_from(log, log_pos);
        let merged = events.lines().any(|l| l.split(' ').nth(2) == Some("merged"));
        let got: Vec<(String, CovResult)> = map.lock().unwrap_or_else(|e| e.into_inner()).drain().collect();
        let contrib = sorted_res(project(&got));
        if merged {
            out.push(format!("ok:{}", contrib));
        } else if contrib.is_empty() {
            out.push("rejected".into());
        } else {
            out.push(format!("rejected-but-contributed:{}", contrib));
        }
    }
    let _ = tx.send(None);
    drop(tx);
    let _ = h.join();
    let mut dir: Vec<(String, String)> = vec![];
    if let Ok(rd) = std::fs::read_dir(&wd) {
        for e in rd.flatten() {
            use std::os::unix::ffi::OsStrExt;
            let name = hex(e.file_name().as_bytes());
            if e.path().is_dir() {
                dir.push((name, "D".into()));
            } else {
                dir.push((name, hex(&std::fs::read(e.path()).unwrap_or_default())));
            }
        }
    }
    dir.sort();
    let argv = std::fs::read_to_string(&argv_log).unwrap_or_default();
    json!({"items": out, "dir": dir, "argv": argv.lines().collect::<Vec<_>>()})
}

/// `true` when this process was started as a child of the `Consumer` stream
pub fn child_main() -> bool {
    let mode = match std::env::var("C20_CONS_CHILD") {
        Ok(m) => m,
        Err(_) => return false,
    };
    install_panic_hook();
    if mode == "version" {
        let r = guarded(|| {
            let v = grcov::get_gcov_version();
            (v.major, v.minor, v.patch, !v.pre.is_empty())
        });
        match r {
            Ok((a, b, c, p)) => {
                let e = guarded(|| grcov::get_gcov_output_ext().to_string()).unwrap_or_default();
                println!("{}.{}.{} pre={} ext={}", a, b, c, p as u8, hex(e.as_bytes()))
            }
            Err(_) => println!("none"),
        }
        return true;
    }
    let batch: Value = serde_json::from_str(&std::fs::read_to_string(&mode).unwrap()).unwrap();
    let _ = grcov::LLVM_PATH.set(PathBuf::from(batch["llvm_path"].as_str().unwrap()));
    let log = PathBuf::from(std::env::var("GRCOV_VERIF_LOG").unwrap());
    let mut pos = 0u64;
    println!("ext {}", hex(grcov::get_gcov_output_ext().as_bytes()));
    for sc in batch["scenarios"].as_array().unwrap() {
        let o = child_scenario(sc, &log, &mut pos);
        println!("{}", o);
    }
    true
}

// ---------------------------------------------------------------------------------------------
// generator

fn rec_name(rng: &mut Rng, k: u64) -> String {
    match rng.below(12) {
        0 | 1 => format!("d/s{}.c", k),
        2 => format!("./s{}.c", k),
        3 => format!("/abs/s{}.c", k),
        4 => format!("s{}.c/", k),
        5 => format!("a//b{}.c", k),
        6 => "..".to_string(),
        _ => format!("s{}.c", k),
    }
}
fn gen_recs(rng: &mut Rng, next: &mut u64) -> Recs {
    (0..rng.range(1, 2))
        .map(|_| {
            *next += 1;
            (rec_name(rng, *next), *next)
        })
        .collect()
}
const STEMS: &[&str] = &["unit", "dir/unit", "dir/sub/unit", "/abs/dir/unit", "./unit", "", "dir/", "../unit", "/unit", "/", "dir//unit", "./"];
const FNAMES: &[&str] = &["main_1", "util_1", "main_2"];

fn gen_content_for(rng: &mut Rng, name: &str, next: &mut u64) -> (char, Recs) {
    let gz = name.ends_with(".gz");
    match rng.below(10) {
        0 => ('B', vec![]),
        1 => ('E', vec![]),
        _ => (if gz { 'Z' } else { 'T' }, gen_recs(rng, next)),
    }
}

fn gen_scenario(rng: &mut Rng, ext_gz: bool) -> Scenario {
    let ext = if ext_gz { ".gcov.json.gz" } else { ".gcov" };
    let style = *rng.pick(&['S', 'S', 'M', 'M', 'X', 'X', 'X']);
    let binary = *rng.pick(&[0u8, 0, 1, 1, 1, 2]);
    let nbins = rng.range(1, 2) as usize;
    let n = rng.range(1, 6);
    let mut next = 0u64;
    let mut items = vec![];
    for _ in 0..n {
        let roll = rng.below(100);
        let it = if roll < 62 {
            // a notes file for gcov
            let fname = rng.pick(FNAMES).to_string();
            let own = format!("{}.gcno{}", fname, ext);
            let stem = rng.pick(STEMS).to_string();
            let ok = !rng.chance(1, 6);
            let mut writes: Vec<Write_> = vec![];
            let other = |rng: &mut Rng, next: &mut u64| -> String {
                *next += 1;
                if rng.chance(1, 2) { format!("x{}.gcov.json.gz", next) } else { format!("src{}.c.gcov", next) }
            };
            if !ok {
                for _ in 0..rng.below(3) {
                    let name = if rng.chance(1, 2) { own.clone() } else { other(rng, &mut next) };
                    let c = gen_content_for(rng, &name, &mut next);
                    writes.push(Write_ { name, content: Some(c) });
                }
            } else {
                match style {
                    'S' => {
                        let c = gen_content_for(rng, &own, &mut next);
                        writes.push(Write_ { name: own.clone(), content: Some(c) });
                    }
                    'M' => {
                        for _ in 0..rng.range(1, 3) {
                            let name = other(rng, &mut next);
                            let c = gen_content_for(rng, &name, &mut next);
                            writes.push(Write_ { name, content: Some(c) });
                        }
                    }
                    _ => {
                        for _ in 0..rng.below(4) {
                            let name = match rng.below(20) {
                                0..=8 => own.clone(),
                                9..=11 => format!("{}.gcno{}", rng.pick(FNAMES), ext),
                                12 => "noext".to_string(),
                                13 => ".hidden".to_string(),
                                14 => "grcov.profdata".to_string(),
                                _ => other(rng, &mut next),
                            };
                            if rng.chance(1, 25) && name != "grcov.profdata" {
                                writes.push(Write_ { name, content: None });
                            } else {
                                let c = gen_content_for(rng, &name, &mut next);
                                writes.push(Write_ { name, content: Some(c) });
                            }
                        }
                    }
                }
            }
            let fmt = if rng.chance(1, 20) { *rng.pick(&['I', 'R', 'J']) } else { 'G' };
            It { fmt, kind: Kind::P { stem, fname, ok, writes } }
        } else if roll < 74 {
            // content
            let fmt = *rng.pick(&['I', 'I', 'I', 'J', 'J', 'G', 'R', 'D']);
            let recs = gen_recs(rng, &mut next);
            let bytes: Vec<u8> = match (fmt, rng.below(4)) {
                ('J', 0) => b"<?xml version=\"1.0\"?><report name=\"r\"><package name=\"p\"><sourcefile name=\"A.java\"><line nr=\"x\"/></sourcefile></package>".to_vec(),
                ('J', _) => gen_jacoco(rng, &["A.java"]),
                (_, 0) => b"SF:broken.c\nDA:zz,1\nend_of_record\n".to_vec(),
                _ => lcov_content(&recs),
            };
            let outcome = match fmt {
                'J' => guarded({
                    let b = bytes.clone();
                    move || grcov::parse_jacoco_xml_report(std::io::BufReader::new(std::io::Cursor::new(b))).ok()
                })
                .ok()
                .flatten()
                .map(|r| project(&r)),
                _ => grcov::parse_lcov(bytes.clone(), false).ok().map(|r| project(&r)),
            };
            It { fmt, kind: Kind::C { bytes, outcome } }
        } else if roll < 84 {
            let fmt = *rng.pick(&['G', 'G', 'G', 'I', 'R']);
            let fixture = rng.chance(1, 2);
            let stem = rng.pick(STEMS).to_string();
            let outcome = if fixture {
                grcov::Gcno::compute(&stem, std::fs::read("/repo/test/llvm/file.gcno").unwrap(), vec![std::fs::read("/repo/test/llvm/file.gcda").unwrap()], false)
                    .ok()
                    .map(|r| project(&r))
            } else {
                grcov::Gcno::compute(&stem, garbage_gcno(), vec![], false).ok().map(|r| project(&r))
            };
            It { fmt, kind: Kind::U { stem, fixture, outcome } }
        } else {
            let fmt = *rng.pick(&['R', 'R', 'R', 'D', 'D', 'G', 'I']);
            let merge_fail = rng.chance(1, 6);
            let profdata = if rng.chance(5, 6) {
                Some(if rng.chance(1, 5) { ('T', gen_recs(rng, &mut next)) } else { ('B', vec![]) })
            } else {
                None
            };
            let exports = (0..nbins)
                .map(|_| {
                    if rng.chance(1, 5) {
                        None
                    } else {
                        let bytes = if rng.chance(1, 6) { b"SF:broken.c\nDA:zz,1\nend_of_record\n".to_vec() } else { lcov_content(&gen_recs(rng, &mut next)) };
                        let o = grcov::parse_lcov(bytes.clone(), false).ok().map(|r| project(&r));
                        Some((bytes, o))
                    }
                })
                .collect();
            It { fmt, kind: Kind::L { merge_fail, profdata, exports } }
        };
        items.push(it);
    }
    Scenario { style, guess: rng.chance(1, 2), branch: rng.chance(1, 2), binary, nbins, items }
}

// ---------------------------------------------------------------------------------------------
// independent oracle: what every item contributes on its own (styles S and M only)

/// Some(per-item expectation) for scenarios whose gcov stub honours one of the two output
/// conventions; `None` for the chaotic ones (model comparison only)
fn oracle(sc: &Scenario, ext_gz: bool) -> Option<Vec<String>> {
    if sc.style == 'X' {
        return None;
    }
    let mut out = vec![];
    for it in &sc.items {
        let r: String = match (&it.kind, it.fmt) {
            (Kind::P { stem, fname, ok, writes }, 'G') => {
                if !*ok {
                    "rejected".into()
                } else {
                    // the files of this run, a later write replacing an earlier one of the same name
                    let mut last: Vec<&Write_> = vec![];
                    for w in writes {
                        last.retain(|x| x.name != w.name);
                        last.push(w);
                    }
                    let own = format!("{}.gcno{}", fname, if ext_gz { ".gcov.json.gz" } else { ".gcov" });
                    let read: Vec<&Write_> = if sc.style == 'S' { last.into_iter().filter(|w| w.name == own).collect() } else { last };
                    let mut recs: Recs = vec![];
                    let mut bad = false;
                    for w in read {
                        let as_gz = if sc.style == 'S' { ext_gz } else { w.name.ends_with(".gz") };
                        match &w.content {
                            Some(('T', r)) if !as_gz => recs.extend(r.clone()),
                            Some(('Z', r)) if as_gz => recs.extend(r.clone()),
                            Some(('E', _)) if !as_gz => {}
                            _ => bad = true,
                        }
                    }
                    if bad {
                        "rejected".into()
                    } else {
                        if sc.guess {
                            for r in recs.iter_mut() {
                                r.0 = rename_oracle(&r.0, stem);
                            }
                        }
                        format!("ok:{}", sorted_res(recs))
                    }
                }
            }
            (Kind::U { stem, outcome, .. }, 'G') => {
                let mut recs = outcome.clone().unwrap_or_default();
                if sc.guess {
                    for r in recs.iter_mut() {
                        r.0 = rename_oracle(&r.0, stem);
                    }
                }
                format!("ok:{}", sorted_res(recs))
            }
            (Kind::C { outcome, .. }, 'I') | (Kind::C { outcome, .. }, 'J') => match outcome {
                Some(r) => format!("ok:{}", sorted_res(r.clone())),
                None => "rejected".into(),
            },
            (Kind::L { merge_fail, exports, .. }, 'R') | (Kind::L { merge_fail, exports, .. }, 'D') => {
                if sc.binary == 0 || *merge_fail {
                    "rejected".into()
                } else if sc.binary == 2 {
                    "panic".into()
                } else {
                    // an export that does not parse is skipped, the others count
                    let mut recs: Recs = vec![];
                    for (_, o) in exports.iter().flatten() {
                        if let Some(r) = o {
                            recs.extend(r.clone());
                        }
                    }
                    format!("ok:{}", sorted_res(recs))
                }
            }
            _ => "rejected".into(),
        };
        let stop = r == "panic";
        out.push(r);
        if stop {
            break;
        }
    }
    Some(out)
}

// ---------------------------------------------------------------------------------------------
// parent

fn stub_dir(rep: &Report) -> PathBuf {
    let d = rep.workdir.join("cons-stubs");
    std::fs::create_dir_all(&d).unwrap();
    super::write_exec(&d.join("gcov"), GCOV_STUB);
    super::write_exec(&d.join("llvm-profdata"), PROFDATA_STUB2);
    super::write_exec(&d.join("llvm-cov"), COV_STUB2);
    d
}

fn spawn_child(mode: &str, stubs: &Path, version_file: &Path, log: &Path) -> String {
    let out = Command::new(std::env::current_exe().unwrap())
        .env("C20_CONS_CHILD", mode)
        .env("GCOV", stubs.join("gcov"))
        .env("C20_STUB_VERSION", version_file)
        .env("C20_STUB_ARGV", "/dev/null")
        .env("GRCOV_VERIF_LOG", log)
        .env_remove("GRCOV_VERIF_PERTURB")
        .env_remove("GRCOV_VERIF_FAULT")
        .output()
        .expect("cannot start the consumer child");
    String::from_utf8_lossy(&out.stdout).to_string()
}

fn sc_json(sc: &Scenario, ext_gz: bool, seed: u64, n: u64, index: usize) -> Value {
    json!({"op": "c20.cons.run", "ext_gz": ext_gz, "seed": seed, "n": n, "index": index, "scenario": format!("{:?}", sc)})
}

/// `all` = the scenarios of this batch (generated, or read from the corpus); `only` = run just that
/// one (replay of a generated case); `corpus` = the corpus case the scenarios come from
fn run_batch(rep: &mut Report, stubs: &Path, ext_gz: bool, all: Vec<Scenario>, tag: &str, only: Option<usize>, corpus: Option<&Value>) {
    let n = all.len() as u64;
    let base = rep.workdir.join(format!("cons-{}", tag));
    let _ = std::fs::remove_dir_all(&base);
    std::fs::create_dir_all(&base).unwrap();
    let vf = base.join("version.txt");
    std::fs::write(&vf, if ext_gz { "gcov (GCC) 12.2.0\n" } else { "gcov (GCC) 8.3.0\n" }).unwrap();
    // a replay runs one scenario of the regenerated batch
    let sel: Vec<usize> = match only {
        Some(k) => vec![k].into_iter().filter(|k| *k < all.len()).collect(),
        None => (0..all.len()).collect(),
    };
    let scs: Vec<Scenario> = sel.iter().map(|&k| all[k].clone()).collect();
    let mut reqs = vec![];
    let mut idbytes = vec![];
    let mut child_in = vec![];
    for (i, sc) in scs.iter().enumerate() {
        let root = base.join(format!("s{}", sel[i]));
        child_in.push(materialise(sc, ext_gz, &root));
        let (r, ids) = request(sc, ext_gz, &root);
        reqs.push(r);
        idbytes.push(ids);
    }
    let batch = base.join("batch.json");
    std::fs::write(&batch, serde_json::to_string(&json!({"llvm_path": stubs, "scenarios": child_in})).unwrap()).unwrap();
    let out = spawn_child(batch.to_str().unwrap(), stubs, &vf, &base.join("events.log"));
    let lines: Vec<&str> = out.lines().collect();
    let want_ext = if ext_gz { ".gcov.json.gz" } else { ".gcov" };
    if lines.len() != scs.len() + 1 || lines[0] != format!("ext {}", hex(want_ext.as_bytes())) {
        rep.fail("oracle", None, format!("the consumer child for {} answered {} lines (first: {:?}) for {} scenarios", tag, lines.len(), lines.first(), scs.len()),
            json!({"op": "c20.cons.child", "tag": tag}));
        return;
    }
    let mut argv_reqs = vec![];
    let mut argv_seen = vec![];
    let ans = run_model(&reqs, &rep.workdir, &format!("cons-{}", tag));
    for (i, sc) in scs.iter().enumerate() {
        let root = base.join(format!("s{}", sel[i]));
        let real: Value = serde_json::from_str(lines[i + 1]).unwrap_or(Value::Null);
        let real_items: Vec<String> = real["items"].as_array().map(|a| a.iter().map(|x| x.as_str().unwrap_or("").to_string()).collect()).unwrap_or_default();
        let panicked = real_items.last().map(|s| s == "panic").unwrap_or(false);
        let case = match corpus {
            Some(c) => c.clone(),
            None => sc_json(sc, ext_gz, rep.seed, n, sel[i]),
        };
        rep.case(&reqs[i], sc.items.len() >= 2 && sc.items.iter().filter(|it| matches!(it.kind, Kind::P { .. })).count() >= 1);
        rep.count(&format!("cons.style={}", sc.style));
        for r in &real_items {
            rep.count(&format!("cons.item.{}", r.split(':').next().unwrap()));
        }
        if i < 2 {
            rep.sample(json!({"request": reqs[i], "model": ans[i], "real": real}));
        }
        // observation (review item 36): a profile item that is merged although one of its exports did
        // not parse ("Error parsing file" is logged): the arm is not all-or-nothing
        for (j, it) in sc.items.iter().enumerate() {
            if let (Kind::L { merge_fail: false, exports, .. }, 'R' | 'D') = (&it.kind, it.fmt) {
                let parsed = exports.iter().flatten().filter(|e| e.1.is_some()).count();
                let skipped = exports.iter().flatten().filter(|e| e.1.is_none()).count();
                if sc.binary == 1 && skipped > 0 && real_items.get(j).map(|r| r.starts_with("ok:")).unwrap_or(false) {
                    rep.count(if parsed > 0 { "cons.llvm.merged_with_unparsable_and_parsable_exports" } else { "cons.llvm.merged_with_only_unparsable_exports" });
                }
            }
        }
        // ---- the independent oracle first
        let mut oracle_failed = false;
        if real_items.iter().any(|r| r.starts_with("rejected-but")) {
            rep.fail("oracle", None, "an item that was not merged changed the result map".into(), with(&case, json!({"real": real_items})));
            oracle_failed = true;
        }
        if let Some(want) = oracle(sc, ext_gz) {
            rep.count("cons.oracle_evaluated");
            if want != real_items {
                let at = (0..want.len().max(real_items.len())).find(|&k| want.get(k) != real_items.get(k)).unwrap();
                rep.fail("oracle", None,
                    format!("item {} contributed {:?}, its own tool output contains {:?} (what a worker adds for an item must not depend on what it processed before)", at, real_items.get(at), want.get(at)),
                    with(&case, json!({"real": real_items, "expected": want})));
                oracle_failed = true;
            }
        }
        // ---- model
        let parts: Vec<&str> = ans[i].split('|').collect();
        if parts.len() != 3 {
            rep.fail("disagreement", None, format!("model answered {:?}", ans[i]), case.clone());
            continue;
        }
        let model_items: Vec<String> = if parts[0].is_empty() { vec![] } else { parts[0].split(';').map(|s| s.to_string()).collect() };
        rep.count(&format!("cons.type={}", parts[2]));
        let mut same = model_items == real_items;
        let mut what = String::from("per-item outcome");
        if same && !panicked {
            let mut want_dir: Vec<(String, String)> = splitne(parts[1], ',')
                .iter()
                .map(|e| {
                    let (n, c) = e.split_once('~').unwrap();
                    (n.to_string(), if c == "D" { "D".to_string() } else { hex(&idbytes[i][c.parse::<usize>().unwrap()]) })
                })
                .collect();
            want_dir.sort();
            let real_dir: Vec<(String, String)> = real["dir"].as_array().map(|a| a.iter().map(|p| (p[0].as_str().unwrap().to_string(), p[1].as_str().unwrap().to_string())).collect()).unwrap_or_default();
            if !want_dir.is_empty() {
                rep.count("cons.leftover_in_dir");
            }
            if want_dir != real_dir {
                same = false;
                what = format!("final directory listing (model {:?}, real {:?})", want_dir.iter().map(|x| &x.0).collect::<Vec<_>>(), real_dir.iter().map(|x| &x.0).collect::<Vec<_>>());
            }
        }
        if !same && !oracle_failed {
            rep.disagreements_checked += 1;
            rep.fail("disagreement", None, format!("Consumer model and grcov::consumer differ in the {}", what), with(&case, json!({"request": reqs[i], "model": ans[i], "real": real})));
        } else if !same {
            rep.disagreements_checked += 1;
            rep.notes.push(format!("consumer: model differs too on a case whose oracle failed: {} vs {:?}", ans[i], real_items));
        }
        // ---- argv
        let mut k = 0;
        let argv: Vec<String> = real["argv"].as_array().map(|a| a.iter().map(|x| x.as_str().unwrap_or("").to_string()).collect()).unwrap_or_default();
        for (j, it) in sc.items.iter().enumerate() {
            if j >= real_items.len() {
                break;
            }
            if let (Kind::P { fname, .. }, 'G') = (&it.kind, it.fmt) {
                let gcno = gcno_path(&root, j, fname);
                argv_reqs.push(format!("c20.cons.argv {} {}", sc.branch as u8, hex(gcno.to_str().unwrap().as_bytes())));
                argv_seen.push((argv.get(k).cloned().unwrap_or_default(), case.clone()));
                k += 1;
            }
        }
        if k != argv.len() {
            rep.fail("oracle", None, format!("gcov was started {} times for {} notes items", argv.len(), k), case.clone());
        }
    }
    let a = run_model(&argv_reqs, &rep.workdir, &format!("cons-argv-{}", tag));
    for (i, m) in a.iter().enumerate() {
        let want = m.split(',').map(|h| String::from_utf8_lossy(&unhex(h)).to_string()).collect::<Vec<_>>().join(" ");
        rep.count("cons.argv_compared");
        if want != argv_seen[i].0 {
            rep.fail("disagreement", None, format!("gcov argv: model {:?}, real {:?}", want, argv_seen[i].0), argv_seen[i].1.clone());
        }
    }
}

fn with(case: &Value, extra: Value) -> Value {
    let mut c = case.clone();
    for (k, v) in extra.as_object().unwrap() {
        c[k.as_str()] = v.clone();
    }
    c
}

fn splitne(s: &str, c: char) -> Vec<&str> {
    if s.is_empty() { vec![] } else { s.split(c).collect() }
}

// ---- gcov --version → parse_version → get_gcov_output_ext, one child per version text
fn gen_version_text(rng: &mut Rng) -> String {
    let num = |rng: &mut Rng| -> String {
        match rng.below(40) {
            0 => "0".into(),
            1 => "00".into(),
            2 => "09".into(),
            3 => "9".into(),
            4 => "18446744073709551615".into(),
            5 => "18446744073709551616".into(),
            6 => "1".into(),
            _ => rng.below(14).to_string(),
        }
    };
    let ver = |rng: &mut Rng| -> String {
        let mut s = match rng.below(6) {
            0 => "9.1.0".to_string(),
            1 => format!("9.{}.{}", rng.below(3), rng.below(2)),
            _ => format!("{}.{}.{}", num(rng), num(rng), num(rng)),
        };
        match rng.below(18) {
            0 => s.push_str("-rc1"),
            1 => s.push_str("-0"),
            2 => s.push_str("-01"),
            3 => s.push_str("-a.b-c.0"),
            4 => s.push_str("-"),
            5 => s.push_str("-a..b"),
            6 => s.push_str("-0a.00"),
            _ => {}
        }
        match rng.below(20) {
            0 => s.push_str("+build.5"),
            1 => s.push_str("+"),
            2 => s.push_str("+001"),
            3 => s.push_str("+a_b"),
            _ => {}
        }
        s
    };
    let mut toks: Vec<String> = vec!["gcov".into()];
    for _ in 0..rng.range(1, 5) {
        toks.push(match rng.below(14) {
            0 => "(GCC)".into(),
            1 => format!("(Ubuntu {}-12ubuntu2)", ver(rng)),
            2 => "20170406".into(),
            3 => format!("{}\r", ver(rng)),
            4 => format!("\t{}", ver(rng)),
            5 => format!("{}.{}", rng.below(20), rng.below(9)),
            6 => format!("v{}", ver(rng)),
            7 => "é".into(),
            _ => ver(rng),
        });
    }
    let mut s = String::new();
    for (i, t) in toks.iter().enumerate() {
        if i > 0 {
            s.push(if rng.chance(1, 5) { '\n' } else { ' ' });
        }
        s.push_str(t);
    }
    if rng.chance(1, 2) {
        s.push('\n');
    }
    s
}

fn version_stream(rep: &mut Report, rng: &mut Rng, stubs: &Path) {
    let n = rep.budget(60, 10);
    let base = rep.workdir.join("cons-version");
    std::fs::create_dir_all(&base).unwrap();
    let mut texts: Vec<String> = vec![
        "gcov (GCC) 12.2.0\n".into(),
        "gcov (Ubuntu 4.9.0-12ubuntu2) 4.9.0 20170406".into(),
        "gcov (GCC) 9.1.0".into(),
        "gcov (GCC) 9.1.0-rc1".into(),
        "gcov (GCC) 9.0.9".into(),
        "gcov (GCC) 9.1.0+b".into(),
        "gcov 10.1.0 9.0.0".into(),
        "no version here".into(),
    ];
    while (texts.len() as u64) < n {
        texts.push(gen_version_text(rng));
    }
    version_texts(rep, stubs, texts);
}

fn version_texts(rep: &mut Report, stubs: &Path, texts: Vec<String>) {
    let base = rep.workdir.join("cons-version");
    std::fs::create_dir_all(&base).unwrap();
    let reqs: Vec<String> = texts.iter().map(|t| format!("c20.cons.version {}", hex(t.as_bytes()))).collect();
    let ans = run_model(&reqs, &rep.workdir, "cons-version");
    for (i, t) in texts.iter().enumerate() {
        let vf = base.join(format!("v{}.txt", i));
        std::fs::write(&vf, t).unwrap();
        let out = spawn_child("version", stubs, &vf, &base.join("events.log"));
        let real = out.lines().next().unwrap_or("").to_string();
        rep.case(&reqs[i], real != "none");
        rep.count(if real == "none" { "cons.version.none" } else if real.ends_with(&hex(b".gcov.json.gz")) { "cons.version.gz" } else { "cons.version.text" });
        let case = json!({"op": "c20.cons.version", "text": t});
        // oracle: the extension is the JSON one exactly from 9.1.0 (release) on
        if real != "none" {
            let p: Vec<&str> = real.split(' ').collect();
            let v: Vec<u64> = p[0].split('.').map(|x| x.parse().unwrap()).collect();
            let pre = p[1] == "pre=1";
            let ge = (v[0], v[1], v[2]) > (9, 1, 0) || ((v[0], v[1], v[2]) == (9, 1, 0) && !pre);
            let gz = p[2] == format!("ext={}", hex(b".gcov.json.gz"));
            if ge != gz {
                rep.fail("oracle", None, format!("version {} gives extension {}", real, p[2]), case.clone());
                continue;
            }
        }
        if real != ans[i] {
            rep.disagreements_checked += 1;
            rep.fail("disagreement", None, format!("parse_version/get_gcov_output_ext: model {:?}, real {:?}", ans[i], real), case);
        }
    }
}

// ---- find_binaries
fn findbin_stream(rep: &mut Report, rng: &mut Rng) {
    let n = rep.budget(40, 10);
    let heads: Vec<(Vec<u8>, bool)> = {
        let mut elf = vec![0x7f, b'E', b'L', b'F', 2, 1, 1, 0];
        elf.extend_from_slice(&[0u8; 140]);
        let mut mz = b"MZ".to_vec();
        mz.extend_from_slice(&[0u8; 70]);
        vec![(elf, true), (mz, true), (b"#!/bin/sh\necho\n".to_vec(), false), (b"hello".to_vec(), false), (vec![], false), (b"\0asm\x01\0\0\0".to_vec(), true)]
    };
    let mut reqs = vec![];
    let mut seen = vec![];
    for c in 0..n {
        let root = rep.workdir.join(format!("cons-fb{}", c));
        let _ = std::fs::remove_dir_all(&root);
        std::fs::create_dir_all(root.join("t/sub/deep")).unwrap();
        let kind = *rng.pick(&['D', 'D', 'D', 'F', 'M']);
        let (path, files): (PathBuf, Vec<(PathBuf, Vec<u8>, bool)>) = match kind {
            'M' => (root.join("missing"), vec![]),
            'F' => {
                let p = root.join("t/one");
                std::fs::write(&p, b"not sniffed").unwrap();
                (p, vec![])
            }
            _ => {
                let mut fs = vec![];
                for i in 0..rng.below(6) {
                    let (h, app) = rng.pick(&heads).clone();
                    let p = root.join("t").join(*rng.pick(&["", "sub", "sub/deep"])).join(format!("f{}", i));
                    std::fs::write(&p, &h).unwrap();
                    fs.push((p, h[..h.len().min(128)].to_vec(), app));
                }
                (root.join("t"), fs)
            }
        };
        let real = guarded({
            let p = path.clone();
            move || grcov::find_binaries(&p)
        });
        let real_s = match real {
            Err(_) => "panic".to_string(),
            Ok(mut v) => {
                v.sort();
                v.iter().map(|p| hex(p.to_str().unwrap().as_bytes())).collect::<Vec<_>>().join(",")
            }
        };
        let req = format!("c20.cons.findbin {} {} {}", kind, hex(path.to_str().unwrap().as_bytes()),
            files.iter().map(|(p, h, a)| format!("{}~{}~{}", hex(p.to_str().unwrap().as_bytes()), hex(h), *a as u8)).collect::<Vec<_>>().join(","));
        rep.case(&format!("findbin {} {:?}", kind, files.iter().map(|f| (f.1.len(), f.2)).collect::<Vec<_>>()), files.iter().any(|f| f.2) && files.iter().any(|f| !f.2));
        rep.count(&format!("cons.findbin.{}", kind));
        // oracle: exactly the sniffed executables (a plain file is taken as it is, a missing path panics)
        let mut want: Vec<String> = match kind {
            'M' => vec!["panic".into()],
            'F' => vec![hex(path.to_str().unwrap().as_bytes())],
            _ => files.iter().filter(|f| f.2).map(|f| hex(f.0.to_str().unwrap().as_bytes())).collect(),
        };
        want.sort();
        let case = json!({"op": "c20.cons.findbin", "request": req});
        if want.join(",") != real_s {
            rep.fail("oracle", None, format!("find_binaries returned {} for a tree whose executables are {}", real_s, want.join(",")), case.clone());
        }
        reqs.push(req);
        seen.push((real_s, case));
        let _ = std::fs::remove_dir_all(&root);
    }
    let ans = run_model(&reqs, &rep.workdir, "cons-findbin");
    for (i, a) in ans.iter().enumerate() {
        if *a != seen[i].0 {
            rep.disagreements_checked += 1;
            rep.fail("disagreement", None, format!("find_binaries: model {:?}, real {:?}", a, seen[i].0), seen[i].1.clone());
        }
    }
}

/// Regression oracle for the former finding C20-profdata-left-in-worker-dir (fixed by 2cb069b; its
/// Lean witness is `witnessEnvProfdata`), on the real binary with the real gcov:
/// one gcc-instrumented unit plus one profile, `--threads 1`. The LLVM item is sent first and leaves
/// `grcov.profdata` in the worker's directory; gcov ≥ 12 names its output `<stem>.gcov.json.gz`, so
/// the worker is in MultipleFiles mode and reads the profile data as a gcov file.
fn e2e_profdata(rep: &mut Report) {
    let root = rep.workdir.join("cons-e2e");
    let _ = std::fs::remove_dir_all(&root);
    let stubs = root.join("stubs");
    std::fs::create_dir_all(&stubs).unwrap();
    super::write_exec(&stubs.join("llvm-profdata"), super::PROFDATA_STUB);
    super::write_exec(&stubs.join("llvm-cov"), super::COV_STUB);
    let mut reports = vec![];
    for with_profile in [false, true] {
        let dir = root.join(if with_profile { "with" } else { "without" });
        std::fs::create_dir_all(dir.join("in")).unwrap();
        std::fs::create_dir_all(dir.join("bins")).unwrap();
        std::fs::write(dir.join("in/unit.c"), "int main(void)\n{\n  return 0;\n}\n").unwrap();
        let ok = Command::new("gcc").current_dir(dir.join("in")).args(["--coverage", "-O0", "-o", "prog", "unit.c"]).status().map(|s| s.success()).unwrap_or(false);
        if !ok {
            rep.notes.push("consumer e2e: gcc not usable".into());
            return;
        }
        let _ = Command::new("./prog").current_dir(dir.join("in")).status();
        let _ = std::fs::remove_file(dir.join("in/prog"));
        let mut elf = vec![0x7f, b'E', b'L', b'F', 2, 1, 1, 0];
        elf.extend_from_slice(&[0u8; 200]);
        std::fs::write(dir.join("bins/bin0"), &elf).unwrap();
        std::fs::write(dir.join("bins/bin0.lcov"), "SF:rust/lib.rs\nDA:1,1\nend_of_record\n").unwrap();
        if with_profile {
            std::fs::write(dir.join("in/default.profraw"), "profile-0").unwrap();
        }
        std::env::set_var("STUB_LOG", dir.join("stub.log"));
        let out = run_grcov(&RunCfg {
            dir: &dir.join("in"),
            args: vec![".".into()],
            threads: 1,
            perturb: None,
            fault: None,
            limit: Duration::from_secs(60),
            extra: vec!["-t".into(), "lcov".into(), "--no-demangle".into(), "--binary-path".into(), "../bins".into(), "--llvm-path".into(), stubs.to_str().unwrap().into()],
        });
        std::env::remove_var("STUB_LOG");
        let files: Vec<String> = out.stdout.lines().filter_map(|l| l.strip_prefix("SF:")).map(|s| s.rsplit('/').next().unwrap().to_string()).collect();
        reports.push((out.exit, files));
    }
    rep.case("cons-e2e profdata", true);
    rep.count("cons.e2e_profdata");
    let case = json!({"op": "c20.cons.e2e-profdata", "without_profile": format!("{:?}", reports[0]), "with_profile": format!("{:?}", reports[1])});
    if reports[0].0 != Some(0) || !reports[0].1.contains(&"unit.c".to_string()) {
        rep.notes.push(format!("consumer e2e: the plain gcc run did not report unit.c: {:?}", reports[0]));
        return;
    }
    if !reports[1].1.contains(&"unit.c".to_string()) {
        rep.fail("oracle", None,
            "adding a profile to the inputs removes the gcc-instrumented unit from the report (threads=1, real gcov): the worker parsed grcov.profdata as gcov output and rejected the notes file (former finding C20-profdata-left-in-worker-dir, fixed by 2cb069b, is back)".into(), case);
    }
}

fn recs_from(v: &Value) -> Option<Recs> {
    v.as_array()?.iter().map(|r| Some((r[0].as_str()?.to_string(), r[1].as_u64()?))).collect()
}
fn content_from(v: &Value) -> Option<Option<(char, Recs)>> {
    if v.is_null() {
        return Some(None);
    }
    Some(Some((v[0].as_str()?.chars().next()?, recs_from(&v[1])?)))
}

/// a self-contained scenario (corpus files): notes items, lcov/JaCoCo-format content items given by
/// their lcov records, profile lists
fn scenario_from_json(c: &Value) -> Option<(Scenario, bool)> {
    let mut items = vec![];
    for it in c["items"].as_array()? {
        let fmt = it["fmt"].as_str()?.chars().next()?;
        let kind = match it["k"].as_str()? {
            "P" => Kind::P {
                stem: it["stem"].as_str()?.to_string(),
                fname: it["fname"].as_str()?.to_string(),
                ok: it["ok"].as_bool()?,
                writes: it["writes"].as_array()?.iter().map(|w| Some(Write_ { name: w[0].as_str()?.to_string(), content: content_from(&w[1])? })).collect::<Option<Vec<_>>>()?,
            },
            "C" => {
                let bytes = lcov_content(&recs_from(&it["recs"])?);
                let outcome = grcov::parse_lcov(bytes.clone(), false).ok().map(|r| project(&r));
                Kind::C { bytes, outcome }
            }
            "L" => Kind::L {
                merge_fail: it["merge_fail"].as_bool()?,
                profdata: content_from(&it["profdata"])?,
                exports: it["exports"].as_array()?.iter().map(|e| {
                    if e.is_null() {
                        Some(None)
                    } else {
                        let bytes = lcov_content(&recs_from(e)?);
                        let o = grcov::parse_lcov(bytes.clone(), false).ok().map(|r| project(&r));
                        Some(Some((bytes, o)))
                    }
                }).collect::<Option<Vec<_>>>()?,
            },
            _ => return None,
        };
        items.push(It { fmt, kind });
    }
    Some((
        Scenario {
            style: c["style"].as_str()?.chars().next()?,
            guess: c["guess"].as_bool()?,
            branch: c["branch"].as_bool()?,
            binary: c["binary"].as_u64()? as u8,
            nbins: c["nbins"].as_u64()? as usize,
            items,
        },
        c["ext_gz"].as_bool()?,
    ))
}

/// corpus/C20/*.json whose op is one of this part's; true when the end-to-end witness was among them
fn corpus(rep: &mut Report, stubs: &Path) -> bool {
    let mut files: Vec<PathBuf> = std::fs::read_dir("/verif/corpus/C20").map(|d| d.flatten().map(|e| e.path()).collect()).unwrap_or_default();
    files.sort();
    let mut ran_e2e = false;
    for p in files {
        let case: Value = match std::fs::read_to_string(&p).ok().and_then(|t| serde_json::from_str(&t).ok()) {
            Some(v) => v,
            None => continue,
        };
        match case["op"].as_str().unwrap_or("") {
            "c20.cons.corpus" => {
                rep.count("cons.corpus.cases");
                match scenario_from_json(&case) {
                    Some((sc, gz)) => run_batch(rep, stubs, gz, vec![sc], "corpus", None, Some(&case)),
                    None => rep.notes.push(format!("consumer: corpus file {} is not a scenario", p.display())),
                }
            }
            "c20.cons.e2e-profdata" => {
                rep.count("cons.corpus.cases");
                e2e_profdata(rep);
                ran_e2e = true;
            }
            _ => {}
        }
    }
    ran_e2e
}

pub fn run(rep: &mut Report) {
    let t0 = std::time::Instant::now();
    let mut rng = Rng::new(rep.seed ^ 0xC20C0);
    let stubs = stub_dir(rep);
    // minimised past failures first
    let ran_e2e = corpus(rep, &stubs);
    let n = rep.budget(150, 8);
    let all: Vec<Scenario> = (0..n).map(|_| gen_scenario(&mut rng, true)).collect();
    run_batch(rep, &stubs, true, all, "gz", None, None);
    let all: Vec<Scenario> = (0..n).map(|_| gen_scenario(&mut rng, false)).collect();
    run_batch(rep, &stubs, false, all, "text", None, None);
    version_stream(rep, &mut rng, &stubs);
    findbin_stream(rep, &mut rng);
    if !ran_e2e {
        e2e_profdata(rep);
    }
    eprintln!("c20 consumer part: {} ms", t0.elapsed().as_millis());
    rep.rule.push_str(
        "; Consumer: 1-6 work items per worker (notes files whose stub gcov follows the one-file convention, the \
         many-files convention, or neither; lcov/JaCoCo contents; LLVM gcno buffers; profile lists through stub llvm tools; \
         every format with every wrong item type), per-item outcome/contribution, final directory and gcov argv against \
         the Lean Consumer model, both gcov output extensions; gcov --version texts against parseVersion/outputExt; \
         binary trees against findBinaries; non-trivial = at least two items with a notes item",
    );
}

pub fn replay(rep: &mut Report, case: &Value) {
    let stubs = stub_dir(rep);
    match case["op"].as_str().unwrap_or("") {
        "c20.cons.run" => {
            // regenerate the batch of the recorded seed and run the recorded scenario only
            let seed = case["seed"].as_u64().unwrap_or(rep.seed);
            let n = case["n"].as_u64().unwrap_or(150);
            let index = case["index"].as_u64().unwrap_or(0) as usize;
            let gz = case["ext_gz"].as_bool().unwrap_or(true);
            rep.seed = seed;
            let mut rng = Rng::new(seed ^ 0xC20C0);
            if !gz {
                for _ in 0..n {
                    let _ = gen_scenario(&mut rng, true);
                }
            }
            let all: Vec<Scenario> = (0..n).map(|_| gen_scenario(&mut rng, gz)).collect();
            run_batch(rep, &stubs, gz, all, if gz { "gz" } else { "text" }, Some(index), None);
        }
        "c20.cons.corpus" => match scenario_from_json(case) {
            Some((sc, gz)) => run_batch(rep, &stubs, gz, vec![sc], "corpus", None, Some(case)),
            None => rep.notes.push("consumer: malformed corpus scenario".into()),
        },
        "c20.cons.e2e-profdata" => e2e_profdata(rep),
        "c20.cons.version" => {
            let t = case["text"].as_str().unwrap_or("").to_string();
            version_texts(rep, &stubs, vec![t]);
        }
        other => rep.notes.push(format!("consumer: no replay for {} (re-run ./check C20 with the same seed)", other)),
    }
}
