//! C20 part `MultiTu` — the GCC half on programs with SEVERAL work items (review item 14):
//! 2-6 translation units in sub-directories — among them digit-named ones (`0/`, `1/`, `2/`: the
//! names of the consumers' working directories) and `inputs/` —, one header with an inline
//! function shared by all units, every third program with a g++ unit whose templates are
//! instantiated several times (gcov >= 9 lists such a line once per instantiation: fix 5a9c87e),
//! 1-3 runs, and then `grcov` with `--threads` 1, 2, 3 and 8, the tree given as a directory or as
//! one zip of its gcno/gcda files, with and without `--branch`.
//!
//! Reference: `gcov -b -c -m` (grcov keys functions by gcov's `demangled_name`) run by this harness for EVERY unit on its own; per source file the SUM
//! over the units of the per-line counts gcov prints (for a template line the summary line, not
//! the per-instantiation blocks) and the OR of the `function … called N` flags. Independent of
//! grcov and of the model: it reads gcov's text format, grcov reads gcov's JSON.
use corrlib::pipe::*;
use corrlib::*;
use serde_json::json;
use std::collections::BTreeMap;
use std::io::Write;
use std::path::{Path, PathBuf};
use std::process::Command;
use std::time::Duration;

const DIRS: &[&str] = &["0", "1", "2", "src", "lib", "x", "a/b", "inputs", "0/1", "7"];

fn gen_body(rng: &mut Rng, s: &mut String) {
    for _ in 0..rng.range(1, 4) {
        match rng.below(6) {
            0 => s.push_str(&format!("  if (x > {}) {{\n    s += x;\n  }} else {{\n    s -= 1;\n  }}\n", rng.below(4))),
            1 => s.push_str(&format!("  for (int i = 0; i < x + {}; i++) {{\n    s += i;\n  }}\n", rng.below(3))),
            2 => s.push_str(&format!("  switch (x % 3) {{\n  case 0:\n    s += 1;\n    break;\n  case 1:\n    s += 2;\n  default:\n    s += {};\n  }}\n", rng.below(5))),
            3 => s.push_str(&format!("  if (x > 1 && s > {}) s++; else s--;\n", rng.below(3))),
            4 => s.push_str("  if (x == 7) return -1;\n"),
            _ => s.push_str("  s += sh_fn(x); s *= 2;\n"),
        }
    }
}

fn gen_c_unit(rng: &mut Rng, j: usize, k: usize) -> String {
    let mut s = String::from("#include <stdlib.h>\n#include \"shared.h\"\n\n");
    if rng.chance(1, 2) {
        s.push_str(&format!("static int helper_{}(int x)\n{{\n  int s = 1;\n", j));
        gen_body(rng, &mut s);
        s.push_str("  return s;\n}\n\n");
        s.push_str(&format!("int unused_{}(int x)\n{{\n  return helper_{}(x) + 1;\n}}\n\n", j, j));
    }
    s.push_str(&format!("int unit_{}(int x)\n{{\n  int s = 0;\n", j));
    gen_body(rng, &mut s);
    if rng.chance(2, 3) {
        s.push_str("  s += sh_fn(x + 1);\n");
    }
    s.push_str("  return s;\n}\n");
    if j == 0 {
        s.push('\n');
        for u in 1..k {
            s.push_str(&format!("int unit_{}(int x);\n", u));
        }
        s.push_str("\nint main(int argc, char **argv)\n{\n  int n = argc > 1 ? atoi(argv[1]) : 0;\n  int r = unit_0(n);\n");
        for u in 1..k {
            if rng.chance(2, 3) {
                s.push_str(&format!("  r += unit_{}(n);\n", u));
            } else {
                s.push_str(&format!("  if (n > {}) {{\n    r += unit_{}(n + 1);\n  }}\n", rng.below(4), u));
            }
        }
        s.push_str("  return r == 12345;\n}\n");
    }
    s
}

fn gen_cpp_unit(rng: &mut Rng, j: usize) -> String {
    let mut s = String::from("#include \"shared.h\"\n\ntemplate <typename T> T pick(T a, T b)\n{\n  if (a > b)\n    return a;\n  return b;\n}\n\n");
    s.push_str("template <typename T> struct Box {\n  T v;\n  Box(T x) : v(x) {}\n  T get() const\n  {\n    if (v > 5)\n      return v;\n    return v + 1;\n  }\n};\n\n");
    s.push_str(&format!("extern \"C\" int unit_{}(int x)\n{{\n  int s = 0;\n  s += (int)pick<long>(x, 3);\n", j));
    s.push_str(&format!("  if (x > {}) s += pick<int>(x, 1);\n", rng.below(5)));
    s.push_str("  if (x > 100) s += (int)pick<double>(x, 2.0);\n  Box<int> b(x);\n  s += b.get();\n");
    s.push_str(&format!("  if (x > {}) {{\n    Box<long> c(x);\n    s += (int)c.get();\n  }}\n", rng.below(6)));
    s.push_str("  s += sh_fn(x);\n  return s;\n}\n");
    s
}

const HEADER: &str = "static inline int sh_fn(int x)\n{\n  if (x > 2)\n    return x;\n  if (x < 0)\n    return -x;\n  return 0;\n}\n";

/// one `.gcov` text: its `Source:` path, line -> count (first occurrence: the summary line of a
/// template line comes before the per-instantiation blocks), function -> executed
fn read_gcov_file(text: &str) -> (String, BTreeMap<u32, u64>, BTreeMap<String, bool>) {
    let mut src = String::new();
    let mut lines: BTreeMap<u32, u64> = BTreeMap::new();
    let mut fns: BTreeMap<String, bool> = BTreeMap::new();
    for l in text.lines() {
        if let Some(rest) = l.strip_prefix("function ") {
            // `function <name, possibly with blanks> called <n> returned …`
            if let Some(at) = rest.rfind(" called ") {
                let n = rest[at + 8..].split(' ').next().unwrap_or("0");
                let e = fns.entry(rest[..at].to_string()).or_insert(false);
                *e = *e || n != "0";
            }
            continue;
        }
        let p: Vec<&str> = l.splitn(3, ':').collect();
        if p.len() < 3 {
            continue;
        }
        let cnt = p[0].trim();
        let no: u32 = match p[1].trim().parse() {
            Ok(n) => n,
            Err(_) => continue,
        };
        if no == 0 {
            if let Some(s) = p[2].strip_prefix("Source:") {
                src = s.to_string();
            }
            continue;
        }
        if cnt == "-" {
            continue;
        }
        let c = cnt.trim_end_matches('*');
        let v: u64 = if c == "#####" || c == "=====" || c == "$$$$$" || c == "%%%%%" { 0 } else { c.parse().unwrap_or(u64::MAX) };
        lines.entry(no).or_insert(v);
    }
    (src, lines, fns)
}

fn collect(dir: &Path, base: &Path, exts: &[&str], out: &mut Vec<PathBuf>) {
    if let Ok(rd) = std::fs::read_dir(dir) {
        for e in rd.flatten() {
            let p = e.path();
            if p.is_dir() {
                collect(&p, base, exts, out);
            } else if p.extension().and_then(|x| x.to_str()).map(|x| exts.contains(&x)).unwrap_or(false) {
                out.push(p.strip_prefix(base).unwrap().to_path_buf());
            }
        }
    }
}

pub fn run(rep: &mut Report) {
    let mut rng = Rng::new(rep.seed ^ 0xC20_717);
    let n = rep.budget(5, 6);
    for c in 0..n {
        if rep.verdict_clear() {
            break;
        }
        let root = rep.workdir.join(format!("mtu{}", c)).join("build");
        let _ = std::fs::remove_dir_all(root.parent().unwrap());
        std::fs::create_dir_all(root.join("inc")).unwrap();
        std::fs::write(root.join("inc/shared.h"), HEADER).unwrap();
        let k = rng.range(2, 6) as usize;
        let cpp_at = if c % 3 == 0 { Some(rng.range(1, k as u64 - 1) as usize) } else { None };
        // distinct directories; the first two programs always have `0/` and `1/`
        let mut dirs: Vec<&str> = DIRS.to_vec();
        rng.shuffle(&mut dirs);
        if c < 2 {
            dirs.retain(|d| *d != "0" && *d != "1");
            dirs.insert(0, "1");
            dirs.insert(0, "0");
        }
        let mut units: Vec<(String, String, bool)> = vec![]; // (source path, text, is C++)
        for j in 0..k {
            let cpp = cpp_at == Some(j);
            let path = format!("{}/u{}.{}", dirs[j], j, if cpp { "cpp" } else { "c" });
            let text = if cpp { gen_cpp_unit(&mut rng, j) } else { gen_c_unit(&mut rng, j, k) };
            std::fs::create_dir_all(root.join(dirs[j])).unwrap();
            std::fs::write(root.join(&path), &text).unwrap();
            units.push((path, text, cpp));
        }
        let mut objs = vec![];
        let mut ok = true;
        for (path, _, cpp) in &units {
            let obj = Path::new(path).with_extension("o");
            let st = Command::new(if *cpp { "g++" } else { "gcc" })
                .current_dir(&root)
                .args(["--coverage", "-O0", "-I", "inc", "-c", path.as_str(), "-o", obj.to_str().unwrap()])
                .status();
            ok &= st.map(|s| s.success()).unwrap_or(false);
            objs.push(obj.to_str().unwrap().to_string());
        }
        if ok {
            let mut cmd = Command::new(if cpp_at.is_some() { "g++" } else { "gcc" });
            cmd.current_dir(&root).args(["--coverage", "-o", "prog"]).args(&objs);
            ok = cmd.status().map(|s| s.success()).unwrap_or(false);
        }
        if !ok {
            rep.notes.push("multitu: gcc/g++ failed on a generated program (generator bug or no compiler)".into());
            rep.count("multitu.compile_failed");
            continue;
        }
        let runs = rng.range(1, 3);
        let mut run_args = vec![];
        for _ in 0..runs {
            let a = rng.below(10).to_string();
            let _ = Command::new("./prog").current_dir(&root).arg(&a).status();
            run_args.push(a);
        }
        let _ = std::fs::remove_file(root.join("prog"));
        for o in &objs {
            let _ = std::fs::remove_file(root.join(o));
        }
        // ---- reference: gcov -b -c per unit, summed per source file
        let mut want: BTreeMap<String, (BTreeMap<u32, u64>, BTreeMap<String, bool>)> = BTreeMap::new();
        let refdir = root.parent().unwrap().join("ref");
        for (j, (path, _, _)) in units.iter().enumerate() {
            let gcda = Path::new(path).with_extension("gcda");
            let target = if root.join(&gcda).exists() { gcda } else { Path::new(path).with_extension("gcno") };
            let _ = Command::new("gcov").current_dir(&root).args(["-b", "-c", "-m", target.to_str().unwrap()]).output();
            let udir = refdir.join(j.to_string());
            std::fs::create_dir_all(&udir).unwrap();
            if let Ok(rd) = std::fs::read_dir(&root) {
                for e in rd.flatten() {
                    let p = e.path();
                    if p.extension().and_then(|x| x.to_str()) == Some("gcov") {
                        let text = std::fs::read_to_string(&p).unwrap_or_default();
                        let _ = std::fs::remove_file(&p);
                        let (src, lines, fns) = read_gcov_file(&text);
                        if src.starts_with('/') {
                            continue; // system headers
                        }
                        let e = want.entry(src).or_default();
                        for (l, v) in lines {
                            let x = e.0.entry(l).or_insert(0);
                            *x = x.saturating_add(v);
                        }
                        for (f, ex) in fns {
                            let x = e.1.entry(f).or_insert(false);
                            *x = *x || ex;
                        }
                    }
                }
            }
        }
        // ---- the same tree as one zip
        let mut files = vec![];
        collect(&root, &root, &["gcno", "gcda"], &mut files);
        files.sort();
        let zip_path = root.parent().unwrap().join("all.zip");
        {
            let f = std::fs::File::create(&zip_path).unwrap();
            let mut z = zip::ZipWriter::new(f);
            let o = zip::write::SimpleFileOptions::default().compression_method(zip::CompressionMethod::Stored);
            for p in &files {
                z.start_file(p.to_str().unwrap(), o).unwrap();
                z.write_all(&std::fs::read(root.join(p)).unwrap()).unwrap();
            }
            z.finish().unwrap();
        }
        let case = json!({"op": "c20.multitu", "units": units.iter().map(|u| json!({"path": u.0, "text": u.1})).collect::<Vec<_>>(),
            "header": HEADER, "run_args": run_args});
        rep.case(&format!("multitu {:?} {:?}", units.iter().map(|u| (&u.0, fnv64(u.1.as_bytes()))).collect::<Vec<_>>(), run_args), true);
        rep.count(&format!("multitu.units={}", k));
        rep.count(&format!("multitu.runs={}", runs));
        if cpp_at.is_some() {
            rep.count("multitu.with_template_unit");
        }
        if units.iter().any(|u| u.0.starts_with("0/") || u.0.starts_with("1/") || u.0.starts_with("2/") || u.0.starts_with("7/")) {
            rep.count("multitu.with_digit_named_directory");
        }
        let shared_units = want.get("inc/shared.h").map(|w| w.0.len()).unwrap_or(0);
        if shared_units > 0 {
            rep.count("multitu.shared_header_reported");
        }
        if c == 0 {
            rep.sample(json!({"units": units.iter().map(|u| u.0.clone()).collect::<Vec<_>>(), "run_args": run_args}));
        }
        for threads in [1usize, 2, 3, 8] {
            let as_zip = rng.chance(1, 2);
            let branch = rng.chance(1, 2);
            let mut extra: Vec<String> = vec!["-t".into(), "lcov".into(), "--no-demangle".into()];
            if branch {
                extra.push("--branch".into());
            }
            let out = run_grcov(&RunCfg {
                dir: &root,
                args: vec![if as_zip { "../all.zip".into() } else { ".".into() }],
                threads,
                perturb: None,
                fault: None,
                limit: Duration::from_secs(120),
                extra,
            });
            rep.count(&format!("multitu.grcov.threads={}", threads));
            rep.count(if as_zip { "multitu.grcov.input=zip" } else { "multitu.grcov.input=directory" });
            let how = format!("threads={} input={} branch={}", threads, if as_zip { "zip" } else { "directory" }, branch);
            if out.exit != Some(0) {
                rep.fail("oracle", None, format!("grcov exited with {:?} on gcc coverage data of {} units ({}): {}", out.exit, k, how, out.stderr.lines().last().unwrap_or("")), case.clone());
                continue;
            }
            let got = match decode_lcov_report(&out.stdout) {
                Ok(m) => m,
                Err(e) => {
                    rep.fail("oracle", None, format!("invalid lcov ({}): {}", how, e), case.clone());
                    continue;
                }
            };
            for (f, (wl, wf)) in &want {
                rep.count_n("multitu.lines_compared", wl.len() as u64);
                rep.count_n("multitu.functions_compared", wf.len() as u64);
                let g = got.iter().find(|(k, _)| k.as_str() == f.as_str() || k.ends_with(&format!("/{}", f))).map(|x| x.1);
                let (gl, gf): (BTreeMap<u32, u64>, BTreeMap<String, bool>) = match g {
                    Some(c) => (c.lines.clone(), c.functions.iter().map(|(n, f)| (n.clone(), f.executed)).collect()),
                    None => (BTreeMap::new(), BTreeMap::new()),
                };
                if &gl != wl || &gf != wf {
                    rep.fail("oracle", None,
                        format!("grcov's lines/functions for {} differ from the sum of what `gcov -b -c` prints per unit ({})", f, how),
                        json!({"case": case, "file": f, "how": how, "grcov_lines": format!("{:?}", gl), "gcov_lines": format!("{:?}", wl),
                               "grcov_fns": format!("{:?}", gf), "gcov_fns": format!("{:?}", wf)}));
                    break;
                }
            }
            // nothing but the program's own files
            for k in got.keys() {
                if !k.starts_with('/') && !want.contains_key(k.as_str()) {
                    rep.fail("oracle", None, format!("grcov reports {} which no unit's gcov output names ({})", k, how), case.clone());
                }
            }
        }
        let _ = std::fs::remove_dir_all(&refdir);
    }
    rep.rule.push_str(
        "; MultiTu: 2-6 gcc translation units in sub-directories incl. `0/`, `1/`, `inputs/` sharing one header, every third \
         program with a g++ template unit, 1-3 runs, grcov --threads 1/2/3/8 on the directory or one zip, against the per-file \
         SUM of per-unit `gcov -b -c` texts",
    );
}
