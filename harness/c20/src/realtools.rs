//! C20 part `RealTools` — ties to the REAL llvm-profdata / llvm-cov (14) and clang, in addition to
//! the recording stand-ins (review items 9 and 32):
//!
//! * `realtools.list` — the model of llvm-profdata's list-file syntax (`LlvmTools.parseList`,
//!   driver op `c20.llvm.list`) against `llvm-profdata merge -f -`: generated list texts (bare and
//!   weighted entries, padding blanks, CR, comments, empty and blank-only lines, bad weights
//!   `0`, `x`, `+2`, `2 `, 2^64, names with commas / a leading '#' / leading and trailing blanks / a
//!   leading `<digits>,`, a last line without newline) over real raw profiles in which profile `i`
//!   ran function `f<i>` once: after the merge, `llvm-profdata show` gives per function the sum of
//!   the weights under which its profile was taken — compared with what the model reads.
//! * `realtools.e2e` — `grcov` with `--llvm-path` pointing at the real tools, profiles of both
//!   kinds at names with commas, '#', blanks and digit-named directories, `--threads 2`: the report
//!   against this harness' own account (per kind: `llvm-profdata merge <files as arguments>`, then
//!   `llvm-cov export`; the per-file aggregate of the two exports).
//! * `realtools.twin` — the linked executable beside its object file and a hard link of it under
//!   `--binary-path`: the toolchain's own account counts every execution once, grcov exports all
//!   three files and reports three times the counts: named finding C20-same-program-exported-twice
//!   (matcher: the report equals the aggregate of one export per application-sniffed FILE while the
//!   distinct programs among them are fewer).
use corrlib::pipe::*;
use corrlib::*;
use serde_json::json;
use std::collections::BTreeMap;
use std::io::Write;
use std::path::{Path, PathBuf};
use std::process::{Command, Stdio};
use std::time::Duration;

pub const FINDING_TWIN: &str = "C20-same-program-exported-twice";
const NF: usize = 6;

fn tool(names: &[&str]) -> Option<PathBuf> {
    for n in names {
        let p = Path::new("/usr/bin").join(n);
        if p.exists() {
            return Some(p);
        }
    }
    None
}

fn program() -> String {
    let mut s = String::from("#include <stdlib.h>\n\n");
    for i in 0..NF {
        s.push_str(&format!("int f{}(int x)\n{{\n  if (x > {})\n    return x;\n  return 0;\n}}\n\n", i, i));
    }
    s.push_str("int main(int argc, char **argv)\n{\n  int n = argc > 1 ? atoi(argv[1]) : 0;\n  switch (n) {\n");
    for i in 0..NF {
        s.push_str(&format!("  case {}:\n    return f{}(n) == 77;\n", i, i));
    }
    s.push_str("  }\n  return 0;\n}\n");
    s
}

struct Kit {
    profdata: PathBuf,
    cov: PathBuf,
    dir: PathBuf,          // holds p.c, p, p.o, raw/p<i>.profraw
}

fn setup(rep: &mut Report) -> Option<Kit> {
    let clang = tool(&["clang-14", "clang"])?;
    let profdata = tool(&["llvm-profdata-14", "llvm-profdata"])?;
    let cov = tool(&["llvm-cov-14", "llvm-cov"])?;
    let dir = rep.workdir.join("rt");
    let _ = std::fs::remove_dir_all(&dir);
    std::fs::create_dir_all(dir.join("raw")).ok()?;
    std::fs::write(dir.join("p.c"), program()).ok()?;
    let flags = ["-fprofile-instr-generate", "-fcoverage-mapping", "-O0"];
    let ok1 = Command::new(&clang).current_dir(&dir).args(flags).args(["-c", "p.c", "-o", "p.o"]).status().map(|s| s.success()).unwrap_or(false);
    let ok2 = Command::new(&clang).current_dir(&dir).args(flags).args(["p.o", "-o", "p"]).status().map(|s| s.success()).unwrap_or(false);
    if !ok1 || !ok2 {
        return None;
    }
    for i in 0..NF {
        let _ = Command::new(dir.join("p")).current_dir(&dir).env("LLVM_PROFILE_FILE", dir.join(format!("raw/p{}.profraw", i))).arg(i.to_string()).status();
        if !dir.join(format!("raw/p{}.profraw", i)).exists() {
            return None;
        }
    }
    Some(Kit { profdata, cov, dir })
}

/// function name -> count, from `llvm-profdata show -all-functions`
fn show_counts(kit: &Kit, profdata: &Path) -> BTreeMap<String, u64> {
    let out = Command::new(&kit.profdata).args(["show", "-all-functions"]).arg(profdata).output();
    let text = out.map(|o| String::from_utf8_lossy(&o.stdout).to_string()).unwrap_or_default();
    let mut m = BTreeMap::new();
    let mut cur = String::new();
    for l in text.lines() {
        let t = l.trim();
        if l.starts_with("  ") && !l.starts_with("    ") && t.ends_with(':') {
            cur = t.trim_end_matches(':').to_string();
        } else if let Some(n) = t.strip_prefix("Function count: ") {
            if let Ok(v) = n.parse::<u64>() {
                m.insert(cur.clone(), v);
            }
        }
    }
    m
}

const NAMES: &[&str] = &[
    "a.profraw", "a,b.profraw", "#h.profraw", " lead.profraw", "trail.profraw ", "in ner.profraw",
    "3,w.profraw", "d/x,y/#z.profraw", "tab\t.profraw", "x.profraw\r", "q#r.profraw",
];

fn gen_list(rng: &mut Rng, present: &[(String, usize)]) -> Vec<u8> {
    let mut out: Vec<u8> = vec![];
    let nl = rng.range(1, 7);
    for li in 0..nl {
        let name: String = if rng.chance(1, 12) { "nosuch.profraw".into() } else { rng.pick(present).0.clone() };
        let w = rng.range(1, 9);
        let line: String = match rng.below(30) {
            0 | 1 | 2 => name.clone(),
            3..=12 => format!("{},{}", w, name),
            13 => format!("  {},{}  ", w, name),
            14 => format!("\t{},{}\r", w, name),
            15 => "# a comment, with a comma".into(),
            16 => format!("#{}", name),
            17 => String::new(),
            18 => "   ".into(),
            19 => format!("0,{}", name),
            20 => format!("x,{}", name),
            21 => format!("+2,{}", name),
            22 => format!("2 ,{}", name),
            23 => format!("{}, {}", w, name),
            24 => format!("18446744073709551616,{}", name),
            25 => format!("0{},{}", w, name),
            26 => format!(",{}", name),
            27 => format!(" #{}", name),
            28 => format!("1,{}", name),
            _ => format!("{},{}", w, name),
        };
        out.extend_from_slice(line.as_bytes());
        if li + 1 < nl || rng.chance(3, 4) {
            out.push(b'\n');
        }
    }
    out
}

fn list_stream(rep: &mut Report, rng: &mut Rng, kit: &Kit) {
    let n = rep.budget(45, 6);
    let base = rep.workdir.join("rt_list");
    let _ = std::fs::remove_dir_all(&base);
    std::fs::create_dir_all(base.join("d/x,y")).unwrap();
    // every name holds one of the raw profiles
    let mut present: Vec<(String, usize)> = vec![];
    for (i, name) in NAMES.iter().enumerate() {
        let idx = i % NF;
        std::fs::copy(kit.dir.join(format!("raw/p{}.profraw", idx)), base.join(name)).unwrap();
        present.push((name.to_string(), idx));
    }
    let mut reqs = vec![];
    let mut seen: Vec<(String, serde_json::Value)> = vec![];
    for c in 0..n {
        // the first cases are what grcov writes (today and before fix 4f2eb74) for names it can meet
        let list: Vec<u8> = match c {
            0 => b"1,a,b.profraw\n1,#h.profraw\n1, lead.profraw\n1,3,w.profraw\n1,d/x,y/#z.profraw\n".to_vec(),
            1 => b"a,b.profraw\n".to_vec(),
            2 => b"#h.profraw\na.profraw\n".to_vec(),
            3 => b"1,trail.profraw \n".to_vec(),
            4 => b"1,in ner.profraw\n1,q#r.profraw\n1,a.profraw\n1,a.profraw\n".to_vec(),
            _ => gen_list(rng, &present),
        };
        let out = base.join("out.profdata");
        let _ = std::fs::remove_file(&out);
        let mut child = Command::new(&kit.profdata)
            .current_dir(&base)
            .args(["merge", "-f", "-", "-sparse", "-o"])
            .arg(&out)
            .stdin(Stdio::piped())
            .stdout(Stdio::null())
            .stderr(Stdio::piped())
            .spawn()
            .expect("cannot start llvm-profdata");
        child.stdin.take().unwrap().write_all(&list).unwrap();
        let o = child.wait_with_output().unwrap();
        let real: String = if !o.status.success() {
            "err".into()
        } else {
            let m = show_counts(kit, &out);
            (0..NF).map(|i| format!("f{}={}", i, m.get(&format!("f{}", i)).copied().unwrap_or(0))).collect::<Vec<_>>().join(" ")
                + &format!(" main={}", m.get("main").copied().unwrap_or(0))
        };
        rep.case(&format!("rtlist {}", hex(&list)), real != "err");
        rep.count(if real == "err" { "realtools.list.tool_error" } else { "realtools.list.merged" });
        reqs.push(format!("c20.llvm.list {}", hex(&list)));
        seen.push((real, json!({"op": "c20.realtools.list", "list_hex": hex(&list), "list": String::from_utf8_lossy(&list), "stderr": String::from_utf8_lossy(&o.stderr).lines().last().unwrap_or("").to_string()})));
    }
    let ans = run_model(&reqs, &rep.workdir, "rtlist");
    for i in 0..reqs.len() {
        // the model's reading, turned into the counts the merged profile must show
        let want: String = if ans[i] == "err" || ans[i] == "-" {
            "err".into() // a bad weight; no input at all ("no input files specified")
        } else {
            let mut cnt = vec![0u64; NF];
            let mut total = 0u64;
            let mut missing = false;
            for e in ans[i].split(',') {
                let (w, h) = e.split_once(':').unwrap_or(("0", ""));
                let name = String::from_utf8_lossy(&unhex(h)).to_string();
                match present.iter().find(|p| p.0 == name) {
                    Some(p) => {
                        cnt[p.1] += w.parse::<u64>().unwrap_or(0);
                        total += w.parse::<u64>().unwrap_or(0);
                    }
                    None => missing = true,
                }
            }
            if missing {
                "err".into()
            } else {
                (0..NF).map(|i| format!("f{}={}", i, cnt[i])).collect::<Vec<_>>().join(" ") + &format!(" main={}", total)
            }
        };
        if want != seen[i].0 {
            rep.disagreements_checked += 1;
            rep.fail("disagreement", None, "the model of llvm-profdata's list syntax and the real llvm-profdata differ".into(),
                json!({"case": seen[i].1, "model_reads": ans[i], "model_counts": want, "real_counts": seen[i].0}));
        }
    }
}

fn export(kit: &Kit, binary: &Path, profdata: &Path) -> Option<Vec<u8>> {
    let o = Command::new(&kit.cov).arg("export").arg(binary).arg("--instr-profile").arg(profdata).args(["--format", "lcov"]).output().ok()?;
    if o.status.success() { Some(o.stdout) } else { None }
}

fn own_account(kit: &Kit, work: &Path, binaries: &[PathBuf], items: &[Vec<PathBuf>]) -> String {
    let mut inputs: Vec<Input> = vec![];
    for (i, files) in items.iter().enumerate() {
        if files.is_empty() {
            continue;
        }
        let m = work.join(format!("own{}.profdata", i));
        let ok = Command::new(&kit.profdata).args(["merge", "-sparse", "-o"]).arg(&m).args(files).status().map(|s| s.success()).unwrap_or(false);
        if !ok {
            continue;
        }
        for b in binaries {
            if let Some(bytes) = export(kit, b, &m) {
                if let Ok(parsed) = grcov::parse_lcov(bytes.clone(), false) {
                    inputs.push(Input { name: String::new(), format: "Info", id: String::new(), bytes, parsed });
                }
            }
        }
    }
    let refs: Vec<&Input> = inputs.iter().collect();
    show_map(&aggregate(&refs))
}

fn tools_dir(rep: &Report, kit: &Kit) -> PathBuf {
    let d = rep.workdir.join("rt_tools");
    let _ = std::fs::remove_dir_all(&d);
    std::fs::create_dir_all(&d).unwrap();
    std::os::unix::fs::symlink(&kit.profdata, d.join("llvm-profdata")).unwrap();
    std::os::unix::fs::symlink(&kit.cov, d.join("llvm-cov")).unwrap();
    d
}

fn e2e_stream(rep: &mut Report, rng: &mut Rng, kit: &Kit) {
    let n = rep.budget(3, 5);
    let tools = tools_dir(rep, kit);
    const DIRS: &[&str] = &["0", "1", "a,b", "#c", " lead", "in ner", "inputs", "x#y,z", "plain", "1,x"];
    for c in 0..n {
        let dir = rep.workdir.join(format!("rt_e2e{}", c));
        let _ = std::fs::remove_dir_all(&dir);
        std::fs::create_dir_all(dir.join("cwd")).unwrap();
        std::fs::create_dir_all(dir.join("bin")).unwrap();
        std::fs::copy(kit.dir.join("p"), dir.join("bin/p")).unwrap();
        let mut raw_files: Vec<PathBuf> = vec![];
        let mut idx_files: Vec<PathBuf> = vec![];
        let mut layout: Vec<String> = vec![];
        for i in 0..NF {
            // the first program always has the witnesses of the fixed findings: a comma and a
            // leading '#' in a profile path, a top directory named like a worker directory
            let dname: &str = match (c, i) { (0, 0) => "a,b", (0, 1) => "0", _ => *rng.pick(DIRS) };
            let d = dir.join("in").join(dname).join(format!("u{}", i));
            std::fs::create_dir_all(&d).unwrap();
            let src = kit.dir.join(format!("raw/p{}.profraw", i));
            let fname: &str = match (c, i) { (0, 0) => "#h", (0, 1) => "a,b", _ => *rng.pick(&["default", "a,b", "#h", " s", "t u"]) };
            if rng.chance(1, 3) {
                // an indexed profile made of this raw one
                let p = d.join(format!("{}.profdata", fname));
                let _ = Command::new(&kit.profdata).args(["merge", "-sparse", "-o"]).arg(&p).arg(&src).status();
                idx_files.push(p.clone());
                layout.push(p.strip_prefix(&dir).unwrap().to_str().unwrap().to_string());
            } else {
                let p = d.join(format!("{}.profraw", fname));
                std::fs::copy(&src, &p).unwrap();
                raw_files.push(p.clone());
                layout.push(p.strip_prefix(&dir).unwrap().to_str().unwrap().to_string());
            }
        }
        let threads = *rng.pick(&[2usize, 2, 4]);
        let out = run_grcov(&RunCfg {
            dir: &dir.join("cwd"),
            args: vec!["../in".into()],
            threads,
            perturb: None,
            fault: None,
            limit: Duration::from_secs(120),
            extra: vec!["-t".into(), "lcov".into(), "--no-demangle".into(), "--binary-path".into(), "../bin".into(), "--llvm-path".into(), tools.to_str().unwrap().into()],
        });
        let case = json!({"op": "c20.realtools.e2e", "profiles": layout, "threads": threads});
        rep.case(&format!("rte2e {:?}", layout), !raw_files.is_empty() && !idx_files.is_empty());
        rep.count(&format!("realtools.e2e.items={}", (!raw_files.is_empty()) as u8 + (!idx_files.is_empty()) as u8));
        if out.exit != Some(0) {
            rep.fail("oracle", None, format!("grcov exited with {:?} with the real LLVM tools: {}", out.exit, out.stderr.lines().last().unwrap_or("")), case);
            continue;
        }
        let want = own_account(kit, &dir, &[dir.join("bin/p")], &[idx_files.clone(), raw_files.clone()]);
        let got = decode_lcov_report(&out.stdout).map(|m| show_map(&m));
        if got.as_ref().ok() != Some(&want) || want.is_empty() {
            rep.fail("oracle", None, "with the real llvm-profdata/llvm-cov the report differs from the toolchain's own account (per profile kind: merge of the files given as arguments, export; aggregate of the exports)".into(),
                json!({"case": case, "report": got, "own_account": want, "grcov_stderr": out.stderr.lines().rev().take(3).collect::<Vec<_>>()}));
        }
    }
}

fn twin_case(rep: &mut Report, kit: &Kit) {
    let tools = tools_dir(rep, kit);
    let dir = rep.workdir.join("rt_twin");
    let _ = std::fs::remove_dir_all(&dir);
    std::fs::create_dir_all(dir.join("cwd")).unwrap();
    std::fs::create_dir_all(dir.join("bin/deps")).unwrap();
    std::fs::create_dir_all(dir.join("in")).unwrap();
    std::fs::copy(kit.dir.join("p"), dir.join("bin/p")).unwrap();
    std::fs::copy(kit.dir.join("p.o"), dir.join("bin/p.o")).unwrap();
    let _ = std::fs::hard_link(dir.join("bin/p"), dir.join("bin/deps/p-0a1b2c"));
    std::fs::copy(kit.dir.join("raw/p3.profraw"), dir.join("in/default.profraw")).unwrap();
    let out = run_grcov(&RunCfg {
        dir: &dir.join("cwd"),
        args: vec!["../in".into()],
        threads: 2,
        perturb: None,
        fault: None,
        limit: Duration::from_secs(120),
        extra: vec!["-t".into(), "lcov".into(), "--no-demangle".into(), "--binary-path".into(), "../bin".into(), "--llvm-path".into(), tools.to_str().unwrap().into()],
    });
    let case = json!({"op": "c20.realtools.twin", "binary_path": ["p", "p.o", "deps/p-0a1b2c (hard link of p)"]});
    rep.case("rttwin", true);
    rep.count("realtools.twin.case");
    if out.exit != Some(0) {
        rep.fail("oracle", None, format!("grcov exited with {:?}", out.exit), case);
        return;
    }
    let files = vec![dir.join("in/default.profraw")];
    // the program once: what the toolchain says about this one execution
    let want = own_account(kit, &dir, &[dir.join("bin/p")], &[files.clone()]);
    // every application-sniffed file on its own
    let all = own_account(kit, &dir, &[dir.join("bin/p"), dir.join("bin/p.o"), dir.join("bin/deps/p-0a1b2c")], &[files]);
    let got = decode_lcov_report(&out.stdout).map(|m| show_map(&m));
    if got.as_ref().ok() != Some(&want) {
        let named = got.as_ref().ok() == Some(&all) && all != want;
        if named {
            rep.count("realtools.twin.every_count_multiplied");
        }
        rep.fail("oracle", if named { Some(FINDING_TWIN) } else { None },
            "one program present three times under --binary-path (executable, its object file, a hard link): the report is not the toolchain's account of the one execution".into(),
            json!({"case": case, "report": got, "own_account": want, "one_export_per_file": all}));
    }
}

/// a raw profile below a directory whose name contains a line feed, beside an indexed one: with the
/// real llvm-profdata the raw item's merge fails ("No such file or directory" for the first half of
/// the split name) and everything that item holds is lost, exit status 0
fn newline_case(rep: &mut Report, kit: &Kit) {
    let tools = tools_dir(rep, kit);
    let dir = rep.workdir.join("rt_nl");
    let _ = std::fs::remove_dir_all(&dir);
    std::fs::create_dir_all(dir.join("cwd")).unwrap();
    std::fs::create_dir_all(dir.join("bin")).unwrap();
    std::fs::create_dir_all(dir.join("in/nl\nx")).unwrap();
    std::fs::create_dir_all(dir.join("in/ok")).unwrap();
    std::fs::copy(kit.dir.join("p"), dir.join("bin/p")).unwrap();
    let raw = vec![dir.join("in/nl\nx/default.profraw"), dir.join("in/ok/default.profraw")];
    std::fs::copy(kit.dir.join("raw/p1.profraw"), &raw[0]).unwrap();
    std::fs::copy(kit.dir.join("raw/p2.profraw"), &raw[1]).unwrap();
    let idx = vec![dir.join("in/ok/i.profdata")];
    let _ = Command::new(&kit.profdata).args(["merge", "-sparse", "-o"]).arg(&idx[0]).arg(kit.dir.join("raw/p4.profraw")).status();
    let out = run_grcov(&RunCfg {
        dir: &dir.join("cwd"),
        args: vec!["../in".into()],
        threads: 2,
        perturb: None,
        fault: None,
        limit: Duration::from_secs(120),
        extra: vec!["-t".into(), "lcov".into(), "--no-demangle".into(), "--binary-path".into(), "../bin".into(), "--llvm-path".into(), tools.to_str().unwrap().into()],
    });
    let case = json!({"op": "c20.realtools.newline", "profiles": ["in/nl\\nx/default.profraw", "in/ok/default.profraw", "in/ok/i.profdata"]});
    rep.case("rtnewline", true);
    rep.count("realtools.newline.case");
    if out.exit != Some(0) {
        rep.fail("oracle", None, format!("grcov exited with {:?}", out.exit), case);
        return;
    }
    let want = own_account(kit, &dir, &[dir.join("bin/p")], &[idx.clone(), raw]);
    let without_raw_item = own_account(kit, &dir, &[dir.join("bin/p")], &[idx]);
    let got = decode_lcov_report(&out.stdout).map(|m| show_map(&m));
    if got.as_ref().ok() != Some(&want) {
        let named = got.as_ref().ok() == Some(&without_raw_item);
        if named {
            rep.count("realtools.newline.raw_item_lost");
        }
        rep.fail("oracle", if named { Some(super::llvmrun::FINDING_UNLISTABLE) } else { None },
            "a profile below a directory with a line feed in its name: the report is not the toolchain's own account of all profiles".into(),
            json!({"case": case, "report": got, "own_account": want, "account_without_the_raw_item": without_raw_item}));
    }
}

pub fn run(rep: &mut Report) {
    let mut rng = Rng::new(rep.seed ^ 0xC20_7001);
    let kit = match setup(rep) {
        Some(k) => k,
        None => {
            rep.notes.push("realtools: clang / llvm-profdata / llvm-cov not usable here: the real-tool ties were skipped".into());
            rep.count("realtools.skipped");
            return;
        }
    };
    list_stream(rep, &mut rng, &kit);
    e2e_stream(rep, &mut rng, &kit);
    twin_case(rep, &kit);
    newline_case(rep, &kit);
    rep.rule.push_str(
        "; RealTools: list texts for `llvm-profdata merge -f -` over real raw profiles (model of the list syntax against the \
         merged counts); grcov with the real LLVM tools on profiles of both kinds at names with commas/'#'/blanks against \
         the toolchain's own account; one program three times under --binary-path",
    );
}
