//! C20 — coverage obtained through external tools.
//! LLVM half: recording stand-ins for llvm-profdata / llvm-cov under --llvm-path; layouts of
//! profile files over directories / zips / plain arguments and binary-path trees with executables,
//! non-executables and failing binaries; the tools' logs and the report are compared with the
//! Lean `LlvmTools` model and with the independent aggregate of the canned lcov exports.
//! GCC half: generated C programs, gcc --coverage, 0-3 runs, grcov (through real gcov) against an
//! independent reader of `gcov -b -c` text, for several thread counts.
use corrlib::lcov::*;
use corrlib::pipe::*;
use corrlib::*;
use grcov::CovResult;
use serde_json::json;
use std::collections::BTreeMap;
use std::io::Write;
use std::path::Path;
use std::process::Command;
use std::time::Duration;

mod consumer;
mod llvmtree;

const PROFDATA_STUB: &str = r#"#!/bin/sh
# recording stand-in for llvm-profdata: logs argv and, for every path listed on stdin, the id
# stored in the file it names
log="$STUB_LOG"
out=""
prev=""
for a in "$@"; do
  if [ "$prev" = "-o" ]; then out="$a"; fi
  prev="$a"
done
{
  printf 'PROFDATA'
  for a in "$@"; do
    if [ "$a" = "$out" ]; then printf ' <out>'; else printf ' %s' "$a"; fi
  done
  printf '\n'
  while IFS= read -r line; do
    if [ -f "$line" ]; then printf 'PROFILE %s\n' "$(cat "$line")"; else printf 'PROFILE missing:%s\n' "$line"; fi
  done
  printf 'END\n'
} >> "$log.$$"
cat "$log.$$" >> "$log"; rm -f "$log.$$"
echo merged > "$out"
exit 0
"#;

const COV_STUB: &str = r#"#!/bin/sh
# recording stand-in for llvm-cov: `export <binary> --instr-profile <p> --format lcov`
log="$STUB_LOG"
bin="$2"
printf 'COV %s %s %s %s %s\n' "$1" "$(basename "$bin")" "$3" "$5" "$6" >> "$log"
if [ -f "$bin.fail" ]; then echo "stub: cannot export $bin" >&2; exit 1; fi
cat "$bin.lcov"
exit 0
"#;

fn write_exec(path: &Path, text: &str) {
    std::fs::write(path, text).unwrap();
    use std::os::unix::fs::PermissionsExt;
    std::fs::set_permissions(path, std::fs::Permissions::from_mode(0o755)).unwrap();
}

fn llvm_half(rep: &mut Report, rng: &mut Rng) {
    let n = rep.budget(80, 6);
    let stubs = rep.workdir.join("stubs");
    std::fs::create_dir_all(&stubs).unwrap();
    write_exec(&stubs.join("llvm-profdata"), PROFDATA_STUB);
    write_exec(&stubs.join("llvm-cov"), COV_STUB);
    let mut reqs = vec![];
    let mut observed = vec![];
    for c in 0..n {
        let dir = rep.workdir.join(format!("llvm{}", c));
        let _ = std::fs::remove_dir_all(&dir);
        std::fs::create_dir_all(dir.join("cwd")).unwrap();
        // ---- profiles: k files with unique ids, spread over a directory, a zip and plain args
        let k = rng.range(1, 6) as usize;
        let mut args: Vec<String> = vec![];
        let mut ids: Vec<String> = vec![];
        let mut zip_entries: Vec<(String, String)> = vec![];
        std::fs::create_dir_all(dir.join("profdir/sub")).unwrap();
        let mut dir_used = false;
        for i in 0..k {
            let id = format!("profile-{}-{}", c, i);
            ids.push(id.clone());
            match rng.below(3) {
                // half of the profiles share the file name `default.profraw` (what every instrumented
                // binary writes) and differ only by their directory
                0 => {
                    let p = if rng.chance(1, 2) {
                        std::fs::create_dir_all(dir.join(format!("profdir/svc{}", i))).unwrap();
                        format!("profdir/svc{}/default.profraw", i)
                    } else if rng.chance(1, 2) {
                        format!("profdir/p{}.profraw", i)
                    } else {
                        format!("profdir/sub/p{}.profraw", i)
                    };
                    std::fs::write(dir.join(&p), &id).unwrap();
                    dir_used = true;
                }
                1 => zip_entries.push((if rng.chance(1, 2) { format!("z/svc{}/default.profraw", i) } else { format!("z/p{}.profraw", i) }, id)),
                _ => {
                    let p = format!("plain{}.profraw", i);
                    std::fs::write(dir.join(&p), &id).unwrap();
                    args.push(format!("../{}", p));
                }
            }
        }
        if dir_used {
            args.push("../profdir".into());
        }
        if !zip_entries.is_empty() {
            let f = std::fs::File::create(dir.join("profiles.zip")).unwrap();
            let mut z = zip::ZipWriter::new(f);
            let o = zip::write::SimpleFileOptions::default().compression_method(zip::CompressionMethod::Stored);
            for (name, id) in &zip_entries {
                z.start_file(name.as_str(), o).unwrap();
                z.write_all(id.as_bytes()).unwrap();
            }
            z.finish().unwrap();
            args.push("../profiles.zip".into());
        }
        rng.shuffle(&mut args);
        // ---- binary tree
        let nb = rng.range(1, 5) as usize;
        let mut bins: Vec<(String, bool, Vec<u8>)> = vec![]; // name, fails, lcov
        std::fs::create_dir_all(dir.join("bins/nested/deeper")).unwrap();
        let cfg = GenCfg { allow_zero_taken: true, allow_first_branch_nonzero: true, allow_overflow_sum: true, allow_non_ascii: false };
        for b in 0..nb {
            let name = format!("bin{}", b);
            let sub = *rng.pick(&["", "nested/", "nested/deeper/"]);
            let path = dir.join("bins").join(format!("{}{}", sub, name));
            let mut elf = vec![0x7f, b'E', b'L', b'F', 2, 1, 1, 0];
            elf.extend_from_slice(&[0u8; 200]);
            std::fs::write(&path, &elf).unwrap();
            let fails = rng.chance(1, 4);
            let mut secs = vec![gen_section(rng, &cfg)];
            secs[0].sf = rng.pick(&["src/a.rs", "src/b.rs", "lib/c.rs"]).to_string();
            secs[0].pre.clear();
            for r in secs[0].recs.iter_mut() {
                if let Rec::Fn(st, n) = r {
                    *st = 10 + (fnv64(n.as_bytes()) % 50) as u32;
                }
            }
            let lcov = render(&secs, false);
            std::fs::write(format!("{}.lcov", path.display()), &lcov).unwrap();
            if fails {
                std::fs::write(format!("{}.fail", path.display()), "x").unwrap();
            }
            bins.push((name, fails, lcov));
        }
        // decoys: not executables
        std::fs::write(dir.join("bins/readme.txt"), "hello").unwrap();
        std::fs::write(dir.join("bins/nested/empty"), "").unwrap();
        std::fs::write(dir.join("bins/nested/script.sh"), "#!/bin/sh\necho\n").unwrap();
        let threads = *rng.pick(&[1usize, 2, 4]);
        let log = dir.join("stub.log");
        std::env::set_var("STUB_LOG", &log);
        let out = run_grcov(&RunCfg {
            dir: &dir.join("cwd"),
            args: args.clone(),
            threads,
            perturb: None,
            fault: None,
            limit: Duration::from_secs(60),
            extra: vec!["-t".into(), "lcov".into(), "--branch".into(), "--no-demangle".into(),
                "--binary-path".into(), "../bins".into(), "--llvm-path".into(), stubs.to_str().unwrap().into()],
        });
        std::env::remove_var("STUB_LOG");
        let case = json!({"op": "llvm", "args": args, "profiles": ids, "threads": threads,
            "bins": bins.iter().map(|b| json!({"name": b.0, "fails": b.1, "lcov_hex": hex(&b.2)})).collect::<Vec<_>>()});
        rep.case(&format!("llvm {} {:?} {:?}", c, args, bins.iter().map(|b| (&b.0, b.1)).collect::<Vec<_>>()), bins.iter().any(|b| b.1) && k >= 2);
        rep.count(&format!("llvm.profiles={}", k));
        rep.count(&format!("llvm.failing_bins={}", bins.iter().filter(|b| b.1).count()));
        if c == 0 {
            rep.sample(case.clone());
        }
        if out.exit != Some(0) {
            rep.fail("oracle", None, format!("grcov exited with {:?}: {}", out.exit, out.stderr.lines().last().unwrap_or("")), case);
            continue;
        }
        let logtext = std::fs::read_to_string(&log).unwrap_or_default();
        let merges = logtext.lines().filter(|l| l.starts_with("PROFDATA")).count();
        let mut seen: Vec<String> = logtext.lines().filter_map(|l| l.strip_prefix("PROFILE ")).map(|s| s.to_string()).collect();
        seen.sort();
        let mut want_ids = ids.clone();
        want_ids.sort();
        let mut exported: Vec<String> = logtext.lines().filter(|l| l.starts_with("COV export ")).map(|l| l.split(' ').nth(2).unwrap().to_string()).collect();
        exported.sort();
        let mut want_bins: Vec<String> = bins.iter().map(|b| b.0.clone()).collect();
        want_bins.sort();
        if merges != 1 || seen != want_ids {
            rep.fail("oracle", None, format!("profiles handed to the merge tool: {:?} in {} invocation(s); expected each of {:?} exactly once in one invocation", seen, merges, want_ids), case.clone());
        }
        if exported != want_bins {
            rep.fail("oracle", None, format!("binaries exported: {:?}; expected each of {:?} exactly once", exported, want_bins), case.clone());
        }
        // report = aggregate of the successful exports
        let inputs: Vec<Input> = bins
            .iter()
            .filter(|b| !b.1)
            .map(|b| Input { name: b.0.clone(), format: "Info", id: String::new(), bytes: b.2.clone(), parsed: grcov::parse_lcov(b.2.clone(), true).unwrap() })
            .collect();
        let refs: Vec<&Input> = inputs.iter().collect();
        let want = show_map(&aggregate(&refs));
        let got = decode_lcov_report(&out.stdout).map(|m| show_map(&m));
        if got.as_ref().ok() != Some(&want) {
            rep.fail("oracle", None, "report differs from the aggregate of the successful exports".into(), json!({"case": case, "report": got, "aggregate": want}));
        }
        // model tie
        reqs.push(format!(
            "llvm.model {} {}",
            ids.iter().map(|i| hex(i.as_bytes())).collect::<Vec<_>>().join(","),
            bins.iter().map(|b| format!("{}:{}", hex(b.0.as_bytes()), if b.1 { "-".to_string() } else { hex(&b.2) })).collect::<Vec<_>>().join(",")
        ));
        observed.push((format!("profiles={} exports={} report={}", seen.len(), bins.iter().filter(|b| !b.1).count(), want), case));
    }
    let ans = run_model(&reqs, &rep.workdir, "llvm");
    for i in 0..reqs.len() {
        if ans[i] != observed[i].0 {
            rep.disagreements_checked += 1;
            rep.fail("disagreement", None, "LlvmTools model differs from the observed tool invocations/report".into(),
                json!({"case": observed[i].1, "observed": observed[i].0, "model": ans[i]}));
        }
    }
}

// ---------------------------------------------------------------------------------------------
fn gen_c_program(rng: &mut Rng) -> String {
    let nf = rng.range(1, 4);
    let mut s = String::from("#include <stdlib.h>\n#include \"hdr.h\"\n\n");
    for f in 0..nf {
        s.push_str(&format!("int f{}(int x)\n{{\n  int s = 0;\n", f));
        for _ in 0..rng.range(1, 4) {
            match rng.below(6) {
                0 => s.push_str(&format!("  if (x > {}) {{\n    s += x;\n  }} else {{\n    s -= 1;\n  }}\n", rng.below(4))),
                1 => s.push_str(&format!("  for (int i = 0; i < x + {}; i++) {{\n    s += i;\n  }}\n", rng.below(3))),
                2 => s.push_str(&format!("  switch (x % 3) {{\n  case 0:\n    s += 1;\n    break;\n  case 1:\n    s += 2;\n  default:\n    s += {};\n  }}\n", rng.below(5))),
                3 => s.push_str(&format!("  if (x > 1 && s > {}) s++; else s--;\n", rng.below(3))),
                4 => s.push_str("  if (x == 7) return -1;\n"),
                _ => s.push_str("  s += hdr_fn(x); s *= 2;\n"),
            }
        }
        s.push_str("  return s;\n}\n\n");
    }
    s.push_str("int unused_fn(int x)\n{\n  return x + 1;\n}\n\n");
    s.push_str("int main(int argc, char **argv)\n{\n  int n = argc > 1 ? atoi(argv[1]) : 0;\n  int r = 0;\n");
    for f in 0..nf {
        if rng.chance(2, 3) {
            s.push_str(&format!("  r += f{}(n);\n", f));
        } else {
            s.push_str(&format!("  if (n > {}) {{\n    r += f{}(n + 1);\n  }}\n", rng.below(4), f));
        }
    }
    s.push_str("  return r == 12345;\n}\n");
    s
}

/// (line -> count) and (function -> executed) read from `gcov -b -c` text
fn read_gcov_text(text: &str) -> (BTreeMap<u32, u64>, BTreeMap<String, bool>) {
    let mut lines = BTreeMap::new();
    let mut fns = BTreeMap::new();
    for l in text.lines() {
        if let Some(rest) = l.strip_prefix("function ") {
            let p: Vec<&str> = rest.split(' ').collect();
            if p.len() >= 3 && p[1] == "called" {
                fns.insert(p[0].to_string(), p[2] != "0");
            }
            continue;
        }
        let p: Vec<&str> = l.splitn(3, ':').collect();
        if p.len() < 3 {
            continue;
        }
        let cnt = p[0].trim();
        let no: u32 = match p[1].trim().parse() {
            Ok(n) => n,
            Err(_) => continue,
        };
        if no == 0 || cnt == "-" {
            continue;
        }
        let c = cnt.trim_end_matches('*');
        let v: u64 = if c == "#####" || c == "=====" { 0 } else { c.parse().unwrap_or(u64::MAX) };
        lines.insert(no, v);
    }
    (lines, fns)
}

fn gcc_half(rep: &mut Report, rng: &mut Rng) {
    let n = rep.budget(15, 8);
    for c in 0..n {
        let dir = rep.workdir.join(format!("gcc{}", c));
        let _ = std::fs::remove_dir_all(&dir);
        std::fs::create_dir_all(&dir).unwrap();
        let prog = gen_c_program(rng);
        std::fs::write(dir.join("prog.c"), &prog).unwrap();
        std::fs::write(dir.join("hdr.h"), "static inline int hdr_fn(int x)\n{\n  if (x > 2)\n    return x;\n  return 0;\n}\n").unwrap();
        let ok = Command::new("gcc").current_dir(&dir).args(["--coverage", "-O0", "-o", "prog", "prog.c"]).status().map(|s| s.success()).unwrap_or(false);
        if !ok {
            rep.notes.push("gcc failed on a generated program (generator bug)".into());
            continue;
        }
        let runs = rng.below(4);
        let mut argsv = vec![];
        for _ in 0..runs {
            let a = rng.below(9).to_string();
            let _ = Command::new("./prog").current_dir(&dir).arg(&a).status();
            argsv.push(a);
        }
        let case = json!({"op": "gcc", "program": prog, "run_args": argsv});
        rep.case(&format!("gcc {} {:?}", fnv64(prog.as_bytes()), argsv), runs > 0);
        rep.count(&format!("gcc.runs={}", runs));
        // reference: gcov text (a copy of the tree, so that grcov sees an untouched one)
        let refdir = dir.join("ref");
        std::fs::create_dir_all(&refdir).unwrap();
        for f in ["prog.c", "hdr.h", "prog-prog.gcno", "prog-prog.gcda", "prog.gcno", "prog.gcda"] {
            let _ = std::fs::copy(dir.join(f), refdir.join(f));
        }
        let gcda = if refdir.join("prog-prog.gcda").exists() { "prog-prog.gcda" } else if refdir.join("prog.gcda").exists() { "prog.gcda" } else { "" };
        let gcno = if refdir.join("prog-prog.gcno").exists() { "prog-prog.gcno" } else { "prog.gcno" };
        let target = if gcda.is_empty() { gcno } else { gcda };
        let _ = Command::new("gcov").current_dir(&refdir).args(["-b", "-c", target]).output();
        let mut want: BTreeMap<String, (BTreeMap<u32, u64>, BTreeMap<String, bool>)> = BTreeMap::new();
        for f in ["prog.c", "hdr.h"] {
            if let Ok(t) = std::fs::read_to_string(refdir.join(format!("{}.gcov", f))) {
                want.insert(f.to_string(), read_gcov_text(&t));
            }
        }
        let _ = std::fs::remove_dir_all(&refdir);
        let _ = std::fs::remove_file(dir.join("prog"));
        for threads in [1usize, 3] {
            let out = run_grcov(&RunCfg {
                dir: &dir,
                args: vec![".".into()],
                threads,
                perturb: None,
                fault: None,
                limit: Duration::from_secs(120),
                extra: vec!["-t".into(), "lcov".into(), "--no-demangle".into()],
            });
            if out.exit != Some(0) {
                rep.fail("oracle", None, format!("grcov exited with {:?} on gcc coverage data: {}", out.exit, out.stderr.lines().last().unwrap_or("")), case.clone());
                continue;
            }
            let got = match decode_lcov_report(&out.stdout) {
                Ok(m) => m,
                Err(e) => {
                    rep.fail("oracle", None, format!("invalid lcov: {}", e), case.clone());
                    continue;
                }
            };
            for (f, (wl, wf)) in &want {
                rep.count_n("gcc.lines_compared", wl.len() as u64);
                rep.count_n("gcc.functions_compared", wf.len() as u64);
                rep.count_n("gcc.lines_with_count_gt0", wl.values().filter(|v| **v > 0).count() as u64);
                let g: Option<&CovResult> = got.iter().find(|(k, _)| k.ends_with(f.as_str())).map(|x| x.1);
                let (gl, gf): (BTreeMap<u32, u64>, BTreeMap<String, bool>) = match g {
                    Some(c) => (c.lines.clone(), c.functions.iter().map(|(n, f)| (n.clone(), f.executed)).collect()),
                    None => (BTreeMap::new(), BTreeMap::new()),
                };
                // functions of a header are listed by gcov under the file that defines them
                let wf_here: BTreeMap<String, bool> = wf.iter().filter(|(n, _)| gf.contains_key(*n) || f == "prog.c").map(|(a, b)| (a.clone(), *b)).collect();
                if &gl != wl || (f == "prog.c" && gf != wf_here) {
                    rep.fail(
                        "oracle",
                        None,
                        format!("grcov's lines/functions for {} differ from what gcov -b -c prints (threads={})", f, threads),
                        json!({"case": case, "file": f, "grcov_lines": format!("{:?}", gl), "gcov_lines": format!("{:?}", wl),
                               "grcov_fns": format!("{:?}", gf), "gcov_fns": format!("{:?}", wf_here)}),
                    );
                }
            }
        }
    }
}

pub fn run(rep: &mut Report) {
    rep.rule = "LLVM: 1-6 profiles over dir/zip/plain arguments, 1-5 ELF-headed binaries in a nested tree (a quarter \
                fail to export) plus non-executable decoys, recording stub tools; GCC: generated C programs (if/else, \
                loops, switch with fall-through, &&, early return, header function, unused function) compiled with gcc \
                --coverage and run 0-3 times, grcov with 1 and 3 threads against gcov -b -c text; non-trivial = a \
                failing binary and >=2 profiles (LLVM) or at least one run (GCC); distinct = distinct layout/program"
        .to_string();
    let mut rng = Rng::new(rep.seed ^ 0xC20);
    llvm_half(rep, &mut rng);
    gcc_half(rep, &mut rng);
    consumer::run(rep);
    llvmtree::run(rep);
}

pub fn replay(rep: &mut Report, _case: &serde_json::Value) {
    if _case["op"].as_str().map(|o| o.starts_with("c20.cons.")).unwrap_or(false) {
        return consumer::replay(rep, _case);
    }
    rep.notes.push("replays: re-run ./check C20 with the same seed; programs/layouts are recorded in the replay file".into());
}

fn main() {
    if consumer::child_main() {
        return;
    }
    corrlib::run_main("C20", run, replay);
}
